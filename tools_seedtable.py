#!/usr/bin/env python3
"""Regenerate the seeded-change tables of DESIGN.md (section 0.5) from seeded/*/meta.json."""
import json
import re
from pathlib import Path

root = Path(__file__).parent
metas = []
for p in sorted((root / 'seeded').glob('*/meta.json')):
    m = json.loads(p.read_text())
    m['_dir'] = p.parent.name
    metas.append(m)
det = sum(1 for m in metas if m['check']['detected'])
hist = [m for m in metas if m.get('history')]
strengthened = [m for m in hist if m['check']['detected']]
out = []
out.append('%d of %d are detected by the quick check of their property; %d of those were missed at first and led to a '
           'strengthening of the machinery; %d are not detected by it (explained in the table). `r2_`..`r4_` = later '
           'rounds, whose sub-agents were told which kinds of change had already been tried:\n' % (
               det, len(metas), len(strengthened), len(metas) - det))
out.append('| change | first run | what was strengthened |')
out.append('|---|---|---|')
for m in hist:
    h = m['history']
    h = re.sub(r'^first run MISSED\s*', '', h).strip()
    out.append('| %s `%s` | %s | %s |' % (m['property'], m['name'], 'MISSED' if m['check']['detected'] else '**not detected**',
                                       h.replace('|', '/')))
out.append('')
out.append('All changes and the clause / key that reports them:\n')
out.append('| property | change | needs | reported as |')
out.append('|---|---|---|---|')
for m in metas:
    fv = (m['check'].get('first_violation') or '').replace('|', '/').replace('\n', ' ')[:110]
    out.append('| %s | `%s` | see `seeded/%s/notes.md` | %s |' % (
        m['property'], m['name'], m['_dir'], fv if m['check']['detected'] else '**MISSED**'))
text = '\n'.join(out) + '\n'
d = root / 'DESIGN.md'
s = d.read_text()
a, b = '<!-- seedtable:begin -->\n', '<!-- seedtable:end -->\n'
i, j = s.index(a) + len(a), s.index(b)
d.write_text(s[:i] + text + s[j:])
print('%d seeded changes, %d detected, %d with history' % (len(metas), det, len(hist)))
