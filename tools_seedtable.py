#!/usr/bin/env python3
"""Regenerate the seeded-change tables of DESIGN.md (section 0.5) from seeded/*/meta.json."""
import json
import re
from pathlib import Path

root = Path(__file__).parent
metas = []
for p in sorted((root / 'seeded').glob('*/meta.json')):
    m = json.loads(p.read_text())
    m['_dir'] = p.parent.name
    metas.append(m)
det = sum(1 for m in metas if m['check']['detected'])
hist = [m for m in metas if m.get('history')]
out = []
out.append('%d of %d are detected by the quick check; %d were missed at first and led to a strengthening of the '
           'machinery (`r2_` = second round, whose sub-agents were told to avoid the obvious):\n' % (det, len(metas), len(hist)))
out.append('| change | first run | what was strengthened |')
out.append('|---|---|---|')
for m in hist:
    h = m['history']
    h = re.sub(r'^first run MISSED\s*', '', h).strip()
    out.append('| %s `%s` | MISSED | %s |' % (m['property'], m['name'], h.replace('|', '/')))
out.append('')
out.append('All changes and the clause / key that reports them:\n')
out.append('| property | change | needs | reported as |')
out.append('|---|---|---|---|')
for m in metas:
    fv = (m['check'].get('first_violation') or '').replace('|', '/').replace('\n', ' ')[:110]
    out.append('| %s | `%s` | see `seeded/%s/notes.md` | %s |' % (
        m['property'], m['name'], m['_dir'], fv if m['check']['detected'] else '**MISSED**'))
text = '\n'.join(out) + '\n'
d = root / 'DESIGN.md'
s = d.read_text()
a, b = '<!-- seedtable:begin -->\n', '<!-- seedtable:end -->\n'
i, j = s.index(a) + len(a), s.index(b)
d.write_text(s[:i] + text + s[j:])
print('%d seeded changes, %d detected, %d with history' % (len(metas), det, len(hist)))
