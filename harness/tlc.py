# -*- coding: utf-8 -*-
"""Thin, strict wrapper around TLC.

Three kinds of run (DESIGN.md 2.2):
  M  model check   -> `model_check`   exhaustive BFS, invariants / properties, coverage
  G  generate      -> `generate`      same, but the spec emits one JSON line per case (CSVWrite)
  V  validate      -> `validate`      Trace_* spec consumes an ndjson file recorded from the code

Every run is under a timeout; any outcome that is not a clean "no error" or a clean, parsed
verdict raises MachineryError (exit 2 of the check), never a property verdict.
"""

import json
import os
import re
import shutil
import subprocess
import time
from pathlib import Path

SPEC_DIR = Path(__file__).resolve().parent.parent / 'spec'
JAVA_CP = '/opt/veriftools/tla/tla2tools.jar:/opt/veriftools/tla/CommunityModules-deps.jar'


class MachineryError(Exception):
    """The machinery (not the property) failed."""


class TlcResult(object):
    def __init__(self):
        self.generated = 0
        self.distinct = 0
        self.depth = 0
        self.wall_s = 0.0
        self.exit = None
        self.errors = []       # 'Error: ...' lines
        self.violated = []     # names of violated invariants / properties
        self.output = ''
        self.cmd = ''
        self.coverage = {}     # action name -> (distinct, total)
        self.printed = []      # PrintT lines (raw)

    @property
    def ok(self):
        return self.exit == 0 and not self.errors

    def summary(self):
        return dict(states=self.distinct, transitions=self.generated, depth=self.depth,
                    wall_s=round(self.wall_s, 2), cmd=self.cmd)


_RE_STATES = re.compile(r'(\d+) states generated, (\d+) distinct states found')
_RE_DEPTH = re.compile(r'The depth of the complete state graph search is (\d+)')
_RE_INV = re.compile(r'Error: Invariant (\S+) is violated')
_RE_PROP = re.compile(r'Error: (?:Action|Temporal) propert(?:y|ies) (\S+)? ?(?:is|were) violated')
_RE_COV = re.compile(r'^<(\w+) line \d+, col \d+ to line \d+, col \d+ of module (\w+)(?: \([\d ]+\))?>: (\d+):(\d+)')


def _parse(res):
    out = res.output
    for m in _RE_STATES.finditer(out):
        res.generated, res.distinct = int(m.group(1)), int(m.group(2))
    m = _RE_DEPTH.search(out)
    if m:
        res.depth = int(m.group(1))
    for line in out.splitlines():
        if line.startswith('Error:'):
            res.errors.append(line.strip())
        m = _RE_INV.match(line)
        if m:
            res.violated.append(m.group(1))
        m = _RE_PROP.match(line)
        if m:
            res.violated.append(m.group(1) or 'temporal')
        m = _RE_COV.match(line)
        if m:
            res.coverage[m.group(1)] = (int(m.group(3)), int(m.group(4)))
    return res


def run(module, cfg, workdir, env=None, workers=16, timeout=900, simulate=None, depth=None,
        coverage=False, dfs=False, seed=None, heap_gb=8, tag=None, deadlock=False):
    """Run TLC on spec/<module>.tla with spec/<cfg>. Returns a TlcResult (never raises on a
    spec-level error; callers decide)."""
    workdir = Path(workdir)
    workdir.mkdir(parents=True, exist_ok=True)
    tag = tag or (module + '_' + Path(cfg).stem)
    meta = workdir / ('meta_' + tag)
    if meta.exists():
        shutil.rmtree(meta)
    jvm = ['java', '-XX:+UseParallelGC', '-Xmx%dg' % heap_gb, '-Xss512m', '-cp', JAVA_CP]
    if dfs:
        jvm.append('-Dtlc2.tool.queue.IStateQueue=StateDeque')
    cmd = jvm + ['tlc2.TLC', '-workers', str(workers), '-metadir', str(meta),
                 '-noGenerateSpecTE', '-config', str(SPEC_DIR / cfg)]
    if not deadlock:
        cmd += ['-deadlock']   # -deadlock DISABLES deadlock checking
    if coverage:
        cmd += ['-coverage', '1']
    if simulate:
        cmd += ['-simulate', simulate]
        if depth:
            cmd += ['-depth', str(depth)]
    if seed is not None:
        cmd += ['-seed', str(seed)]
    cmd += [str(SPEC_DIR / (module + '.tla'))]
    e = dict(os.environ)
    e.pop('JAVA_TOOL_OPTIONS', None)
    for k, v in (env or {}).items():
        e[k] = str(v)
    res = TlcResult()
    res.cmd = ' '.join(cmd[cmd.index('tlc2.TLC'):]) + ''.join(
        ' %s=%s' % kv for kv in sorted((env or {}).items()))
    t0 = time.time()
    try:
        p = subprocess.run(cmd, env=e, cwd=str(workdir), stdout=subprocess.PIPE,
                           stderr=subprocess.STDOUT, timeout=timeout)
    except subprocess.TimeoutExpired as ex:
        subprocess.run(['pkill', '-f', str(meta)])
        raise MachineryError('TLC timed out after %ds: %s' % (timeout, res.cmd))
    finally:
        shutil.rmtree(meta, ignore_errors=True)
    res.wall_s = time.time() - t0
    res.exit = p.returncode
    res.output = p.stdout.decode('utf-8', 'replace')
    (workdir / (tag + '.log')).write_text(res.output)
    return _parse(res)


def model_check(module, cfg, workdir, env=None, expect_actions=(), **kw):
    """M run: must finish without any error; every action in expect_actions must have been
    taken at least once (vacuity guard). Raises MachineryError otherwise."""
    kw.setdefault('coverage', bool(expect_actions))
    res = run(module, cfg, workdir, env=env, **kw)
    if not res.ok:
        raise MachineryError('model check %s/%s failed (exit %s): %s\n--- tail ---\n%s' % (
            module, cfg, res.exit, '; '.join(res.errors[:3]), res.output[-3000:]))
    if res.distinct < 1:
        raise MachineryError('model check %s/%s: no state count parsed' % (module, cfg))
    for a in expect_actions:
        if a not in res.coverage or res.coverage[a][1] == 0:
            raise MachineryError('vacuity: action %s of %s never taken (coverage %r)' % (
                a, module, res.coverage.get(a)))
    return res


def generate(module, cfg, workdir, out_name='cases.ndjson', env=None, **kw):
    """G run: the spec writes one JSON object per line to IOEnv.OUT_FILE. Returns
    (result, path, n_lines)."""
    workdir = Path(workdir)
    workdir.mkdir(parents=True, exist_ok=True)
    out = workdir / out_name
    if out.exists():
        out.unlink()
    env = dict(env or {})
    env['OUT_FILE'] = str(out)
    res = run(module, cfg, workdir, env=env, **kw)
    if not res.ok:
        raise MachineryError('generation %s/%s failed (exit %s): %s\n--- tail ---\n%s' % (
            module, cfg, res.exit, '; '.join(res.errors[:3]), res.output[-3000:]))
    if not out.exists():
        raise MachineryError('generation %s/%s wrote nothing' % (module, cfg))
    # TLC's workers append in a nondeterministic order: sort the lines so that the replay (and every
    # seeded choice made while iterating) is reproducible for a given VERIF_SEED
    e = dict(os.environ, LC_ALL='C')
    p = subprocess.run(['sort', '-o', str(out), str(out)], env=e)
    if p.returncode != 0:
        raise MachineryError('sorting %s failed' % out)
    n = 0
    with open(out, 'rb') as f:
        for _ in f:
            n += 1
    return res, out, n


def read_cases(path):
    """Yield the JSON objects of a file written by CSVWrite("%1$s", <<ToJson(x)>>, file)."""
    with open(path) as f:
        for line in f:
            line = line.strip()
            if line:
                x = json.loads(line)
                # CSVWrite("%1$s", <<ToJson(v)>>) prints the TLA+ string *value*, i.e. the JSON
                # text once more quoted and escaped
                if isinstance(x, str):
                    x = json.loads(x)
                yield x


# ------------------------------------------------------------------------------------------
# ndjson for TLC: strict validation (DESIGN.md 2.2)
# ------------------------------------------------------------------------------------------

LIMIT = 2 ** 30


def check_tlc_value(x, path='$'):
    """Only bool, str, int with |x| < 2**30, lists, dicts with str keys. No None, no float."""
    if isinstance(x, bool) or isinstance(x, str):
        return
    if isinstance(x, int):
        if abs(x) >= LIMIT:
            raise MachineryError('integer out of TLC range at %s: %r' % (path, x))
        return
    if isinstance(x, (list, tuple)):
        for i, y in enumerate(x):
            check_tlc_value(y, '%s[%d]' % (path, i))
        return
    if isinstance(x, dict):
        for k, y in x.items():
            if not isinstance(k, str):
                raise MachineryError('non-string key at %s: %r' % (path, k))
            check_tlc_value(y, '%s.%s' % (path, k))
        return
    raise MachineryError('value of type %s not representable for TLC at %s: %r' % (
        type(x).__name__, path, x))


def write_trace(path, records):
    """Write records as ndjson after strict validation. Returns the number of lines."""
    n = 0
    with open(path, 'w') as f:
        for r in records:
            check_tlc_value(r)
            f.write(json.dumps(r, separators=(',', ':')) + '\n')
            n += 1
    return n


_RE_REJ = re.compile(r'"?REJECTED"?')


def validate(module, cfg, workdir, trace_path, n_records, env=None, **kw):
    """V run. Contract with every Trace_* spec:
      * it reads IOEnv.TRACE_FILE with ndJsonDeserialize, consumes one record per step,
      * collects in TLC register 1 the set of `id`s whose predicates failed, with for each a
        clause name: register value is a set of <<id, clause>>,
      * its POSTCONDITION prints  <<"VERDICT", consumed, rejected_set>>  with PrintT and is TRUE
        iff consumed = Len(Trace) (acceptance of the *length*; rejected ids are reported, not
        turned into a TLC error).
    Returns (result, rejected) with rejected = list of (id, clause)."""
    env = dict(env or {})
    env['TRACE_FILE'] = str(trace_path)
    kw.setdefault('workers', 1)
    res = run(module, cfg, workdir, env=env, **kw)
    if not res.ok:
        raise MachineryError('trace validation %s failed (exit %s): %s\n--- tail ---\n%s' % (
            module, res.exit, '; '.join(res.errors[:3]), res.output[-3000:]))
    k = res.output.rfind('"VERDICT"')
    if k < 0:
        raise MachineryError('trace validation %s printed no verdict\n%s' % (
            module, res.output[-2000:]))
    text = res.output[k:]
    m = re.match(r'"VERDICT",\s*(\d+),\s*\{', text)
    if not m:
        raise MachineryError('trace validation %s: unparsable verdict %r' % (module, text[:200]))
    consumed = int(m.group(1))
    if consumed != n_records:
        raise MachineryError('trace validation %s consumed %d of %d records' % (
            module, consumed, n_records))
    depth, j = 1, m.end()
    while depth and j < len(text):
        depth += {'{': 1, '}': -1}.get(text[j], 0)
        j += 1
    if depth:
        raise MachineryError('trace validation %s: unterminated verdict set' % module)
    rejected = parse_tla_set_of_pairs(text[m.end() - 1:j])
    return res, rejected


def parse_tla_set_of_pairs(text):
    """Parse  {<<12, "clause">>, <<"id", "clause">>}  into a list of tuples."""
    out = []
    for m in re.finditer(r'<<\s*("?[^,">]*"?)\s*,\s*"([^"]*)"\s*>>', text):
        a = m.group(1).strip()
        if a.startswith('"'):
            a = a.strip('"')
        else:
            a = int(a)
        out.append((a, m.group(2)))
    return out


# ------------------------------------------------------------------------------------------
# Apalache (symbolic; used for the unbounded inductive invariant of the chunk generator)
# ------------------------------------------------------------------------------------------

def apalache(module_path, workdir, init, inv, length, expect_error=False, timeout=900):
    """Run `apalache-mc check`. Returns the wall time. Raises MachineryError unless the outcome is the
    expected one (NoError, or Error when a refutation is expected as a vacuity guard)."""
    workdir = Path(workdir) / 'apalache'
    workdir.mkdir(parents=True, exist_ok=True)
    cmd = ['apalache-mc', 'check', '--init=' + init, '--inv=' + inv, '--length=%d' % length,
           '--out-dir=' + str(workdir), str(module_path)]
    t0 = time.time()
    try:
        p = subprocess.run(cmd, cwd=str(workdir), stdout=subprocess.PIPE, stderr=subprocess.STDOUT, timeout=timeout)
    except (subprocess.TimeoutExpired, OSError) as e:
        raise MachineryError('apalache failed to run: %s' % e)
    out = p.stdout.decode('utf-8', 'replace')
    ok = 'The outcome is: NoError' in out
    err = 'The outcome is: Error' in out
    if (expect_error and not err) or (not expect_error and not ok):
        raise MachineryError('apalache %s %s: unexpected outcome\n%s' % (init, inv, out[-1500:]))
    return time.time() - t0
