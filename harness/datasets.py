# -*- coding: utf-8 -*-
"""Materialise abstract datasets as real KiloSort/phy or ALF-named directories.

A dataset is a plain dict of logical arrays (small integers / dyadic numbers so that every
quantity the specifications reason about is exact):
  rate      sampling rate (power of two)
  samples   (ns,) sorted spike samples
  st        (ns,) spike templates;  sc  (ns,) spike clusters or None (file absent)
  amps      (ns,) amplitudes or None
  chmap     (nc,) raw channel of each channel;  pos (nc, 2);  shanks, probes: (nc,) or None
  T         (nt, nsw, nc) templates  [or (nt, nsw, nloc) with Tind (nt, nloc) for sparse storage]
  wm, wmi   (nc, nc) or None;  sim (nt, nt) or None
  pcf (nrows, npcs, nloc), pcind (nt, nloc), pcrows or None;  tf (nrows, nloc), tfind, tfrows
  raw       (n_samples, ncdat) int16 or None
  attrs     {name: (ns,) array} extra spike_<name>.npy files
"""

from pathlib import Path

import numpy as np

from .core import MachineryError

KS = dict(times='spike_times.npy', st='spike_templates.npy', sc='spike_clusters.npy',
          amps='amplitudes.npy', chmap='channel_map.npy', pos='channel_positions.npy',
          shanks='channel_shanks.npy', probes='channel_probe.npy', T='templates.npy',
          Tind='template_ind.npy')
ALF = dict(times='spikes.times.npy', samples='spikes.samples.npy', st='spikes.templates.npy',
           sc='spikes.clusters.npy', amps='spikes.amps.npy', chmap='channels.rawInd.npy',
           pos='channels.localCoordinates.npy', shanks='channels.shanks.npy',
           probes='channels.probes.npy', T='templates.waveforms.npy',
           Tind='templates.waveformsChannels.npy')
COMMON = dict(wm='whitening_mat.npy', wmi='whitening_mat_inv.npy', sim='similar_templates.npy',
              pcf='pc_features.npy', pcind='pc_feature_ind.npy', pcrows='pc_feature_spike_ids.npy',
              tf='template_features.npy', tfind='template_feature_ind.npy',
              tfrows='template_feature_spike_ids.npy')


def write_dataset(d, ds, naming='ks', col1=False, id_dtype=np.int32, time_dtype=np.uint64,
                  float_dtype=np.float32, alf_samples=True, dat_name='raw.dat', offset=0,
                  tsv=None, alf_jitter=None):
    """Write `ds` under directory d. Returns the path of params.py."""
    d = Path(d)
    d.mkdir(parents=True, exist_ok=True)
    names = KS if naming == 'ks' else ALF

    def vec(x, dtype):
        x = np.asarray(x, dtype=dtype)
        return x.reshape((-1, 1)) if col1 else x

    rate = float(ds['rate'])
    if naming == 'ks':
        np.save(d / names['times'], vec(ds['samples'], time_dtype))
    else:
        t = np.asarray(ds['samples'], dtype=np.float64)
        if alf_jitter is not None:
            # stored seconds that are NOT exactly on the sample grid (still non-decreasing): the
            # loader must recover the samples by ROUNDING
            t = t + np.asarray(alf_jitter, dtype=np.float64)
        np.save(d / names['times'], vec(t / rate, np.float64))
        if alf_samples:
            np.save(d / names['samples'], vec(ds['samples'], time_dtype))
    np.save(d / names['st'], vec(ds['st'], id_dtype))
    if ds.get('sc') is not None:
        np.save(d / names['sc'], vec(ds['sc'], id_dtype))
    if ds.get('amps') is not None:
        np.save(d / names['amps'], vec(ds['amps'], ds.get('aux_dtype', np.float64)))
    np.save(d / names['chmap'], vec(ds['chmap'], ds.get('chmap_dtype', np.int32)))
    np.save(d / names['pos'], np.asarray(ds['pos'], dtype=np.float64))
    if ds.get('shanks') is not None:
        np.save(d / names['shanks'], vec(ds['shanks'], np.int32))
    if ds.get('probes') is not None:
        np.save(d / names['probes'], vec(ds['probes'], np.int32))
    np.save(d / names['T'], np.asarray(ds['T'], dtype=float_dtype))
    if ds.get('Tind') is not None:
        np.save(d / names['Tind'], np.asarray(ds['Tind'], dtype=np.int32))
    for key, fname in COMMON.items():
        if ds.get(key) is None:
            continue
        if key in ('pcind', 'tfind'):
            np.save(d / fname, np.asarray(ds[key], dtype=ds.get('ind_dtype', np.uint32)))
        elif key in ('pcrows', 'tfrows'):
            np.save(d / fname, np.asarray(ds[key], dtype=np.int64))
        elif key in ('pcf', 'tf'):
            np.save(d / fname, np.asarray(ds[key], dtype=float_dtype))
        else:
            a = np.asarray(ds[key], dtype=ds.get('aux_dtype', np.float64))
            # (2-D arrays may be stored in Fortran order, as a transposed or Matlab-written matrix is)
            np.save(d / fname, np.asfortranarray(a) if (ds.get('aux_fortran') and a.ndim == 2) else a)
    for name, arr in (ds.get('attrs') or {}).items():
        a = np.asarray(arr)
        np.save(d / ('spike_%s.npy' % name), np.asfortranarray(a) if (ds.get('aux_fortran') and a.ndim == 2) else a)
    for fname, text in (tsv or {}).items():
        (d / fname).write_bytes(text.encode('utf-8'))       # (bytes: keeps \r\n and a BOM as they are)
    ncdat = int(ds.get('ncdat') or len(ds['chmap']))      # raw channel count (may exceed the channel map)
    dat = None
    if ds.get('raw') is not None:
        raw = np.asarray(ds['raw'], dtype=np.int16)
        ncdat = raw.shape[1]
        dat = dat_name
        with open(d / dat_name, 'wb') as f:
            f.write(b'\x00' * offset)
            f.write(raw.tobytes())
    lines = ['dat_path = %s' % (repr(dat) if dat else '[]'),
             'n_channels_dat = %d' % ncdat, "dtype = 'int16'", 'offset = %d' % offset,
             'sample_rate = %r' % rate, 'hp_filtered = False']
    (d / 'params.py').write_text('\n'.join(lines) + '\n')
    return d / 'params.py'


def load(params_path):
    from phylib.io.model import load_model
    return load_model(params_path)


# ------------------------------------------------------------------------------------------
# random small-integer contents
# ------------------------------------------------------------------------------------------

def monomial(rng, nc):
    """(wm, wmi) with wmi a permutation times powers of two (multiples of 1/4, exact inverse)."""
    perm = rng.permutation(nc)
    scale = rng.choice([0.5, 1.0, 2.0, 0.25, 4.0], size=nc)
    wmi = np.zeros((nc, nc))
    wmi[np.arange(nc), perm] = scale
    wm = np.linalg.inv(wmi)
    return wm, wmi


def unit_triangular(rng, nc):
    """(wm, wmi) with wmi unit upper-triangular with small integer entries (exact inverse)."""
    wmi = np.eye(nc) + np.triu(rng.randint(-1, 2, size=(nc, nc)), 1)
    wm = np.round(np.linalg.inv(wmi))
    return wm, wmi


def random_dense(rng, ns=20, nt=4, nc=6, nsw=4, whitening='none', shanks=False, probes=False,
                 amps=True, rate=1024, tmax=3, empty_templates=(), curated=None, geometry='grid',
                 features=False, raw=False, nloc=None):
    """A dense-template dataset with small-integer contents."""
    # the loader squeezes singleton dimensions: a templates file with ONE template, sample or channel
    # is ambiguous on disk ((1, s, c) squeezes to (s, c)); such degenerate datasets are not generated
    if min(nt, nsw, nc) < 2:
        raise MachineryError('degenerate dataset requested: nt=%d nsw=%d nc=%d' % (nt, nsw, nc))
    ds = dict(rate=rate)
    gaps = rng.randint(0, 4, size=ns)
    ds['samples'] = np.cumsum(gaps) + 3
    used = [t for t in range(nt) if t not in empty_templates]
    st = np.asarray([used[i] for i in rng.randint(0, len(used), size=ns)])
    # make sure every non-empty template has at least one spike when possible
    for k, t in enumerate(used):
        if k < ns:
            st[k] = t
    st = st[rng.permutation(ns)] if ns else st
    ds['st'] = st
    ds['sc'] = curated
    ds['amps'] = rng.randint(1, 5, size=ns).astype(float) if amps else None
    ds['chmap'] = rng.permutation(nc)
    if geometry == 'grid':
        ds['pos'] = np.c_[np.arange(nc) % 2, np.arange(nc) // 2] * 10.0
    elif geometry == 'line':
        ds['pos'] = np.c_[np.zeros(nc), np.arange(nc)] * 20.0
    else:
        pts = rng.permutation(16)[:nc]
        ds['pos'] = np.c_[pts % 4, pts // 4] * 5.0
    ds['shanks'] = (np.arange(nc) % 2) if shanks else None
    ds['probes'] = None
    ds['T'] = rng.randint(-tmax, tmax + 1, size=(nt, nsw, nc)).astype(float)
    for t in range(nt):
        if not ds['T'][t].any():
            ds['T'][t, 0, 0] = 1.0
    if whitening == 'monomial':
        ds['wm'], ds['wmi'] = monomial(rng, nc)
    elif whitening == 'triangular':
        ds['wm'], ds['wmi'] = unit_triangular(rng, nc)
    else:
        ds['wm'] = ds['wmi'] = None
    wmi = ds['wmi']
    ds['wmi_eff'] = np.eye(nc) if wmi is None else wmi
    if wmi is not None and rng.rand() < 0.5:
        ds['wmi'] = None          # the inverse file is absent: the loader computes and writes it
    ds['sim'] = None
    if features:
        nloc = nloc or min(nc, 3)
        ds['pcind'] = np.asarray([rng.permutation(nc)[:nloc] for _ in range(nt)])
        ds['pcf'] = rng.randint(-2, 4, size=(ns, 3, nloc)).astype(float)
    if raw:
        n_samples = int(ds['samples'][-1]) + 6 if ns else 10
        ds['raw'] = rng.randint(-50, 50, size=(n_samples, nc + 1))
    return ds
