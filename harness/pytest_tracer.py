# -*- coding: utf-8 -*-
"""pytest plugin: record the calls the repository's OWN tests make into the code under test.

Loaded with `-p harness.pytest_tracer` when PHYLIB_TRACE_OUT names a file. It wraps module-level
functions of phylib *before* the test modules are imported (so their `from ..array import f` binds the
wrappers) and appends one JSON line {"module": <spec module>, "rec": {...}} per call whose arguments lie
inside the domain of the corresponding specification. The records use the vocabularies of the Trace_*
specifications; the drivers validate them (pipeline U in DESIGN.md). Nothing here judges anything."""

import json
import os

import numpy as np

OUT = os.environ.get('PHYLIB_TRACE_OUT')
CAP = 1500              # longest vector logged
OTHER = 1000000         # cluster id standing for "some cluster that was not requested"
_state = dict(fh=None, test='', n=0)


def _emit(module, rec):
    if _state['fh'] is None:
        return
    rec['test'] = _state['test']
    _state['fh'].write(json.dumps(dict(module=module, rec=rec)) + '\n')
    _state['fh'].flush()
    _state['n'] += 1


def _ivec(x, lo=0):
    """x as a list of Python ints if it is a 1-D integer-valued vector with every value >= lo, else None."""
    try:
        a = np.asarray(x)
    except Exception:
        return None
    if a.ndim != 1 or a.size > CAP:
        return None
    if a.size == 0:
        return []
    if a.dtype.kind not in 'iu':
        return None
    if int(a.min()) < lo or int(a.max()) >= 2 ** 31:
        return None
    return [int(v) for v in a]


def _safe(f):
    """Logging must never change what the test sees."""
    def g(*a, **k):
        try:
            f(*a, **k)
        except Exception:
            pass
    return g


def install():
    from phylib.io import array as A

    # ------------------------------------------------------------------ Clusters (C07)
    orig_unique = A._unique

    def _unique(x):
        out = orig_unique(x)
        _safe(lambda: (lambda v, o: _emit('Clusters', dict(kind='call_unique', v=v, out=o))
                       if v is not None and o is not None else None)(
            _ivec([] if x is None else x, lo=-1), _ivec(out)))()
        return out
    A._unique = _unique

    orig_index_of = A._index_of

    def _index_of(arr, lookup):
        out = orig_index_of(arr, lookup)

        def log():
            a, lk, o = _ivec(arr, lo=-1), _ivec(lookup), _ivec(out, lo=-1)
            if a is None or lk is None or o is None or len(set(lk)) != len(lk):
                return
            if any(v != -1 and v not in set(lk) for v in a):
                return                                   # outside the documented domain
            _emit('Clusters', dict(kind='call_index_of', arr=a, lookup=lk, out=o))
        _safe(log)()
        return out
    A._index_of = _index_of

    orig_in = A._spikes_in_clusters

    def _spikes_in_clusters(spike_clusters, clusters):
        out = orig_in(spike_clusters, clusters)

        def log():
            v, rq, o = _ivec(spike_clusters), _ivec(clusters), _ivec(out)
            if v is None or rq is None or o is None:
                return
            _emit('Clusters', dict(kind='call_in_clusters', v=v, req=rq, out=o))
        _safe(log)()
        return out
    A._spikes_in_clusters = _spikes_in_clusters

    orig_per = A._spikes_per_cluster

    def _spikes_per_cluster(spike_clusters, spike_ids=None):
        out = orig_per(spike_clusters, spike_ids)

        def log():
            v = _ivec(spike_clusters)
            ids = list(range(len(v))) if spike_ids is None else _ivec(spike_ids)
            if v is None or ids is None or len(ids) != len(v):
                return
            groups = []
            for k in sorted(out):
                g = _ivec(out[k])
                if g is None:
                    return
                groups.append([int(k), g])
            _emit('Clusters', dict(kind='call_per_cluster', v=v, ids=ids, groups=groups))
        _safe(log)()
        return out
    A._spikes_per_cluster = _spikes_per_cluster

    orig_flat = A._flatten_per_cluster

    def _flatten_per_cluster(per_cluster):
        out = orig_flat(per_cluster)

        def log():
            groups = []
            for k in per_cluster:
                g = _ivec(per_cluster[k])
                if g is None:
                    return
                groups.append([int(k), g])
            o = _ivec(out)
            if o is not None and groups:
                _emit('Clusters', dict(kind='call_flatten', groups=groups, out=o))
        _safe(log)()
        return out
    A._flatten_per_cluster = _flatten_per_cluster

    # ------------------------------------------------------------------ Chunking (C16)
    orig_cb = A.chunk_bounds

    def chunk_bounds(n_samples, chunk_size, overlap=0):
        ok = (isinstance(n_samples, (int, np.integer)) and isinstance(chunk_size, (int, np.integer)) and
              isinstance(overlap, (int, np.integer)) and 0 <= overlap < chunk_size and 0 < n_samples < 2 ** 31 and
              n_samples // max(1, chunk_size - overlap) <= 3000)
        if not ok:
            return orig_cb(n_samples, chunk_size, overlap)
        # the generator is a pure function of three integers: it is run to its end here (the test may
        # consume only a prefix) and handed back as an iterator
        out = list(orig_cb(n_samples, chunk_size, overlap))
        _safe(lambda: _emit('Chunking', dict(mode='gen', n=int(n_samples), cs=int(chunk_size), ov=int(overlap),
                                             out=[[int(v) for v in row] for row in out])))()
        return iter(out)
    A.chunk_bounds = chunk_bounds

    # ------------------------------------------------------------------ Selector (C17)
    S = A.SpikeSelector
    orig_init, orig_call = S.__init__, S.__call__

    def __init__(self, get_spikes_per_cluster=None, spike_times=None, chunk_bounds=None, n_chunks_kept=None):
        orig_init(self, get_spikes_per_cluster=get_spikes_per_cluster, spike_times=spike_times,
                  chunk_bounds=chunk_bounds, n_chunks_kept=n_chunks_kept)
        try:
            self._verif = (np.asarray(chunk_bounds, dtype=np.float64).tolist(), int(n_chunks_kept))
        except Exception:
            self._verif = None
    S.__init__ = __init__

    def __call__(self, n_spk_clu, cluster_ids, subset_chunks=False, subset_spikes=None):
        out = orig_call(self, n_spk_clu, cluster_ids, subset_chunks=subset_chunks, subset_spikes=subset_spikes)

        def log():
            if getattr(self, '_verif', None) is None:
                return
            bounds, nkept = self._verif
            times = np.asarray(self.spike_times, dtype=np.float64)
            if times.ndim != 1 or times.size > CAP or not np.all(np.isfinite(times)):
                return
            req = _ivec(cluster_ids)
            res = _ivec(out)
            if req is None or res is None or any(c >= OTHER for c in req):
                return
            clu = [OTHER] * len(times)
            for c in dict.fromkeys(req):
                ids = _ivec(self.get_spikes_per_cluster(c))
                if ids is None:
                    return
                for i in ids:
                    if clu[i] != OTHER:
                        return                       # a spike in two clusters: not a clustering
                    clu[i] = c
            kept = np.asarray(self.chunks_kept, dtype=np.float64).tolist()
            # only ORDER comparisons between times and bounds matter: an order-preserving map to ranks is exact
            grid = sorted(set(times.tolist()) | set(bounds) | set(kept))
            rank = {v: k for k, v in enumerate(grid)}
            if bounds != sorted(set(bounds)):
                return                               # the grid must be strictly increasing
            sub = [-1] if subset_spikes is None else _ivec(np.unique(np.asarray(subset_spikes)))
            if sub is None:
                return
            nreq = -1 if n_spk_clu is None else int(n_spk_clu)
            if nreq < -1:
                return
            _emit('Selector', dict(kind='call', times=[rank[v] for v in times.tolist()], clu=clu,
                                   bounds=[rank[v] for v in bounds], nkept=nkept, nreq=nreq, req=req,
                                   useChunks=bool(subset_chunks), subset=sub,
                                   chunksKept=[rank[v] for v in kept], result=res))
        _safe(log)()
        return out
    S.__call__ = __call__


def pytest_configure(config):
    if not OUT:
        return
    _state['fh'] = open(OUT, 'a')
    install()


def pytest_runtest_setup(item):
    _state['test'] = item.nodeid


def pytest_unconfigure(config):
    if _state['fh'] is not None:
        _state['fh'].close()
        _state['fh'] = None
