# -*- coding: utf-8 -*-
"""Check context: tier/seed, scratch directory, violations, known findings, evidence."""

import contextlib
import importlib
import signal
import json
import os
import random
import shutil
import sys
import time
import traceback
from pathlib import Path

from . import tlc
from .tlc import MachineryError

VERIF = Path(__file__).resolve().parent.parent
REPO = Path(os.environ.get('PHYLIB_REPO', '/repo'))
GUARD = 'PHYLIB_VERIF'


def import_repo():
    """Make `import phylib` resolve to the working tree of /repo (fresh interpreter per check)."""
    os.environ.setdefault('TQDM_DISABLE', '1')
    os.environ[GUARD] = '1'
    p = str(REPO)
    if p in sys.path:
        sys.path.remove(p)
    sys.path.insert(0, p)
    import phylib  # noqa
    import logging
    logging.disable(logging.ERROR)
    import warnings
    import numpy
    warnings.simplefilter('ignore')
    numpy.seterr(all='ignore')
    got = Path(phylib.__file__).resolve().parent.parent
    if got != REPO.resolve():
        raise MachineryError('phylib imported from %s, not from %s' % (got, REPO))


class CodeTimeout(BaseException):
    pass


class Violation(object):
    def __init__(self, key, message, case=None):
        self.key = key          # input-class key matched against known_findings.json
        self.message = message
        self.case = case        # JSON-serialisable description: inputs, expected, observed

    def to_json(self):
        return dict(key=self.key, message=self.message, case=self.case)


class Context(object):
    def __init__(self, prop, tier, seed):
        self.prop = prop
        self.tier = tier
        self.seed = seed
        self.quick = tier == 'quick'
        self.t0 = time.time()
        self.work = VERIF / '.work' / ('%s_%s_%d' % (prop, tier, os.getpid()))
        if self.work.exists():
            shutil.rmtree(self.work)
        self.work.mkdir(parents=True)
        self.violations = []
        self.states = 0
        self.transitions = 0
        self.traces = 0          # executions of the real code compared with / validated by the spec
        self.evaluations = 0
        self.nontrivial = 0
        self.samples = []
        self.parts = []          # per-phase records for the evidence file
        self.assumptions = []
        self.tlc_cmds = []
        self.exhaustive = True
        self.rng = random.Random(seed)
        self._max_viol = 25
        self.notes = {}
        self.abort = False       # set after a non-terminating call or > 100 violations: stop exploring

    # -- TLC phases -----------------------------------------------------------------------
    def model_check(self, module, cfg, note='', **kw):
        res = tlc.model_check(module, cfg, self.work, **kw)
        self.states += res.distinct
        self.transitions += res.generated
        self.tlc_cmds.append(res.cmd)
        self.parts.append(dict(kind='M', module=module, cfg=cfg, note=note, **res.summary(),
                               coverage={k: v[1] for k, v in res.coverage.items()}))
        return res

    def generate(self, module, cfg, note='', **kw):
        res, path, n = tlc.generate(module, cfg, self.work, out_name='cases_%s_%d.ndjson' % (
            Path(cfg).stem, len(self.parts)), **kw)
        self.states += res.distinct
        self.transitions += res.generated
        self.tlc_cmds.append(res.cmd)
        self.parts.append(dict(kind='G', module=module, cfg=cfg, note=note, cases=n,
                               **res.summary()))
        return res, path, n

    def validate(self, module, cfg, records, note='', **kw):
        """records: list of dicts each with an 'id'. Returns list of (id, clause) rejected."""
        if not records:
            raise MachineryError('no records to validate for %s' % module)
        # inputs are generated inside TLC's integer range; a value outside it can only come from the
        # code under test (e.g. -1 cast to uint32) and is a violation, not a reason to stop
        ok = []
        for r in records:
            try:
                tlc.check_tlc_value(r)
                ok.append(r)
            except MachineryError as e:
                self.violation('unrepresentable', 'the code under test produced a value outside the '
                               'range the specification can represent: %s' % e, dict(record=r))
        records = ok
        if not records:
            return []
        path = self.work / ('trace_%s_%d.ndjson' % (module, len(self.parts)))
        n = tlc.write_trace(path, records)
        res, rejected = tlc.validate(module, cfg, self.work, path, n, **kw)
        self.states += res.distinct
        self.transitions += res.generated
        self.tlc_cmds.append(res.cmd)
        self.traces += n
        self.parts.append(dict(kind='V', module=module, cfg=cfg, note=note, records=n,
                               rejected=len(rejected), **res.summary()))
        path.unlink()
        return rejected

    def upstream(self, test_paths, module):
        """Pipeline U: run the repository's OWN tests (those that run offline) with harness/pytest_tracer.py
        loaded and return the records they produced for `module` (ids assigned). The outcome of the tests
        themselves is recorded but never judged here."""
        import subprocess
        out = self.work / ('upstream_%s.ndjson' % module)
        if out.exists():
            out.unlink()
        env = dict(os.environ, PHYLIB_TRACE_OUT=str(out),
                   PYTHONPATH='%s:%s' % (Path(__file__).resolve().parent.parent, REPO))
        present = [t for t in test_paths if (REPO / t).exists()]
        recs, tail = [], ''
        if present:
            try:
                pr = subprocess.run([sys.executable, '-m', 'pytest', '-q', '-p', 'no:cacheprovider', '-p',
                                     'harness.pytest_tracer'] + present, cwd=str(REPO), env=env,
                                    capture_output=True, text=True, timeout=900)
                tail = (pr.stdout.strip().splitlines() or [''])[-1][:200]
            except subprocess.TimeoutExpired:
                tail = 'timeout'
        if out.exists():
            for line in out.read_text().splitlines():
                try:
                    doc = json.loads(line)
                except ValueError:
                    continue
                if doc.get('module') == module:
                    recs.append(doc['rec'])
            out.unlink()
        for k, r in enumerate(recs):
            r['id'] = k + 1
        self.parts.append(dict(kind='U', module=module, tests=present, records=len(recs), pytest=tail,
                               note='records of calls made by the repository\'s own tests'))
        return recs

    # -- bookkeeping ----------------------------------------------------------------------
    def violation(self, key, message, case=None):
        if len(self.violations) >= 100:
            self.abort = True
        if len(self.violations) < self._max_viol or not any(
                v.key == key for v in self.violations):
            self.violations.append(Violation(key, message, case))
        else:
            self.violations.append(Violation(key, message, None))

    def note(self, kind, message, case=None):
        """An implementation-layer divergence: the code does not follow the I-layer transcription on
        some internal detail (a differently shaped intermediate step, a renamed helper that cannot be
        wrapped any more) while the property-level judgement is made elsewhere. Recorded in the
        evidence file, never a violation by itself."""
        self.notes.setdefault(kind, dict(count=0, first=message[:400]))['count'] += 1

    def sample(self, x, limit=6):
        if len(self.samples) < limit:
            self.samples.append(x)

    def part(self, **kw):
        self.parts.append(kw)

    @contextlib.contextmanager
    def guard(self, key, case=None, seconds=30):
        """Run code under test under a wall-clock limit: a call that does not return is a
        violation (every property implies its calls terminate), not a hang of the check."""
        def handler(signum, frame):
            raise CodeTimeout()
        # the limit is on the CPU time of this process (robust against a loaded machine); a generous wall-clock
        # limit catches a call that blocks without computing
        old = signal.signal(signal.SIGALRM, handler)
        oldv = signal.signal(signal.SIGVTALRM, handler)
        signal.setitimer(signal.ITIMER_REAL, 20 * seconds)
        signal.setitimer(signal.ITIMER_VIRTUAL, seconds)
        try:
            yield
        except CodeTimeout:
            self.violation(key, 'the code under test did not return within %ds of CPU time' % seconds,
                           dict(case=case, nontermination=True))
            self.abort = True
        except MachineryError:
            raise
        except Exception as e:
            # an exception escaping from the code under test on an input inside the property's
            # domain is a violation (the statement says what the call returns)
            self.violation(key, 'the code under test raised %s: %s' % (type(e).__name__, e),
                           dict(case=case, raised=traceback.format_exc()[-1500:]))
        finally:
            signal.setitimer(signal.ITIMER_REAL, 0)
            signal.setitimer(signal.ITIMER_VIRTUAL, 0)
            signal.signal(signal.SIGALRM, old)
            signal.signal(signal.SIGVTALRM, oldv)

    def cleanup(self):
        shutil.rmtree(self.work, ignore_errors=True)
        try:
            (VERIF / '.work').rmdir()
        except OSError:
            pass


# ------------------------------------------------------------------------------------------

def load_known():
    p = VERIF / 'known_findings.json'
    if not p.exists():
        return []
    return json.loads(p.read_text())['findings']


def write_evidence(ctx, n_viol, n_known):
    ev = dict(
        property_id=ctx.prop, tier=ctx.tier, seed=ctx.seed, level='model_checking',
        coverage=dict(
            states=ctx.states, transitions=ctx.transitions,
            traces_validated_against_impl=ctx.traces,
            evaluations=ctx.evaluations, distinct_nontrivial=ctx.nontrivial,
            samples=ctx.samples, exhaustive=bool(ctx.exhaustive),
            checker_cmd='; '.join(ctx.tlc_cmds)[:4000],
            phases=ctx.parts,
            rule=getattr(ctx, 'rule', ''),
            implementation_layer_divergences=ctx.notes,
        ),
        assumptions=ctx.assumptions,
        wall_s=round(time.time() - ctx.t0, 2),
        violations=n_viol, known_findings_matched=n_known,
    )
    # (growth modules G.. are not listed properties: their evidence lives apart from evidence/<property>.json)
    d = VERIF / ('growth/evidence' if ctx.prop.startswith('G') else 'evidence')
    d.mkdir(parents=True, exist_ok=True)
    (d / (ctx.prop + '.json')).write_text(json.dumps(ev, indent=1, default=str) + '\n')


def main(argv=None):
    import argparse
    ap = argparse.ArgumentParser()
    ap.add_argument('prop')
    ap.add_argument('--tier', default=os.environ.get('VERIF_TIER', 'quick'),
                    choices=['quick', 'thorough'])
    ap.add_argument('--replay', default=None)
    ap.add_argument('--keep', action='store_true', help='keep the scratch directory')
    a = ap.parse_args(argv)
    prop = a.prop.upper()
    seed = int(os.environ.get('VERIF_SEED', '0') or 0)
    os.environ.setdefault('PYTHONHASHSEED', '0')
    ctx = Context(prop, a.tier, seed)
    try:
        mod = importlib.import_module('harness.drivers.%s' % prop.lower())
    except ImportError as e:
        print('no driver for %s: %s' % (prop, e))
        return 2
    code = 2
    try:
        try:
            import_repo()
            for name in getattr(mod, 'IMPORTS', ('phylib.io.traces', 'phylib.io.model')):
                importlib.import_module(name)
            if hasattr(mod, 'preflight'):
                mod.preflight(ctx)
        except MachineryError:
            raise
        except Exception:
            # The code under test cannot even be imported: every property anchored in it fails.
            ctx.violation('import', 'phylib cannot be imported from the working tree',
                          dict(traceback=traceback.format_exc()))
        else:
            if a.replay:
                mod.replay(ctx, json.loads(Path(a.replay).read_text()))
            else:
                mod.run(ctx)
        known = [k for k in load_known() if k['property'] == prop and k['status'] == 'open']
        real, matched = [], {}
        for v in ctx.violations:
            hit = [k for k in known if k['key'] == v.key]
            if hit:
                matched.setdefault(hit[0]['key'], []).append(v)
            else:
                real.append(v)
        for k in known:
            print('KNOWN-FINDING: property=%s %s [%s; %d matching case(s) this run]' % (
                prop, k['what'], k['key'], len(matched.get(k['key'], []))))
        rdir = VERIF / ('growth/evidence' if prop.startswith('G') else 'evidence') / 'replay' / prop
        if rdir.exists():
            shutil.rmtree(rdir)
        n = 0
        for v in real:
            if v.case is None:
                continue
            rdir.mkdir(parents=True, exist_ok=True)
            p = rdir / ('%03d_%s.json' % (n, ''.join(c if c.isalnum() else '_' for c in v.key)))
            p.write_text(json.dumps(v.to_json(), indent=1, default=str) + '\n')
            print('VIOLATION property=%s replay=%s' % (prop, p))
            print('  ' + v.message.replace('\n', '\n  ')[:600])
            n += 1
            if n >= 10:
                break
        if not a.replay:
            write_evidence(ctx, len(real), sum(len(x) for x in matched.values()))
        print('%s %s: states=%d transitions=%d impl_traces=%d violations=%d known=%d wall=%.1fs' % (
            prop, a.tier, ctx.states, ctx.transitions, ctx.traces, len(real),
            sum(len(x) for x in matched.values()), time.time() - ctx.t0))
        code = 1 if real else 0
    except MachineryError as e:
        print('MACHINERY-FAILURE %s: %s' % (prop, e))
        code = 2
    except Exception:
        print('MACHINERY-FAILURE %s: unexpected exception\n%s' % (prop, traceback.format_exc()))
        code = 2
    finally:
        if not a.keep:
            ctx.cleanup()
    return code
