# -*- coding: utf-8 -*-
"""What MANIFEST.json claims, per property. tools_manifest.py renders it."""

ENGINES = [
    dict(name='tlc+conformance', path='/verif/check',
         serves_properties=[],
         kind_free_text='TLA+ specifications under spec/ checked with TLC 1.8 (model check, case '
                        'generation, trace validation) and bound to the Python code by replay '
                        '(spec -> code) and trace validation (code -> spec); harness in harness/'),
]

_NOTE = ('Assumes the small-scope hypothesis beyond the constants of the cfg files (random seeded '
         'coverage only there); trusts TLC 1.8 + CommunityModules Json/CSV/IOUtils, NumPy, and the '
         'harness projections (decoding, hashing, token mapping).')

CHECKS = {
    'C16': dict(
        text='TLC proves, for every (length, chunk, overlap), every file-size list x chunk length, '
             'every (compressed chunks, threads) and every (length, n_excerpts, size) within the cfg '
             'constants, that the step-by-step transcription of the four generators tiles / stays '
             'in bounds / terminates; every terminal state is then replayed on the real generators '
             'and on real flat/.npy/array/.cbin readers and must reproduce the specified sequence of '
             'yields exactly; random runs far beyond the constants are validated by the trace spec.',
        design_ref='4 (C16)', technique='TLA+/TLC model checking + exhaustive spec-to-code replay + trace validation',
        note=_NOTE + ' mtscomp 1.0.2 trusted for the .cbin container.'),
}
CHECKS['C20'] = dict(
    text='TLC explores every scripted server (data-URL scripts up to length 3 quick / 5 thorough over '
         '{good, corrupt, 404}, exhausted script = connection error) x checksum behaviour (correct, '
         'wrong, unavailable; stable and changing between requests) x prior file state through the '
         'step-by-step transcription of download_file and proves ReturnedImpliesValid, NoRedundantGet, '
         'ExactlyOneRetry, FaultsRaise, at most two GETs and termination; every terminal state is '
         'replayed against the real download_file behind the `responses` mock (request sequence, '
         'outcome, final file class compared); random longer scripts are trace-validated.',
    design_ref='4 (C20)', technique='TLA+/TLC model checking + exhaustive spec-to-code replay + trace validation',
    note=_NOTE + ' The `responses` mock stands for the HTTP server.')
CHECKS['C19'] = dict(
    text='Events.tla / Reporter.tla: TLC proves that the partition-filter-short-circuit transcription of '
         'emit equals the precedence-relation statement of the expected call sequence for every '
         'registered-callback list up to the bound (54-operation alphabet: 3 callbacks incl. a bound '
         'method, 2 events, sender filters, last, 3 connect styles, unconnect by callback / sender / '
         'owner, reset, toggling silent(), set_silent, emit with and without single), and the reporter '
         'action property AnnounceIffArmed on every transition. Every length-3 emitter history and '
         'length-4/5 reporter history plus TLC-simulated deep histories are replayed on real objects '
         '(fresh emitter and the module singleton); random 200-step histories are validated call by '
         'call (observation, successor state, P-layer) by the trace specifications.',
    design_ref='4 (C19)', technique='TLA+/TLC model checking + history replay (BFS + simulation) + trace validation',
    note=_NOTE)
CHECKS['C15'] = dict(
    text='Ccg.tla: TLC proves that the shift loop with its shrinking mask (transcribed step by step) '
         'yields exactly the brute-force pair counts, that symmetrisation has the stated shape and '
         'symmetry, and that the loop terminates, for every non-decreasing train up to the length '
         'bound on a small time grid (identical times included) x every labeling over caller-ordered '
         'id lists with unused ids x bins x half-windows; every terminal state (~88k quick) is '
         'replayed on the real correlograms()/firing_rate() with outputs and loop-iteration count '
         'compared; random longer trains are validated by running the machine and the brute-force '
         'P-layer on the logged outputs.',
    design_ref='4 (C15)', technique='TLA+/TLC model checking + exhaustive spec-to-code replay + trace validation',
    note=_NOTE + ' Sample rates are powers of two so that time*rate is exact.')
CHECKS['C07'] = dict(
    text='Clusters.tla: TLC proves that the transcriptions of _spikes_per_cluster (stable argsort, '
         'modular first differences, boundaries, slices), _unique, _index_of (lookup table with the -1 '
         'slot), _spikes_in_clusters, _flatten_per_cluster and grouped_mean satisfy their set-theoretic '
         'definitions (partition, sorted union of groups) for every vector up to the length bound over '
         'a gapped id alphabet; every case is replayed on the real functions for int32/int64/uint16/'
         'uint32 with all requested-cluster lists and lookup orders; random vectors up to length 1000 '
         'are judged by the declarative P-layer in the trace specification, as are get_cluster_spikes / '
         'get_template_spikes / get_template_counts of real models on curated datasets.',
    design_ref='4 (C07)', technique='TLA+/TLC model checking + exhaustive spec-to-code replay + trace validation',
    note=_NOTE)
CHECKS['C17'] = dict(
    text='Selector.tla: the random n-subset is a nondeterministic choice in the I-layer; TLC proves that '
         'every outcome satisfies the statement (ValidSel), that every selection the statement allows '
         'is an outcome (completeness), that the searchsorted-parity trick equals interval membership '
         '(repeated bounds included) and that the kept chunks are whole grid intervals at a regular '
         'stride. Every configuration in scope (~320k quick) is replayed on the real SpikeSelector under '
         'several NumPy seeds: chunks_kept must be equal and the returned ids must belong to the set '
         'of allowed selections computed by TLC; random large inputs are judged by the relational '
         'P-layer in the trace specification.',
    design_ref='4 (C17)', technique='TLA+/TLC model checking (relational spec) + exhaustive spec-to-code replay + trace validation',
    note=_NOTE + ' The model-level use through save_spikes_subset_waveforms is exercised under C10/C03.')
CHECKS['C01'] = dict(
    text='EphysReader.tla: TLC proves that the step-by-step transcription of __getitem__/_get_subitems '
         '(Request, Split, ReadPart, Stack, Cols) returns exactly NumPy\'s rows and columns and produces '
         'well-formed sub-items, for every composition of n <= 6 (8 thorough) rows into files x every '
         'integer, every non-empty unit-step slice with bounds in [-n, n] or None, every strictly '
         'increasing list x 5 column selectors; every terminal state (~58k quick) is replayed on real '
         'flat multi-file readers (header offsets 0/3/7, uint8/int16/float32 and more in thorough) and, '
         'for single-file layouts, on .npy, in-memory and .cbin readers, decoding positions from the '
         'returned values, plus shape/n_samples/n_channels/dtype/duration/part_bounds; random larger '
         'layouts are trace-validated with wrappers on _get_subitems and _get_part.',
    design_ref='4 (C01)', technique='TLA+/TLC model checking + exhaustive spec-to-code replay + trace validation',
    note=_NOTE + ' mtscomp trusted for .cbin; list indices are not issued to .cbin readers (excluded by the statement).')
CHECKS['C02'] = dict(
    text='ReaderOps.tla: derivation heap with explicit list objects (so that aliasing is expressible). '
         'TLC proves LazyEqEager on a term algebra, Isolation (no action changes an existing reader\'s op '
         'list) and ChildOps for all operator programs to depth 2 (3 thorough) over 14 operators x 5 '
         'scalars + column selections and for all derivation trees with every choice of parent; a '
         'negative-control model in which the clone shares the parent\'s list must violate Isolation. '
         'Every behaviour is replayed on real readers (array/flat multi-file/npy/cbin, several sample '
         'types): after every derivation every live reader is re-indexed and compared (values and '
         'dtype) with eager NumPy, its _ops with the spec state, and on int64 with the spec\'s EvalInt; '
         'TLC-simulated deep forests and random forests (trace-validated per derivation) extend depth.',
    design_ref='4 (C02)', technique='TLA+/TLC model checking + behaviour replay (BFS + simulation) + trace validation',
    note=_NOTE + ' The eager side is evaluated by NumPy, as the statement defines it.')
CHECKS['C03'] = dict(
    text='Waveforms.tla: TLC proves that the transcription of _extract_waveform equals the zero-padded '
         'window of the statement, that the chunked export assigns each spike to exactly one yielded '
         'interval and writes the windows in spike order with the declared count/dtype, and that the '
         'subset-store lookup returns the window restricted to the stored channels, for every recording '
         'length <= 5 (7), every chunk grid, every sorted spike multiset, window lengths 1..4 (5), three '
         'sample types x three unit factors. Every terminal state (~33k quick) is realised as a flat '
         'multi-file recording whose chunk bounds are the grid and driven through all routes (direct '
         'extraction from reader and array, export + np.load, store lookups in two orders) with '
         'int64/uint64/int32/uint32 spike vectors; random larger recordings incl. .cbin are validated '
         'by the trace specification with wrappers on iter_chunks and NpyWriter.append.',
    design_ref='4 (C03)', technique='TLA+/TLC model checking + exhaustive spec-to-code replay + trace validation',
    note=_NOTE + ' TemplateModel.get_waveforms (store vs raw) is exercised under C10.')
CHECKS['C18'] = dict(
    text='Serialization.tla: tagged value trees; TLC proves Decode o Encode = Normalize (integer keys incl. '
         'negative ones, arrays over 6 dtypes x 3 memory layouts x 9 shapes around the ten-item threshold, '
         'NumPy scalars, nested lists/dicts) and ReadTsv o WriteTsv = rows at the written precision with '
         'the requested first column first and the others sorted, for all tables of <= 2 rows over 3 '
         'fields with absent fields and empty rows. Every case (~57k) is written and read back with the '
         'real save_json/load_json, write_tsv/read_tsv (.tsv and .csv), two-column tables and parameter '
         'files; the harness only maps tokens to values. Random deeper dictionaries (11 dtypes, rank 0..3) '
         'and larger tables with evil string cells are judged by the trace specification.',
    design_ref='4 (C18)', technique='TLA+/TLC model checking + exhaustive spec-to-code replay + trace validation',
    note=_NOTE + ' Floats and strings are tokens; numeric accuracy beyond the written precision is not decided.')
CHECKS['C05'] = dict(
    text='Templates.tla: the I-layer transcribes _find_best_channels / dense and sparse template records '
         'with the unspecified orders (argsort among equidistant channels, among equal amplitudes) as '
         'nondeterministic choices; TLC proves every outcome satisfies the relational statement '
         '(ValidDense) over all 2x3 templates, 3 whitening inverses, geometries with distance ties, shank '
         'layouts, thresholds and neighbourhood sizes. Records of the real get_template / '
         'get_template_channels / get_template_waveforms on random dense and sparse datasets (3..8 '
         'channels, neighbourhoods 2/3/nc-1/12, multi-shank, exact whitening, explicit lists, -1 and '
         'all-zero sparse columns) are validated by ValidDense / ValidExplicit / ValidSparse.',
    design_ref='4 (C05)', technique='TLA+/TLC model checking (relational spec) + trace validation of recorded template records',
    note=_NOTE + ' Exact arithmetic by construction (small integers, whitening inverses in multiples of 1/4).')
CHECKS['C09'] = dict(
    text='Summaries.tla: definitions of scaled spike amplitudes, per-id means as exact rationals (NaN for '
         'every id without spikes, including the highest), rescaled waveforms, stored-amplitude means, peak '
         'channels, peak-to-trough durations and feature-weighted depths; TLC proves the bincount '
         'formulation equal to the member-set definition on a tiny exhaustive scope; records of '
         'get_amplitudes_true (templates and clusters, three unit factors), *_amplitudes, *_channels, '
         '*_waveforms_durations and get_depths from real models over random dense datasets (empty ids at '
         'first/middle/last position, three whitening kinds, rates 2^k, split clusters) are validated '
         'against the definitions (rationals exactly, rescaled waveforms and depths to 1/256).',
    design_ref='4 (C09)', technique='TLA+/TLC model checking + trace validation of recorded summaries',
    note=_NOTE + ' Not a numerical-accuracy check: deviations below 1/256 in fixed-point quantities are invisible.')
CHECKS['C08'] = dict(
    text='Curation.tla: a history machine over (spike_templates, spike_clusters) with Merge / Split / '
         'Reassign (ids may be skipped); TLC proves on every reachable curated state that the '
         'transcription of get_merge_map yields exactly the provenance sets for EVERY id 0..max, the empty '
         'ids, and the cluster-count rule. Every distinct reachable state (quick: a seeded sample of ~2.5k, '
         'thorough: all ~30k) is materialised as a dense dataset (random integer templates, two shanks so '
         'that channel restriction bites, optional exact whitening) and loaded; merge_map / nan_idx / '
         'n_clusters are compared with the spec and the cluster waveforms and public cluster means are '
         'validated by the relational P-layer (dominant template chosen among count ties, count-weighted '
         'mean of channel-restricted templates as exact rationals). Longer random histories extend depth.',
    design_ref='4 (C08)', technique='TLA+/TLC model checking of curation histories + state replay + trace validation',
    note=_NOTE + ' Channel lists of templates are taken from get_template (C05).')
CHECKS['C06'] = dict(
    text='Features.tla: TLC proves that the transcription of from_sparse (mask to -1, _index_of over the '
         'requested channels plus the discard slot, scatter, drop the discard column) equals the '
         'declarative Dense for every (stored columns, values, requested channels) triple in scope; every '
         'case is replayed on the real from_sparse (stacked rows, extra trailing dimension, no spikes, '
         'unsigned ids). Requests against real models with feature / template-feature stores with and '
         'without a row table (sorted and unsorted spike subsets, channel permutations with unknown '
         'channels, three index dtypes) are validated by GetFeaturesOk / GetTemplateFeaturesOk; the PCA '
         'clause is validated (directly and through a model with a waveform store and no feature file) on '
         'the exactly diagonal covariance family by the sign-invariant pairwise-product relation.',
    design_ref='4 (C06)', technique='TLA+/TLC model checking + exhaustive spec-to-code replay + trace validation',
    note=_NOTE + ' PCA of general waveforms is numerical linear algebra and is not decided.')
CHECKS['C04'] = dict(
    text='Dataset.tla: TLC enumerates the whole configuration lattice (KiloSort / ALF names x presence of '
         'each optional file x one of four items present under both names: 11.5k configurations), '
         'transcribes the loader\'s file resolution (KS name before ALF pattern), defaults and the two files '
         'it may create, and proves SourceOk / TimesOk / LoadFrame. Each configuration (quick: a seeded 3k '
         'sample) is materialised with random contents ((n,) and (n,1) vectors, four id and time dtypes, '
         'NaN/inf entries, all-NaN templates, raw data with extra channels, ALF seconds off the sample grid), '
         'hashed, loaded and hashed again: every listed attribute must equal the file the specification '
         'names (squeezed, scrubbed only when not memory-mapped) or its documented default, exactly the '
         'specified files may be created and no pre-existing byte may change; non-monotonic times must raise.',
    design_ref='4 (C04)', technique='TLA+/TLC model checking of the configuration lattice + exhaustive spec-to-code replay with directory hashing',
    note=_NOTE + ' Degenerate singleton axes (one template / sample / channel) are not generated because the loader squeezes them.')
_MERGE = ('Merge.tla: one action per write_* step of the Merger carrying the running offsets the code carries; TLC '
          'proves for 3 probes (the smallest scope separating cumulative from previous-probe offsets; ties in '
          'time inside and across probes, gapped ids, permuted channel maps) Conservation, '
          'OrderedByTimeProbeIndex, IdsShifted, IdsDisjoint, ChannelBlocks, TemplateBlocks, PcIndShifted, '
          'TfIndShifted, SpikeTemplateOnOwnBlock and the raw-index round trip of the ALF convention. Random '
          'merges of 1..4 probes by the real Merger (wrappers log every write_* step; what the merger wrote is '
          'snapshotted before the result is loaded) are validated by Trace_Merge: the machine is stepped on '
          'the logged probes and the logged output directory is compared with it and judged by the P-layer; ')
CHECKS['C11'] = dict(
    text=_MERGE + 'C11 clauses: times, clusters, templates, amplitudes, conservation, order, offsets, disjointness, '
         'cluster_probes, renumbered TSV metadata (present in all / some / none of the probes), inputs byte-identical, step order.',
    design_ref='4 (C11)', technique='TLA+/TLC model checking + trace validation of real merges (step wrappers)',
    note=_NOTE + ' All probes of one merge share their dtypes (they vary between merges); one-spike probes are not generated (squeezed to 0-d by the merger).')
CHECKS['C12'] = dict(
    text=_MERGE + 'C12 clauses: channel map and probe labels, geometry up to one x-translation per probe with '
         'disjoint increasing x-ranges, template rows and blocks, spike template ids on their own block, index '
         'tables shifted by channel / template counts, block-diagonal whitening / inverse / similarity (present '
         'iff present in every probe), merged parameters, loadable result.',
    design_ref='4 (C12)', technique='TLA+/TLC model checking + trace validation of real merges (step wrappers)',
    note=_NOTE + ' Known finding (not repaired): zero x-extent of a preceding probe leaves no gap.')
_ALF = ('Alf.tla: the conversion pipeline of EphysAlfCreator.convert, one action per step, over the file names of the '
        'source and target directories (rename table, label insertion, subset files, temp_wh.dat); TLC proves '
        'Labelled, SourceFrame and TargetComplete on all 64 skeletons (raw data / KSLabel / temp_wh.dat / probe '
        'table / whitening / label). Every skeleton x curation kind x unit factor is materialised, converted by '
        'the real code and compared with the specification (directory listings, labels), plus datasets merged '
        'from 1..4 probes by the real Merger; the exported tables are projected and validated by Trace_Alf; ')
CHECKS['C13'] = dict(
    text=_ALF + 'C13: first dimensions of every spikes/clusters/templates/channels table, cluster count rule, unique '
         'uuids, spike times in seconds / samples in samples, reload equality on six attributes, the same-directory '
         'guard (raises, writes nothing), the source frame by hashing (only temp_wh.dat deleted, only the three '
         'subset files added), the exact set of target files with the label before the extension.',
    design_ref='4 (C13)', technique='TLA+/TLC model checking of the pipeline over file names + spec-to-code replay + trace validation',
    note=_NOTE + ' Probe tables are constant or produced by the real merger; ids below 65536.')
CHECKS['C14'] = dict(
    text=_ALF + 'C14: spike / template / cluster amplitudes as exact rationals with the unit factor, exported waveforms = '
         'rescaled unwhitened waveforms on the listed channels (1/256), listed channels = a valid set of the '
         'nearest same-probe channels under L1 distance with the peak channel first (relational on ties), '
         'cluster peak channels, durations in samples, cluster depths (NaN for empty ids), spike depths '
         '(feature-weighted or the cluster depth), channels.rawInd = each probe\'s original channel map for '
         'merged datasets of up to 4 probes.',
    design_ref='4 (C14)', technique='TLA+/TLC model checking of the pipeline over file names + trace validation of exported values',
    note=_NOTE + ' Two known findings (not repaired): clusters.depths of un-curated empty ids; short probes padded with other-probe channels.')
CHECKS['C10'] = dict(
    text='World.tla: the dataset directory as far as curation is concerned (which assignment spike_clusters.npy '
         'holds, the rows of each cluster_<field>.tsv the model wrote, which foreign TSV/CSV files exist, the subset '
         'store) and the open model; actions SaveSpikeClusters, SaveMetadata (drops None, overwrites), WriteForeign '
         '(valid / empty / garbage / header-only / short-row / cluster_info), ExportSubset, Close, Reload. TLC proves '
         'on every reachable state that the file-based reload equals the dictionary reference model (last saved '
         'assignment, last saved mapping per field with None entries dropped, empty mappings absent, valid foreign '
         'fields next to them, malformed files inert). Every 4-operation history ending in a reload and '
         'TLC-simulated 12-operation histories are replayed on a generated dataset with raw data; every reload is '
         'compared (incl. templates / times unchanged and store waveforms = raw windows); random 25-operation '
         'histories are validated per operation by Trace_World.',
    design_ref='4 (C10)', technique='TLA+/TLC model checking of save/reload histories + history replay (BFS + simulation) + trace validation',
    note=_NOTE + ' Foreign files use their own field names (two files with the same field: winner depends on directory order).')

NOT_APPLICABLE = {}
for e in ENGINES:
    e['serves_properties'] = sorted(CHECKS)


# additions made while strengthening the checks (rounds 2-4 of the seeded changes, DESIGN.md 0.6)
_ADDED = {
    'C01': ' Part files are named so that the given order differs from the lexicographic one.',
    'C02': ' Float backends hold both signed zeros; float results are compared exactly (values, dtype, sign of zeros) unless the program contains a power (4 ulp); the float scalars are 0.5 and 3.0.',
    'C03': ' Channel patterns include -1 before a real channel; every traced recording is also opened as a dataset with a partial store and TemplateModel.get_waveforms is judged for stored, mixed and non-stored requests (clause ModelRoute). The thorough tier replays a regular stride of at most 120k generated cases.',
    'C04': ' The lattice now has ~15k configurations (an inverse whitening file may exist without the matrix file); attributes of rank 2 and 4; the identity channel map over a wider raw file; ALF seconds going backwards by less than a sample must be rejected.',
    'C05': ' Explicit thresholds are passed while the model is configured with another one.',
    'C06': ' Feature stores of curated datasets; PCA requests of 2000..7000 waveforms given to the specification as distinct waveforms with multiplicities (PairProductOkW); results off the unit axes by more than 1e-4 are violations.',
    'C07': ' Model queries are repeated after a merge and a split were written into the in-memory spike_clusters array; flatten is judged on overlapping groups; the calls made by the repository\'s own tests (test_array.py, test_traces.py, test_clusters.py) are recorded by a pytest plugin and validated by the same predicates (pipeline U).',
    'C08': ' The thorough tier replays a seeded sample of 60k curated states.',
    'C09': ' A recording of more than 100000 spikes (three batches of get_depths) judged around the batch boundaries; templates_probes with arbitrary probe labels; durations that are not whole samples are violations.',
    'C10': ' Foreign kinds now include a file with two value columns and empty cells and a .csv carrying a field the model also saves; datasets in KiloSort, ALF and labelled-ALF layouts.',
    'C11': ' Probe directories are named so that the given order differs from the lexicographic one.',
    'C13': ' Sources with channel maps above raw channel 0, (n,1) column vectors, two templates merged; labels "", "probe00" and "a"; two conversions on one creator object; the guard is also tried through a symlink, a .. detour and a string path.',
    'C14': ' Sources with two templates merged into one cluster (cluster depth vs template depth).',
    'C15': ' Ccg.tla also holds a bag formulation of the pair count (proved equal to the brute-force count on every small train); long dense trains with 10^5..10^6 pairs per cell are judged by it.',
    'C16': ' The chunkings requested by the repository\'s own tests are recorded and validated too (pipeline U).',
    'C17': ' Trains are every non-decreasing one and its reversal; request lists name clusters twice; subsets are passed in any order; integer times are also run against half-integer bounds; ~690k configurations quick, 6M thorough; selections made by the repository\'s own tests are validated too (pipeline U).',
    'C18': ' A string key that int() would accept and a parameter name with a leading underscore are part of the alphabets.',
    'C19': ' One event name is made of the letters of the on_ prefix.',
    'C20': ' Corrupted bodies come as other bytes, a truncated transfer or an empty 200 body; a wrong checksum is another well-formed one or a mangled text.',
}
for _k, _v in _ADDED.items():
    CHECKS[_k]['text'] += _v
