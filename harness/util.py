# -*- coding: utf-8 -*-
"""Fixtures and projections shared by the drivers. No property semantics live here."""

import contextlib
import hashlib
import itertools
import logging
import os
import shutil
from pathlib import Path

import numpy as np

from .core import MachineryError

_counter = itertools.count()


def as_list(x):
    """Project a NumPy/Python (nested) value to plain Python ints/lists."""
    if isinstance(x, np.ndarray):
        return x.tolist()
    if isinstance(x, (list, tuple)):
        return [as_list(y) for y in x]
    if isinstance(x, np.generic):
        return x.item()
    return x


@contextlib.contextmanager
def tmp_dir(ctx):
    d = ctx.work / ('d%d' % next(_counter))
    d.mkdir(parents=True)
    try:
        yield d
    finally:
        shutil.rmtree(d, ignore_errors=True)


def write_flat(path, arr, offset=0):
    with open(path, 'wb') as f:
        if offset:
            f.write(b'\xAB' * offset)
        f.write(np.ascontiguousarray(arr).tobytes())


def make_cbin(d, arr, chunk_samples, sample_rate=100.0, name='data'):
    """Compress `arr` (n_samples, n_channels) with mtscomp into chunks of `chunk_samples`."""
    import mtscomp
    logging.getLogger('mtscomp').setLevel(logging.ERROR)
    raw = Path(d) / (name + '.bin')
    write_flat(raw, arr)
    cbin = Path(d) / (name + '.cbin')
    ch = Path(d) / (name + '.ch')
    mtscomp.compress(
        raw, cbin, ch, sample_rate=sample_rate, n_channels=arr.shape[1], dtype=arr.dtype,
        chunk_duration=chunk_samples / sample_rate, n_threads=1, check_after_compress=False,
        quiet=True)
    raw.unlink()
    return cbin, ch


def file_digest(path):
    h = hashlib.sha256()
    with open(path, 'rb') as f:
        h.update(f.read())
    return h.hexdigest()[:16]


def dir_digest(d):
    """{relative file name: content digest} of a directory tree."""
    d = Path(d)
    out = {}
    for p in sorted(d.rglob('*')):
        if p.is_file():
            out[str(p.relative_to(d))] = file_digest(p)
    return out


def chunked(seq, n):
    for k in range(0, len(seq), n):
        yield seq[k:k + n]
