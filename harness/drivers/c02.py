# -*- coding: utf-8 -*-
"""C02 - lazy reader expressions commute with eager NumPy evaluation. Spec: spec/ReaderOps.tla."""

import operator
import warnings

import numpy as np

from ..core import MachineryError
from .. import tlc
from ..util import as_list, tmp_dir, write_flat, make_cbin

IMPORTS = ('phylib.io.traces',)
NR, NC = 3, 2
BIG = 100000
SCALARS = {'i2': 2, 'i3': 3, 'im1': -1, 'f05': 0.5, 'f3': 3.0}
# only in the random forests (tokens are opaque to the specification): FLOAT scalars equal to the neutral element of an
# operator - x + 0.0 and x * 1.0 on integer samples are float arrays
FOREST_SCALARS = dict(SCALARS, f0=0.0, f1=1.0)
COLS = {'c21': [1, 0], 'c1': [0], 'c12': [0, 1], 'c2': [1], 'c11': [0, 0]}
BINOPS = {
    'add': lambda x, a: x + a, 'radd': lambda x, a: a + x,
    'sub': lambda x, a: x - a, 'rsub': lambda x, a: a - x,
    'mul': lambda x, a: x * a, 'rmul': lambda x, a: a * x,
    'truediv': lambda x, a: x / a, 'rtruediv': lambda x, a: a / x,
    'floordiv': lambda x, a: x // a, 'rfloordiv': lambda x, a: a // x,
    'pow': lambda x, a: x ** a, 'rpow': lambda x, a: a ** x,
}
UNOPS = {'pos': operator.pos, 'neg': operator.neg}
BATTERY = [0, -1, slice(1, 3), slice(None), [0, 2], np.array([1, 2])]


def base_data(dtype):
    """int64 (compared with the specification's EvalInt): the cell identities 1..6. Floating-point sample types
    hold both signed zeros (1 / -x and 1 / (0 - x) differ there) and a negative value; the other integer types
    hold a zero."""
    dtype = np.dtype(dtype)
    if dtype == np.int64:
        return (np.arange(NR * NC) + 1).reshape((NR, NC)).astype(dtype)
    if dtype.kind == 'f':
        return np.array([-1.0, 0.0, -0.0, 2.0, 3.0, 4.0]).reshape((NR, NC)).astype(dtype)
    return np.arange(NR * NC).reshape((NR, NC)).astype(dtype)


def make_backends(ctx, d, names):
    """name -> (reader, full array as stored)."""
    from phylib.io.traces import get_ephys_reader
    out = {}
    for name in names:
        kind, dt = name.split(':')
        dtype = np.dtype(dt)
        full = base_data(dtype)
        if kind == 'array':
            out[name] = (get_ephys_reader(full.copy(), sample_rate=100.), full)
        elif kind == 'flat':
            paths = []
            for k, (a, b) in enumerate([(0, 2), (2, 3)]):
                p = d / ('f_%s_%d.bin' % (dt, 9 + k))
                write_flat(p, full[a:b], offset=3)
                paths.append(p)
            out[name] = (get_ephys_reader(paths, sample_rate=100., dtype=dtype, n_channels=NC,
                                          offset=3), full)
        elif kind == 'npy':
            np.save(d / ('a_%s.npy' % dt), full)
            out[name] = (get_ephys_reader(d / ('a_%s.npy' % dt), sample_rate=100.), full)
        elif kind == 'cbin':
            cbin, ch = make_cbin(d, full, chunk_samples=2, name='c_%s' % dt)
            out[name] = (get_ephys_reader(cbin), full)
        else:
            raise MachineryError(name)
    return out


def col_form(tok, k, width=NC):
    """The same channel selection in the forms NumPy accepts: index list, integer array, boolean mask (when the
    selection is strictly increasing, so that a mask can express it)."""
    cols = COLS[tok]
    if k % 3 == 1:
        return np.asarray(cols, dtype=[np.int32, np.int64, np.uint8][k % 3])
    if k % 3 == 2 and cols == sorted(set(cols)) and max(cols) < width:
        mask = np.zeros(width, dtype=bool)
        mask[cols] = True
        return mask if k % 2 else [bool(b) for b in mask]
    return cols


def apply_eager(x, op):
    name, tok = op
    if name == 'cols':
        return x[:, COLS[tok]]
    if name in UNOPS:
        return UNOPS[name](x)
    return BINOPS[name](x, FOREST_SCALARS[tok])


def project_ops(reader):
    out = []
    for name, arg in getattr(reader, '_ops', []):
        if name == 'cols':
            tok = [k for k, v in COLS.items() if v == list(arg)]
        elif arg is None:
            tok = ['none']
        else:
            tok = [k for k, v in FOREST_SCALARS.items() if v == arg and type(v) is type(arg)]
        out.append([name, tok[0] if tok else 'unknown:%r' % (arg,)])
    return out


def same_values(a, b, exact=True):
    """Exact (also for floating-point results: + - * / and floor division are correctly rounded by IEEE 754,
    whatever loop NumPy picks) unless the expression contains a power: NumPy's pow loops are not correctly
    rounded and may round differently depending on how many elements / which strides they are given, so 'the
    same expression on the whole array' and 'on the selected rows' can legitimately differ by an ulp there."""
    if a.shape != b.shape or a.dtype != b.dtype:
        return False
    if a.dtype.kind != 'f' or exact:
        if a.dtype.kind == 'f' and not np.array_equal(np.signbit(a) & (a == 0), np.signbit(b) & (b == 0)):
            return False
        return np.array_equal(a, b, equal_nan=a.dtype.kind == 'f')
    eps = np.finfo(a.dtype).eps
    with np.errstate(all='ignore'):
        if not np.array_equal(np.signbit(a) & (a == 0), np.signbit(b) & (b == 0)):
            return False                   # the sign of a zero is part of the value (it decides 1 / x)
        return bool(np.all((a == b) | (np.isnan(a) & np.isnan(b)) |
                           (np.abs(a - b) <= 4 * eps * np.maximum(np.abs(a), np.abs(b)))))


def compare_reader(reader, eager, cbin, battery=None, exact=True):
    """Index `reader` with the battery; returns None if everything equals eager NumPy, else a
    description of the first difference."""
    for it in (battery or BATTERY):
        if cbin and not isinstance(it, (int, slice)):
            continue
        lazy = reader[it]
        e = eager[it]
        if isinstance(it, int):
            e = e[np.newaxis, :]
        if not same_values(np.asarray(lazy), np.asarray(e), exact):
            return dict(item=repr(it), lazy=as_list(lazy), lazy_dtype=str(lazy.dtype),
                        eager=as_list(e), eager_dtype=str(e.dtype))
        if e.shape[1] >= 2 and not cbin:
            lz = reader[it, [1, 0]]
            if not isinstance(lz, np.ndarray):
                lz = lz[:]        # reader[:, cols] is a reader again; its contents are compared
            ee = e[:, [1, 0]]
            if not same_values(np.asarray(lz), np.asarray(ee), exact):
                return dict(item=repr(it) + ', [1, 0]', lazy=as_list(lz), eager=as_list(ee))
    return None


def replay_history(ctx, case, backends):
    """Returns True if the history was fully compared on at least one backend (non-trivial)."""
    hist = case['hist']
    nontrivial = False
    for bname, (base, full) in backends.items():
        readers = {1: base}
        eagers = {1: full}
        cbin = bname.startswith('cbin')
        ok = True
        with warnings.catch_warnings(), np.errstate(all='ignore'):
            warnings.simplefilter('ignore')
            for k, step in enumerate(hist):
                parent, op = step['parent'], tuple(step['op'])
                try:
                    e_new = apply_eager(eagers[parent], op)
                except Exception:
                    ok = False       # the eager expression itself is invalid: outside the domain
                    break
                rid = k + 2
                name, tok = op
                rp = readers[parent]
                if name == 'cols':
                    r_new = rp[:, col_form(tok, k + len(hist), eagers[parent].shape[1])]
                elif name in UNOPS:
                    r_new = UNOPS[name](rp)
                else:
                    r_new = BINOPS[name](rp, SCALARS[tok])
                readers[rid], eagers[rid] = r_new, e_new
                ctx.traces += 1
                # I-layer state: the op list of every live reader
                for x in sorted(readers):
                    if not hasattr(readers[x], '_ops') or project_ops(readers[x]) != case['ops'][x - 1]:
                        # the deferred-operation list is an implementation detail (the comparison with
                        # eager NumPy below decides the property)
                        ctx.note('ops', 'op list of reader %d after step %d of %r differs from the transcription' % (
                            x, k, hist))
                # every live reader still returns what eager NumPy returns
                for x in sorted(readers):
                    try:
                        # the newest reader gets the full battery; older ones (isolation) a short one
                        diff = compare_reader(readers[x], eagers[x], cbin,
                                              None if x == rid else BATTERY[2:4],
                                              exact=not any('pow' in o[0] for o in case['ops'][x - 1]))
                    except Exception as ex:
                        diff = dict(raised='%s: %s' % (type(ex).__name__, ex))
                    if diff:
                        ctx.violation('lazy', '%s: reader %d (ops %r) after step %d of %r differs from '
                                      'eager NumPy: %r' % (bname, x, case['ops'][x - 1], k, hist, diff),
                                      dict(case=case, backend=bname, step=k, reader=x, diff=diff))
                        return nontrivial
        if ok:
            nontrivial = True
            if bname == 'array:int64':
                for x in sorted(readers):
                    got = readers[x][:]
                    exp = np.asarray(case['eval'][x - 1])
                    if exp.size == 0:
                        continue
                    mask = exp != BIG
                    if got.shape != exp.shape or not np.array_equal(
                            np.asarray(got, dtype=np.float64)[mask], exp[mask].astype(np.float64)):
                        ctx.violation('evalint', 'reader %d (ops %r) evaluates to %r, EvalInt %r' % (
                            x, case['ops'][x - 1], as_list(got), as_list(exp)),
                            dict(case=case, backend=bname, reader=x))
                        return nontrivial
    return nontrivial


def _random_forest_records(ctx, backends, rng, rid0, steps):
    ops_all = ([('pos', 'none'), ('neg', 'none')] +
               [(a, t) for a in BINOPS for t in FOREST_SCALARS] + [('cols', t) for t in COLS])
    bname = list(backends)[rng.randint(len(backends))]
    base, full = backends[bname]
    cbin = bname.startswith('cbin')
    readers, eagers = {1: base}, {1: full}
    has_pow = {1: False}
    recs = [dict(id=rid0, op='begin')]
    with warnings.catch_warnings(), np.errstate(all='ignore'):
        warnings.simplefilter('ignore')
        while len(recs) <= steps:
            parent = int(rng.randint(1, len(readers) + 1))
            op = ops_all[rng.randint(len(ops_all))]
            try:
                e_new = apply_eager(eagers[parent], op)
                if not np.all(np.isfinite(np.asarray(e_new, dtype=np.float64))) or \
                        np.abs(np.asarray(e_new, dtype=np.float64)).max(initial=0) > 1e6:
                    continue
            except Exception:
                continue
            name, tok = op
            rp = readers[parent]
            r_new = (rp[:, col_form(tok, len(recs), eagers[parent].shape[1])] if name == 'cols' else
                     UNOPS[name](rp) if name in UNOPS else BINOPS[name](rp, FOREST_SCALARS[tok]))
            x = len(readers) + 1
            readers[x], eagers[x] = r_new, e_new
            has_pow[x] = has_pow[parent] or 'pow' in name
            eq = True
            for y in readers:
                try:
                    if compare_reader(readers[y], eagers[y], cbin, exact=not has_pow[y]):
                        eq = False
                except Exception:
                    eq = False
            recs.append(dict(id=rid0 + len(recs), op='derive', parent=parent, name=name, arg=tok,
                             opsAfter=[project_ops(readers[y]) for y in sorted(readers)], eq=eq,
                             backend=bname))
    return recs


def run(ctx):
    sfx = '' if ctx.quick else '_thorough'
    ctx.rule = ('S->C: every operator program of depth 2 (3 thorough) over the 14 operators x '
                '{2, 3, -1, 0.5, 3.0} and 3 column selections, and every derivation tree of 4 derived '
                'readers over 7 operations with every choice of parent, replayed on real readers of '
                'several backends/sample types; after EVERY derivation EVERY live reader is re-indexed '
                'with 6 row items (+ column selector) and compared (values and dtype) with eager NumPy, '
                'its _ops list with the specification, and on int64 with EvalInt. Non-trivial = the eager '
                'expression is valid on at least one backend. C->S: random forests validated per '
                'derivation by Trace_ReaderOps.')
    ctx.assumptions += ['programs whose eager evaluation raises (e.g. integer to a negative power, a '
                        'negative Python int against an unsigned sample type) are outside the domain',
                        'NumPy evaluates the eager side (the statement defines the oracle that way)']
    ctx.model_check('ReaderOps', 'MC_ReaderOps_chain%s.cfg' % sfx, expect_actions=('Next',), timeout=3000,
                    note='operator programs: term-algebra commutation, isolation, child ops')
    ctx.model_check('ReaderOps', 'MC_ReaderOps_tree.cfg', expect_actions=('Next',), timeout=3000,
                    note='derivation trees with every choice of parent')
    # negative control: with a shared op list TLC must find the isolation violation
    res = tlc.run('ReaderOps', 'MC_ReaderOps_alias.cfg', ctx.work, workers=2, timeout=600)
    if 'Isolation' not in res.violated:
        raise MachineryError('vacuity: the aliasing model does not violate Isolation')
    ctx.part(kind='M-negative', module='ReaderOps', cfg='MC_ReaderOps_alias.cfg',
             note='clone sharing the parent list violates Isolation, as expected')
    names = (['array:int64', 'flat:int16', 'flat:uint8', 'flat:float32', 'cbin:int16'] if ctx.quick else
             ['array:int64', 'array:int16', 'flat:int16', 'flat:uint8', 'flat:float32',
              'flat:float64', 'npy:int32', 'cbin:int16'])
    with tmp_dir(ctx) as d:
        backends = make_backends(ctx, d, names)
        gens = [('Gen_ReaderOps_chain%s.cfg' % sfx, None), ('Gen_ReaderOps_tree%s.cfg' % sfx, None),
                ('Sim_ReaderOps.cfg', 'num=%d' % (20 if ctx.quick else 300))]
        cap = 600 if ctx.quick else 12000
        names_l = list(backends)
        for cfg, sim in gens:
            kw = dict(simulate=sim, depth=9, workers=1, seed=ctx.seed + 2) if sim else {}
            res, path, n = ctx.generate('ReaderOps', cfg, timeout=3000, **kw)
            k = 0
            seen = set()
            for case in tlc.read_cases(path):
                k += 1
                key = repr(case['hist'])
                if key in seen:
                    continue
                seen.add(key)
                if sim and len(seen) > cap:
                    continue      # simulation emits every successor of the last step: seeded cap
                ctx.evaluations += 1
                # operator programs run on every backend; trees and simulated forests on one
                # backend each, round-robin (the derivation structure is what they explore)
                all_backends = 'chain' in cfg and (ctx.quick or k % 8 == 0)    # depth-3 programs: every 8th on all
                bk = backends if all_backends else {names_l[k % len(names_l)]: backends[names_l[k % len(names_l)]]}
                with ctx.guard('lazy', case):
                    if replay_history(ctx, case, bk):
                        ctx.nontrivial += 1
                if ctx.abort:
                    return
                if k % 1500 == 1:
                    ctx.sample(dict(hist=case['hist'], ops=case['ops']))
            path.unlink()
            if k != n:
                raise MachineryError('replayed %d of %d histories' % (k, n))
        rng = np.random.RandomState(ctx.seed + 2)
        recs = []
        for _ in range(30 if ctx.quick else 300):
            recs += _random_forest_records(ctx, backends, rng, len(recs) + 1, 12)
        for name, (r, _) in backends.items():
            rd = getattr(r, 'reader', None)
            if rd is not None:
                rd.close()
    for rid, clause in ctx.validate('Trace_ReaderOps', 'Trace_ReaderOps.cfg',
                                    [dict((a, b) for a, b in r.items() if a != 'backend') for r in recs],
                                    timeout=3000):
        lo = rid - 1
        while recs[lo]['op'] != 'begin':
            lo -= 1
        if clause in ('ops', 'isolation'):
            # clauses on the internal op lists; the property-level verdict is the clause LazyEqEager
            ctx.note('ops', 'recorded op lists differ from the transcription (clause %s)' % clause)
            continue
        ctx.violation('trace', 'recorded derivation rejected by the specification: clause %s' % clause,
                      dict(history=recs[lo:rid], clause=clause))
    ctx.sample(recs[1])


def replay(ctx, doc):
    c = doc['case']
    if 'case' in c:
        with tmp_dir(ctx) as d:
            backends = make_backends(ctx, d, [c['backend']])
            replay_history(ctx, c['case'], backends)
    print('replayed: %d violation(s)' % len(ctx.violations))
    for v in ctx.violations[:3]:
        print(v.message)
