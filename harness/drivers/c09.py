# -*- coding: utf-8 -*-
"""C09 - amplitude, depth, duration and peak-channel summaries follow their definitions.
Spec: spec/Summaries.tla; conformance: records of a real TemplateModel validated by Trace_Summaries."""

from fractions import Fraction

import numpy as np

from ..core import MachineryError
from ..util import as_list, tmp_dir
from .. import datasets as D
from .c05 import ints, ObservationError

IMPORTS = ('phylib.io.model',)
Q = 256


def rat(x, maxden):
    """A float that is (the correctly rounded value of) a small rational -> [num, den]; NaN -> [0, 0]."""
    if np.isnan(x):
        return [0, 0]
    f = Fraction(float(x)).limit_denominator(maxden)
    return [f.numerator, f.denominator]


def q(x):
    a = np.asarray(x, dtype=np.float64)
    out = np.where(np.isnan(a), -1, np.rint(np.nan_to_num(a) * Q))
    return as_list(out.astype(np.int64))


def curate_single_origin(rng, st, nt):
    """Splits and renamings only: every cluster stems from ONE template (integer cluster waveforms)."""
    sc = np.array(st, dtype=np.int64)
    nxt = nt
    for t in np.unique(st):
        idx = np.nonzero(st == t)[0]
        u = rng.rand()
        if u < 0.4 and len(idx) >= 2:
            sc[idx[:len(idx) // 2]] = nxt      # split: half of the spikes move to a new id
            nxt += int(rng.randint(1, 3))       # (possibly skipping an id)
        elif u < 0.6:
            sc[idx] = nxt                       # renamed as a whole
            nxt += 1
    return sc


def records_for(ctx, d, rng, k, rid0):
    nt = int(rng.randint(2, 6))
    nc = int(rng.randint(2, 6))
    ns = int(rng.randint(4, 21))
    empty = [[], [0], [nt - 1], [nt // 2], [0, nt - 1]][k % 5]
    empty = [e for e in set(empty) if nt - len(set(empty)) >= 1]
    ds = D.random_dense(rng, ns=ns, nt=nt, nc=nc, nsw=int(rng.randint(2, 6)),
                        whitening=['none', 'monomial', 'triangular'][k % 3],
                        rate=[1024, 2048, 32768][k % 3], empty_templates=empty, features=True,
                        geometry=['grid', 'line', 'scatter'][k % 3])
    if (k // 2) % 2:
        # a probe table whose labels are not 0..n-1 (templates_probes returns the stored LABEL of the peak channel)
        labels = [[1, 2], [3, 1], [0, 2], [5, 5]][(k // 4) % 4]
        ds['probes'] = np.array([labels[0] if c < (nc + 1) // 2 else labels[1] for c in range(nc)])
    curated = k % 2 == 1
    if curated and k % 8 == 7:
        # clusters that differ from the templates WITHOUT any new id: two templates exchange their numbers
        used = np.unique(ds['st'])
        sc = np.array(ds['st'], dtype=np.int64)
        if len(used) >= 2:
            a, b = used[0], used[-1]
            sc[ds['st'] == a], sc[ds['st'] == b] = b, a
        ds['sc'] = sc
    elif curated:
        ds['sc'] = curate_single_origin(rng, ds['st'], nt)
    p = D.write_dataset(d / ('s%d' % k), ds)
    m = D.load(p)
    if k % 4 == 2:
        m.close()             # opened a second time: the files the first opening created are read back
        m = D.load(p)
    recs = []
    try:
        wmi4 = ints(ds['wmi_eff'], 4)
        amps = ints(ds['amps'])
        for use in ('templates', 'clusters'):
            sparse = m.sparse_templates if use == 'templates' else m.sparse_clusters
            ids = m.spike_templates if use == 'templates' else m.spike_clusters
            n = m.n_templates if use == 'templates' else m.n_clusters
            W = np.array(sparse.data)          # a snapshot: the formulas are about the STORED arrays
            f = [1.0, 2.0, 0.5][(k + (use == 'clusters')) % 3]
            inp = dict(dataset=k, use=use, factor=f, empty=empty, curated=curated)
            with ctx.guard('true', inp):
                sa, resc, ampsv = m.get_amplitudes_true(sample2unit=f, use=use)
                cnt = max(1, int(np.bincount(np.asarray(ids)).max()))
                peak = (np.max(resc, axis=1) - np.min(resc, axis=1)).max(axis=1)
                if not np.array_equal(np.asarray(sparse.data), W):
                    raise D.MachineryError if False else ValueError(
                        'get_amplitudes_true modified the stored waveforms of the model in place')
                recs.append(dict(
                    id=rid0 + len(recs), kind='true', use=use, W=ints(W), wmi4=wmi4, ids=as_list(ids),
                    amps=amps, f2=int(2 * f), n=int(n), spike8=ints(sa, 8),
                    meanv=[rat(x, 8 * cnt) for x in ampsv], ampq=q(ampsv), peakq=q(peak),
                    rescq=q(resc)))
            with ctx.guard('stored', inp):
                a = m.templates_amplitudes if use == 'templates' else m.clusters_amplitudes
                recs.append(dict(id=rid0 + len(recs), kind='stored', use=use, ids=as_list(ids), amps=amps,
                                 mean=[rat(x, ns) for x in a]))
            with ctx.guard('peaks', inp):
                ch = m.templates_channels if use == 'templates' else m.clusters_channels
                du = (m.templates_waveforms_durations if use == 'templates'
                      else m.clusters_waveforms_durations)
                dur = np.asarray(du) * ds['rate'] / 1000.0
                if not np.array_equal(dur, np.rint(dur)):
                    raise ObservationError('durations are not whole samples although every waveform is sampled '
                                           'on the grid: %r (rate %r)' % (dur, ds['rate']))
                recs.append(dict(id=rid0 + len(recs), kind='peaks', use=use, W=ints(W),
                                 channels=as_list(ch), dur=ints(dur), chprobe=as_list(m.channel_probes),
                                 tprobes=as_list(m.templates_probes) if use == 'templates' else []))
        with ctx.guard('depths', dict(dataset=k)):
            dep = m.get_depths()
            x = np.asarray(ds['pcf'])[:, 0, :]
            ys = np.asarray(ds['pos'])[np.asarray(ds['pcind'])[np.asarray(ds['st'])], 1]
            recs.append(dict(id=rid0 + len(recs), kind='depths', x=ints(x), ys=ints(ys), depthq=q(dep)))
    finally:
        m.close()
    return recs


def long_depths_record(ctx, d, rng, rid, rid_slot=0):
    """get_depths works in batches of 50000 spikes: one long recording, judged on the spikes around every batch
    boundary, at both ends and on a random sample (the definition is per spike)."""
    # (50000 spikes per batch: a last batch of ONE spike, of none, and of a few)
    ns = [100001, 100000][rid_slot] if rid_slot < 2 else 100000 + int(rng.randint(2, 40))
    nt, nc = 3, 4
    ds = D.random_dense(rng, ns=8, nt=nt, nc=nc, nsw=3, features=True)
    ds['samples'] = np.cumsum(rng.randint(0, 3, size=ns)) + 3
    ds['st'] = rng.randint(0, nt, size=ns)
    ds['amps'] = rng.randint(1, 5, size=ns).astype(float)
    ds['pcf'] = rng.randint(-2, 4, size=(ns, 3, ds['pcind'].shape[1])).astype(float)
    p = D.write_dataset(d / ('long%d' % rid), ds)
    m = D.load(p)
    try:
        dep = np.asarray(m.get_depths())
    finally:
        m.close()
    idx = sorted(set([0, 1, ns - 2, ns - 1] + [b + o for b in (50000, 100000) for o in (-2, -1, 0, 1, 2) if b + o < ns]
                     + [int(x) for x in rng.randint(0, ns, size=40)]))
    x = np.asarray(ds['pcf'])[idx, 0, :]
    ys = np.asarray(ds['pos'])[np.asarray(ds['pcind'])[np.asarray(ds['st'])[idx]], 1]
    if dep.shape[0] != ns:
        raise ObservationError('get_depths returned %d values for %d spikes' % (dep.shape[0], ns))
    return dict(id=rid, kind='depths', x=ints(x), ys=ints(ys), depthq=q(dep[idx]))


def run(ctx):
    ctx.rule = ('M: bincount transcription of the per-id means (with minlength) = mean over the member '
                'set, NaN exactly for ids without spikes, on all 2-template x 2-sample x 2-channel '
                'waveform sets with <= 3 spikes. C->S: get_amplitudes_true (templates and clusters, unit '
                'factors 1, 2, 0.5), templates/clusters_amplitudes, *_channels, *_waveforms_durations and '
                'get_depths (incl. a recording of > 100000 spikes: three batches) of real models over random dense datasets (ids without spikes at the first, a '
                'middle and the LAST position, three whitening kinds, rates 2^k, clusters equal to or split '
                'from templates) validated by the definitions; non-trivial = some id has no spikes or the '
                'clusters differ from the templates.')
    ctx.assumptions += ['exact arithmetic by construction: small-integer waveforms / amplitudes / '
                        'features, whitening inverses that are multiples of 1/4, rates 2^k',
                        'means are compared as exact rationals, rescaled waveforms and depths in fixed point '
                        '(1/256): smaller deviations are invisible',
                        'curated clusters here stem from a single template each (merged clusters: C08)']
    ctx.model_check('Summaries', 'MC_Summaries.cfg', expect_actions=('SPick', 'SPick2'), timeout=3000,
                    note='bincount formulation = definitions')
    rng = np.random.RandomState(ctx.seed + 9)
    recs = []
    with tmp_dir(ctx) as d:
        for k in range(200 if ctx.quick else 9000):
            recs += records_for(ctx, d, rng, k, len(recs) + 1)
            if ctx.abort:
                return
        for j in range(2 if ctx.quick else 5):
            with ctx.guard('depths', dict(long_recording=j)):
                recs.append(long_depths_record(ctx, d, rng, len(recs) + 1, j))
            if ctx.abort:
                return
    ctx.evaluations = len(recs)
    ctx.nontrivial = sum(1 for r in recs if r['kind'] == 'true' and (
        len(set(r['ids'])) < r['n'] or r['use'] == 'clusters'))
    ctx.exhaustive = False
    for chunk in [recs[a:a + 400] for a in range(0, len(recs), 400)]:
        for rid, clause in ctx.validate('Trace_Summaries', 'Trace_Summaries.cfg', chunk, timeout=3000):
            r = recs[rid - 1]
            ctx.violation(r['kind'], 'recorded %s summary (%s) rejected by the specification: clause %s'
                          % (r['kind'], r.get('use', ''), clause), dict(record=r, clause=clause))
    ctx.sample(dict((a, b) for a, b in recs[0].items() if a != 'rescq'))


def replay(ctx, doc):
    print('replay: the failing record is self-contained: %r' % doc['case'].get('record', doc['case']))
