# -*- coding: utf-8 -*-
"""C16 - chunkings tile the sample axis exactly once.  Spec: spec/Chunking.tla."""

import numpy as np

from ..core import MachineryError
from .. import tlc
from ..util import as_list, tmp_dir, write_flat, make_cbin

ACTIONS = ('First', 'Loop', 'Last', 'FileStep', 'YieldBatch', 'YieldLast', 'ExcStep', 'ExcStop')


def _run_gen(n, cs, ov):
    from phylib.io.array import chunk_bounds, data_chunk
    out = [as_list(t) for t in chunk_bounds(n, cs, overlap=ov)]
    data = np.arange(n)
    kept, full = [], []
    for t in out:
        k = data_chunk(data, tuple(t))
        f = data_chunk(data, tuple(t), with_overlap=True)
        kept.append(_interval(k))
        full.append(_interval(f))
    return out, kept, full


def _interval(rows):
    """A slice of arange as the clipped interval [lo, hi) the spec computes; None if the rows
    are not a contiguous increasing run."""
    rows = as_list(rows)
    if not rows:
        return 'empty'
    if rows != list(range(rows[0], rows[0] + len(rows))):
        return 'notcontiguous'
    return [rows[0], rows[-1] + 1]


def _same_interval(obs, exp):
    if obs == 'empty':
        return exp[0] >= exp[1]
    return obs == exp


def _run_bounds(ctx, sizes, chunk, backends):
    """_get_chunk_bounds directly, then real readers whose chunk length is `chunk` samples."""
    from phylib.io.traces import _get_chunk_bounds, get_ephys_reader

    def passes(r):
        """The chunk iterator of a reader is asked for more than once (a pass abandoned after its first interval,
        then two full passes): every full pass yields the same tiling."""
        it = iter(r.iter_chunks())
        next(it, None)
        first = [as_list(y) for y in r.iter_chunks()]
        second = [as_list(y) for y in r.iter_chunks()]
        if first != second:
            raise ValueError('the chunk iterator of a reader yields %r on one pass and %r on the next' % (first, second))
        return first
    res = {}
    res['direct'] = (as_list(_get_chunk_bounds(list(sizes), chunk)), None)
    rate = chunk / 600.0
    if 'flat' in backends:
        with tmp_dir(ctx) as d:
            paths = []
            for k, s in enumerate(sizes):
                p = d / ('part%d.bin' % (9 + k))         # part9, part10, ...: given order is not name order
                write_flat(p, np.zeros((s, 2), dtype=np.int16))
                paths.append(p)
            r = get_ephys_reader(paths, sample_rate=rate, dtype=np.int16, n_channels=2)
            res['flat'] = (as_list(r.chunk_bounds), passes(r))
            del r
    if 'array' in backends and len(sizes) == 1:
        r = get_ephys_reader(np.zeros((sizes[0], 2), dtype=np.int16), sample_rate=rate)
        res['array'] = (as_list(r.chunk_bounds), passes(r))
    if 'npy' in backends and len(sizes) == 1:
        with tmp_dir(ctx) as d:
            np.save(d / 'a.npy', np.zeros((sizes[0], 2), dtype=np.int16))
            r = get_ephys_reader(d / 'a.npy', sample_rate=rate)
            res['npy'] = (as_list(r.chunk_bounds), passes(r))
            del r
    return res


def _run_cbin(ctx, nch, nth, cache, short_last):
    """A real .cbin of nch compressed chunks read with nth threads: the yielded bounds as
    indices into the reader's chunk bounds."""
    from phylib.io.traces import get_ephys_reader
    import mtscomp
    cs = 5
    n = nch * cs - (3 if short_last else 0)
    with tmp_dir(ctx) as d:
        arr = (np.arange(n * 2) % 1000).astype(np.int16).reshape((n, 2))
        cbin, ch = make_cbin(d, arr, chunk_samples=cs)
        reader = mtscomp.Reader(n_threads=nth)
        reader.open(cbin, ch)
        if reader.n_chunks != nch or reader.batch_size != nth:
            raise MachineryError('cbin fixture: %d chunks / batch %d, wanted %d / %d' % (
                reader.n_chunks, reader.batch_size, nch, nth))
        er = get_ephys_reader(reader)
        b = as_list(er.chunk_bounds)
        ys = [as_list(y) for y in er.iter_chunks(cache=cache)]
        try:
            out = [[b.index(y[0]), b.index(y[1])] for y in ys]
        except ValueError:
            out = [[-1, -1]] + ys
        # the data read through the non-empty yields, concatenated, must be the recording
        rows = [er[y[0]:y[1]] for y in ys if y[0] < y[1]]
        data_ok = bool(rows) and np.array_equal(np.vstack(rows), arr)
        reader.close()
    return out, data_ok


def _run_exc(n, ne, es):
    from phylib.io.array import excerpts, get_excerpts
    out = [as_list(e) for e in excerpts(n, n_excerpts=ne, excerpt_size=es)] if ne >= 2 else []
    rows = as_list(get_excerpts(np.arange(n), n_excerpts=ne, excerpt_size=es))
    return out, rows


I_CLAUSES = ('out', 'yields', 'rows')       # agreement with the transcription; the P-layer clauses judge


def _clip(t, a, b, n):
    return [min(max(t[a], 0), n), min(max(t[b], 0), n)]


def _compare(ctx, case, backends, cbin_variants, fallback):
    """Replay one generated case. Equality with the specification's I-layer output is the fast path; an
    output that differs is not a violation by itself: it is handed to the trace specification, whose
    P-layer clauses (Tiles, Inside, Size, BoundsValid, IterTiles, ExcerptsValid ...) judge it."""
    mode = case['mode']
    if mode == 'gen':
        n = case['n']
        out, kept, full = _run_gen(n, case['cs'], case['ov'])
        ctx.traces += 1
        # data_chunk is slicing: kept / full parts are the clipped intervals of the yielded tuples
        if not (len(kept) == len(out) and
                all(_same_interval(a, _clip(t, 2, 3, n)) for a, t in zip(kept, out)) and
                all(_same_interval(a, _clip(t, 0, 1, n)) for a, t in zip(full, out))):
            ctx.violation('gen', 'data_chunk does not return the rows of the yielded chunk (n=%d, cs=%d, ov=%d)'
                          % (n, case['cs'], case['ov']), dict(case=case, observed=dict(out=out, kept=kept, full=full)))
        if out != case['out']:
            ctx.note('gen', 'chunk_bounds(%d, %d, %d) yields %r, transcription %r' % (n, case['cs'], case['ov'], out, case['out']))
            fallback.append(dict(mode='gen', n=n, cs=case['cs'], ov=case['ov'], out=out))
        return len(case['out']) > 1
    if mode == 'bounds':
        res = _run_bounds(ctx, case['sizes'], case['chunk'], backends)
        for backend, (b, ys) in res.items():
            ctx.traces += 1
            if b != case['out'] or (ys is not None and ys != case['yields']):
                ctx.note('bounds', '%s reader over %r / chunk %d: bounds %r, transcription %r' % (
                    backend, case['sizes'], case['chunk'], b, case['out']))
                fallback.append(dict(mode='bounds', sizes=case['sizes'], chunk=case['chunk'], out=b,
                                     yields=ys if ys is not None else [[b[q], b[q + 1]] for q in range(len(b) - 1)],
                                     _backend=backend))
        return len(case['out']) > 2
    if mode == 'cbin':
        for cache, short_last in cbin_variants:
            out, data_ok = _run_cbin(ctx, case['nch'], case['nth'], cache, short_last)
            ctx.traces += 1
            if not data_ok or (out and out[0] == [-1, -1]):
                ctx.violation('cbin', 'compressed iter_chunks (chunks=%d, threads=%d, cache=%s): the data read '
                              'through the yielded intervals is not the recording / the intervals are not chunk '
                              'bounds' % (case['nch'], case['nth'], cache),
                              dict(case=case, cache=cache, short_last=short_last, observed=dict(out=out, data_ok=data_ok)))
            elif out != case['out']:
                ctx.note('cbin', 'compressed iter_chunks (%d chunks, %d threads) yields %r, transcription %r' % (
                    case['nch'], case['nth'], out, case['out']))
                fallback.append(dict(mode='cbin', nch=case['nch'], nth=case['nth'], out=out))
        return case['nch'] > 1
    if mode == 'exc':
        out, rows = _run_exc(case['n'], case['ne'], case['es'])
        ctx.traces += 1
        if out != case['out'] or rows != case['rows']:
            ctx.note('exc', 'excerpts(%d, %d, %d) = %r, transcription %r' % (case['n'], case['ne'], case['es'], out, case['out']))
            fallback.append(dict(mode='exc', n=case['n'], ne=case['ne'], es=case['es'], out=out, rows=rows))
        return len(case['out']) > 1
    raise MachineryError('unknown mode %r' % mode)


def _random_records(ctx, count):
    """C->S: runs far beyond TLC's scope, recorded for Trace_Chunking."""
    rng = np.random.RandomState(ctx.seed + 16)
    recs = []
    for k in range(count):
        kind = k % 4
        rid = k + 1
        if kind == 0:
            cs = int(rng.randint(1, 200))
            ov = int(rng.randint(0, cs))
            n = int(rng.randint(1, 1500))
            out, kept, full = _run_gen(n, cs, ov)
            recs.append(dict(id=rid, mode='gen', n=n, cs=cs, ov=ov, out=out))
        elif kind == 1:
            nf = int(rng.randint(1, 7))
            sizes = [int(rng.randint(1, 120)) for _ in range(nf)]
            chunk = int(rng.randint(1, 150))
            res = _run_bounds(ctx, sizes, chunk, ('flat',))
            b, ys = res['flat']
            recs.append(dict(id=rid, mode='bounds', sizes=sizes, chunk=chunk, out=b, yields=ys))
            if res['direct'][0] != b:
                ctx.violation('bounds', 'reader.chunk_bounds differs from _get_chunk_bounds',
                              dict(sizes=sizes, chunk=chunk, direct=res['direct'][0], reader=b))
        elif kind == 2:
            nch = int(rng.randint(1, 40))
            nth = int(rng.randint(1, 12))
            out, data_ok = _run_cbin(ctx, nch, nth, bool(rng.randint(0, 2)), bool(rng.randint(0, 2)))
            if not data_ok:
                ctx.violation('cbin', 'data read through compressed iter_chunks is not the '
                              'recording', dict(nch=nch, nth=nth, out=out))
            recs.append(dict(id=rid, mode='cbin', nch=nch, nth=nth, out=out))
        else:
            n = int(rng.randint(0, 1200))
            ne = int(rng.randint(0, 12))
            es = int(rng.randint(1, 60))
            out, rows = _run_exc(n, ne, es)
            recs.append(dict(id=rid, mode='exc', n=n, ne=ne, es=es, out=out, rows=rows))
    return recs


def run(ctx):
    tier = ctx.tier
    ctx.rule = ('S->C: every terminal state TLC reaches for (n, chunk, overlap), (file sizes, '
                'chunk length), (compressed chunks, threads), (n, n_excerpts, excerpt_size) within '
                'the constants of Gen_Chunking_%s.cfg is replayed on the real generators/readers; '
                'non-trivial = more than one yielded chunk/excerpt. C->S: seeded random runs beyond '
                'those bounds validated by Trace_Chunking.' % tier)
    ctx.assumptions += [
        'the Apalache obligations are about the transcription of chunk_bounds (bound to the code by the replay)',
        'small-scope: exhaustive only within the constants of the cfg files; beyond them seeded '
        'random runs',
        'compressed readers: chunk bound k of the .cbin file is identified with the integer k',
        'mtscomp 1.0.2 is trusted for the .cbin container']
    # M: I |= P, termination, vacuity
    ctx.model_check('Chunking', 'MC_Chunking_%s.cfg' % tier, expect_actions=ACTIONS,
                    note='I-layer satisfies P-layer; WF termination', timeout=1500)
    # A: unbounded-integer inductive invariant of the chunk generator (Apalache): IndInv is initial, inductive,
    # and implies the tiling / inside / size clauses; NeverDone must be refuted (vacuity guard)
    mod = tlc.SPEC_DIR / 'apalache' / 'ChunkGenInd.tla'
    obligations = [('Init', 'IndInv', 0, False), ('IndInit', 'IndInv', 1, False),
                   ('IndInit', 'TilesAtEnd', 0, False), ('IndInit', 'InsideAndSize', 0, False),
                   ('Init', 'NeverDone', 3, True)]
    t_apa = 0.0
    for init, inv, length, expect_error in obligations:
        t_apa += tlc.apalache(mod, ctx.work, init, inv, length, expect_error=expect_error)
    ctx.part(kind='A', module='apalache/ChunkGenInd', obligations=len(obligations), discharged=len(obligations),
             wall_s=round(t_apa, 1), note='chunk_bounds over unbounded integers: IndInv initial + inductive, implies '
             'TilesAtEnd and InsideAndSize; NeverDone refuted (the generator terminates)')
    # G + S->C
    res, path, n = ctx.generate('Chunking', 'Gen_Chunking_%s.cfg' % tier, timeout=1500)
    backends = ('flat', 'array', 'npy')
    cbin_variants = [(False, False), (True, True)] if ctx.quick else [
        (False, False), (True, False), (False, True), (True, True)]
    seen = set()
    fallback = []
    for case in tlc.read_cases(path):
        key = repr(sorted(case.items()))
        if key in seen:
            raise MachineryError('duplicate generated case %s' % key[:200])
        seen.add(key)
        ctx.evaluations += 1
        with ctx.guard(case['mode'], case):
            if _compare(ctx, case, backends, cbin_variants, fallback):
                ctx.nontrivial += 1
        if ctx.abort:
            break
        if ctx.evaluations % 997 == 1:
            ctx.sample(case)
    path.unlink()
    if ctx.abort:
        return
    if ctx.evaluations != n or n == 0:
        raise MachineryError('replayed %d of %d generated cases' % (ctx.evaluations, n))
    # C->S
    recs = []
    with ctx.guard('random', None, seconds=300):
        recs = _random_records(ctx, 120 if ctx.quick else 6000)
    if not recs:
        return
    # outputs that differ from the transcription are judged by the P-layer together with the random runs
    for r in fallback[:4000]:
        r['id'] = len(recs) + 1
        recs.append(r)
    clean = [dict((a, b) for a, b in r.items() if not a.startswith('_')) for r in recs]
    for k in range(0, len(clean), 400):
        for rid, clause in ctx.validate('Trace_Chunking', 'Trace_Chunking.cfg', clean[k:k + 400],
                                        note='random runs beyond the exhaustive bounds + outputs differing from the transcription',
                                        timeout=1500):
            r = [x for x in recs if x['id'] == rid][0]
            if clause in I_CLAUSES:
                ctx.note(r['mode'], 'recorded %s run differs from the transcription (clause %s)' % (r['mode'], clause))
                continue
            ctx.violation(r['mode'], 'recorded %s run rejected by the specification: clause %s' % (
                r['mode'], clause), dict(record=r, clause=clause))
    ctx.sample(recs[0])
    ctx.sample(recs[1])
    # U: the chunkings the repository's own tests ask for
    up = ctx.upstream(('phylib/io/tests/test_array.py', 'phylib/io/tests/test_traces.py'), 'Chunking')
    if up:
        for rid, clause in ctx.validate('Trace_Chunking', 'Trace_Chunking.cfg', up, timeout=1500,
                                        note='calls recorded from the repository\'s own tests'):
            r = up[rid - 1]
            if clause in I_CLAUSES:
                ctx.note(r['mode'], 'a %s run of the repository\'s tests differs from the transcription (clause %s)' % (r['mode'], clause))
                continue
            ctx.violation('upstream', 'a %s run made by %s is rejected by the specification: clause %s' % (
                r['mode'], r.get('test'), clause), dict(record=r, clause=clause))


def replay(ctx, doc):
    case = doc['case']
    c = case.get('case') or case.get('record') or case
    if 'kept' in c or 'rows' in c or 'yields' in c or c.get('mode') == 'cbin':
        fb = []
        _compare(ctx, c, ('flat', 'array', 'npy'),
                 [(False, False), (True, False), (False, True), (True, True)], fb)
        print('outputs differing from the transcription (judged by Trace_Chunking in a full run): %d' % len(fb))
    print('replayed: %d violation(s)' % len(ctx.violations))
