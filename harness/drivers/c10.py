# -*- coding: utf-8 -*-
"""C10 - saved curation state survives any save/reload history. Spec: spec/World.tla."""

import shutil

import numpy as np

from ..core import MachineryError
from .. import tlc
from ..util import as_list, tmp_dir
from .. import datasets as D

IMPORTS = ('phylib.io.model',)
VALUES = {'i3': 3, 'f15': 1.5, 'good': 'good', 'i7': 7, 'i5': 5, 'none': None, 'f4': 4.0, 'big': 2 ** 53 + 1}
RVALUES = {3: 'i3', 1.5: 'f15', 'good': 'good', 7: 'i7', 5: 'i5', 2 ** 53 + 1: 'big'}
FOREIGN = {
    'valid': ('foreign_valid.csv', b'cluster_id,foreignfield\n0,5\n2,7\n'),
    'tabcsv': ('foreign_tab.csv', b'cluster_id\tftab\n0\t5\n2\t7\n'),
    'multi': ('foreign_multi.tsv', b'cluster_id\tfa\tfb\n0\t\t5\n2\t7\t\n'),
    'samefield': ('foreign_quality.csv', b'cluster_id,quality\n0,5\n4,7\n'),
    'empty': ('foreign_empty.csv', b''),
    'garbage': ('foreign_garbage.tsv', b'\x00\xff\xfe,,\n"unterminated\n1,2,3\n\t\t\t'),
    'headeronly': ('foreign_header.tsv', b'cluster_id\tfoo\n'),
    'shortrow': ('foreign_short.csv', b'cluster_id,bar\n1\n'),
    'info': ('cluster_info.tsv', b'cluster_id\tquality2\n0\t1\n2\t4\n'),
}


class Rig(object):
    """A real dataset directory with raw data and the model currently open on it."""

    def __init__(self, d, rng, k):
        self.dir = d / ('w%d' % (k % 20))
        shutil.rmtree(self.dir, ignore_errors=True)
        # every other dataset has a very low sampling rate (1/64 Hz: 600 s chunks of 9 samples), so that the
        # recording spans several trace chunks and exported windows cross chunk boundaries
        ds = D.random_dense(rng, ns=int(rng.randint(6, 14)), nt=3, nc=4, nsw=[3, 4][k % 2], raw=True,
                            whitening=['none', 'monomial'][k % 2], rate=[1024, 0.015625][(k // 2) % 2])
        ds['sc'] = None
        ds['samples'][0] = k % 2          # the first spike within half a window of the START of the recording
        self.ds = ds
        # layouts: KiloSort names (no cluster file: the loader creates the copy); ALF names with a cluster file;
        # ALF names carrying a label before the extension (what the ALF export writes for one probe of several)
        layout = ['ks', 'ks', 'alf', 'alf-label'][(k // 2) % 4]
        if layout != 'ks':
            ds['sc'] = np.asarray(ds['st']).copy()
        self.params = D.write_dataset(self.dir, ds, naming='ks' if layout == 'ks' else 'alf', col1=bool(k % 2))
        if layout == 'alf-label':
            for f in sorted(self.dir.iterdir()):
                parts = f.name.split('.')
                if len(parts) == 3 and parts[0] in ('spikes', 'clusters', 'templates', 'channels') and parts[2] == 'npy':
                    f.rename(self.dir / ('%s.%s.probe00.npy' % (parts[0], parts[1])))
        st = np.asarray(ds['st'])
        v1 = st.copy(); v1[0] = 4
        v2 = st.copy(); v2[-2:] = 5
        self.versions = {'init': st, 'v1': v1, 'v2': v2}
        self.m = D.load(self.params)
        self.st0 = np.array(self.m.spike_templates)
        self.t0 = np.array(self.m.spike_times)

    def apply(self, o):
        op = o['op']
        if op == 'ssc':
            self.m.save_spike_clusters(self.versions[o['v']].astype(np.int32))
        elif op == 'smd':
            mp = {int(x): VALUES[v] for x, v in o['map']}
            self.m.save_metadata(o['field'], mp)
        elif op == 'foreign':
            name, content = FOREIGN[o['kind']]
            (self.dir / name).write_bytes(content)
        elif op == 'subset':
            self.m.save_spikes_subset_waveforms(max_n_spikes_per_template=2, max_n_channels=2)
        elif op == 'close':
            self.m.close()
        elif op == 'reload':
            return self.reload()
        else:
            raise MachineryError(op)
        return None

    def reload(self):
        try:
            self.m.close()
        except Exception:
            pass
        try:
            self.m = D.load(self.params)
        except Exception as e:
            return dict(loaded=False, error='%s: %s' % (type(e).__name__, e))
        m = self.m
        sc = [k for k, v in self.versions.items() if np.array_equal(v, m.spike_clusters)]
        md = []
        for f in sorted(m.metadata):
            rows = []
            for cid in sorted(m.metadata[f]):
                v = m.metadata[f][cid]
                tok = RVALUES.get(v) if (not isinstance(v, bool)) else None
                if isinstance(v, float) and v == 1.5:
                    tok = 'f15'
                if isinstance(v, float) and v == 4.0:
                    tok = 'f4'
                rows.append([int(cid), tok if (tok and type(VALUES[tok]) is type(v)) else 'other:%r' % (v,)])
            md.append([f, rows])
        obs = dict(loaded=True, sc=sc[0] if sc else 'other', md=md, subset=m.spike_waveforms is not None,
                   stEqual=bool(np.array_equal(m.spike_templates, self.st0)),
                   timesEqual=bool(np.array_equal(m.spike_times, self.t0)), storeEqualsRaw=True)
        if m.spike_waveforms is not None:
            sw = m.spike_waveforms
            ok = True
            full = np.asarray(m.traces[:])
            nsw = int(m.n_samples_waveforms)

            def extract_waveforms(traces, samples, ch, n_samples_waveforms=None):
                # the statement's window, computed here from the loaded recording (NOT by the library): rows
                # [s - n//2, s - n//2 + n) with zeros outside the recording and on channels given as -1
                ch = np.asarray(ch)
                out = np.zeros((len(samples), nsw, len(ch)), dtype=np.float64)
                for q, s0 in enumerate(np.asarray(samples, dtype=np.int64)):
                    for r in range(nsw):
                        row = int(s0) - nsw // 2 + r
                        if 0 <= row < full.shape[0]:
                            out[q, r, ch >= 0] = full[row, ch[ch >= 0]]
                return out
            for j, sid in enumerate(np.asarray(sw.spike_ids)):
                ch = np.asarray(sw.spike_channels)[j]
                direct = extract_waveforms(m.traces, m.spike_samples[[sid]], ch,
                                           n_samples_waveforms=m.n_samples_waveforms)[0]
                if not np.array_equal(np.asarray(sw.waveforms)[j], direct):
                    ok = False
                # the public route agrees as well
                keep = ch[ch >= 0]
                if len(keep) and not np.array_equal(m.get_waveforms([sid], keep)[0], direct[:, :len(keep)]):
                    ok = False
            # a request mixing stored and non-stored spikes falls back to the raw data
            others = np.setdiff1d(np.arange(m.n_spikes), np.asarray(sw.spike_ids))
            if len(others) and len(np.asarray(sw.spike_ids)):
                mix = np.array([int(np.asarray(sw.spike_ids)[0]), int(others[0])])
                chs = np.arange(min(2, m.n_channels))
                direct = extract_waveforms(m.traces, m.spike_samples[mix], chs,
                                           n_samples_waveforms=m.n_samples_waveforms)
                if not np.array_equal(m.get_waveforms(mix, chs), direct):
                    ok = False
            obs['storeEqualsRaw'] = ok
        return obs

    def close(self):
        try:
            self.m.close()
        except Exception:
            pass


def replay_history(ctx, d, rng, hist, k):
    rig = Rig(d, rng, k)
    try:
        for step, o in enumerate(hist):
            obs = rig.apply(o)
            if o['op'] != 'reload':
                continue
            ctx.traces += 1
            exp_md = sorted([[f, sorted([[int(x), v] for x, v in rows])] for f, rows in o['md']])
            if not obs['loaded']:
                ctx.violation('reload-blocked', 'reload failed after %r: %s' % (hist[:step], obs['error']),
                              dict(hist=hist, step=step, observed=obs))
                return
            got_md = sorted([[f, sorted(rows)] for f, rows in obs['md']])
            if (obs['sc'] != o['sc'] or got_md != exp_md or obs['subset'] != o['subset'] or
                    not obs['stEqual'] or not obs['timesEqual'] or not obs['storeEqualsRaw']):
                ctx.violation('reload', 'after %r the reloaded model shows sc=%s md=%r subset=%s (st %s, times %s, '
                              'store=raw %s); specification sc=%s md=%r subset=%s' % (
                                  [x['op'] for x in hist[:step]], obs['sc'], got_md, obs['subset'], obs['stEqual'],
                                  obs['timesEqual'], obs['storeEqualsRaw'], o['sc'], exp_md, o['subset']),
                              dict(hist=hist, step=step, observed=obs))
                return
    finally:
        rig.close()


def random_trace(ctx, d, rng, k, rid0, length):
    rig = Rig(d, rng, k)
    recs = [dict(id=rid0, op='begin')]
    maps = [[[0, 'i3'], [2, 'good']], [[0, 'none'], [2, 'f15']], [[0, 'none'], [2, 'none']], [[2, 'i7']], [[0, 'f4'], [2, 'big']],
            [[0, 'f15'], [2, 'i3'], [4, 'good']], []]
    open_ = True
    subset = False
    written = set()
    try:
        while len(recs) <= length:
            u = rng.rand()
            if u < 0.2:
                o = dict(op='ssc', v=['v1', 'v2', 'init'][rng.randint(3)])
            elif u < 0.45 and open_:
                o = dict(op='smd', field=['group', 'quality', 'comment'][rng.randint(3)], map=maps[rng.randint(len(maps))])
            elif u < 0.6:
                kind = list(FOREIGN)[rng.randint(len(FOREIGN))]
                if kind in written:
                    continue
                written.add(kind)
                o = dict(op='foreign', kind=kind)
            elif u < 0.65 and open_ and not subset:
                o = dict(op='subset')
                subset = True
            elif u < 0.75 and open_:
                o = dict(op='close')
                open_ = False
            else:
                o = dict(op='reload')
                open_ = True
            obs = rig.apply(o)
            rec = dict(o, id=rid0 + len(recs))
            if obs is not None:
                rec.update(obs)
                if not obs['loaded']:
                    rec.update(sc='other', md=[], subset=False, stEqual=False, timesEqual=False, storeEqualsRaw=False)
                rec.pop('error', None)
            recs.append(rec)
    finally:
        rig.close()
    return recs


def run(ctx):
    ctx.rule = ('S->C: every history of 4 operations ending in a reload over {save_spike_clusters(2 reassignments), '
                'save_metadata(2 fields x 4 mappings incl. None entries and an all-None mapping), write one of 8 '
                'foreign TSV/CSV files (valid, two value columns with empty cells, a .csv carrying a field the model also saves, empty, binary garbage, header only, short row, cluster_info), export the '
                'waveform subset, close, reload} emitted by TLC (~6k), plus TLC-simulated histories of 12 operations, '
                'replayed on a generated dataset with raw data; every reload is compared with the specification '
                '(assignment, metadata dictionary, subset store, templates / times unchanged, store waveforms = raw '
                'windows). Non-trivial = the history holds a metadata save or a foreign file. C->S: random '
                'histories of 25 operations validated per operation by Trace_World.')
    ctx.assumptions += ['two foreign files never carry the same field (the winner would depend on the directory '
                        'enumeration order); a foreign .csv may carry a field the model saves: *.csv is read before *.tsv',
                        'metadata values: int, float, non-numeric string, None']
    ctx.model_check('World', 'MC_World.cfg', expect_actions=('Next',), timeout=1800,
                    note='file-based reload = dictionary reference model for every reachable directory state')
    rng = np.random.RandomState(ctx.seed + 10)
    with tmp_dir(ctx) as d:
        gens = [('Gen_World.cfg', None), ('Sim_World.cfg', 'num=%d' % (15 if ctx.quick else 1500))]
        for cfg, sim in gens:
            kw = dict(simulate=sim, depth=12, workers=1, seed=ctx.seed + 10) if sim else {}
            res, path, n = ctx.generate('World', cfg, timeout=1800, **kw)
            cases = list(tlc.read_cases(path))
            path.unlink()
            if sim:
                uniq = {}
                for c in cases:
                    uniq.setdefault(repr(c['hist']), c)
                cases = list(uniq.values())[:(150 if ctx.quick else 6000)]
            elif ctx.quick and len(cases) > 1500:
                idx = set(rng.choice(len(cases), size=1500, replace=False).tolist())
                cases = [c for j, c in enumerate(cases) if j in idx]
                ctx.exhaustive = False
            for k, case in enumerate(cases):
                ctx.evaluations += 1
                if any(o['op'] in ('smd', 'foreign') for o in case['hist']):
                    ctx.nontrivial += 1
                with ctx.guard('reload', case):
                    replay_history(ctx, d, rng, case['hist'], k)
                if ctx.abort:
                    return
                if k % 700 == 0:
                    ctx.sample(case)
        recs = []
        for k in range(8 if ctx.quick else 400):
            with ctx.guard('reload', dict(random_history=k)):
                recs += random_trace(ctx, d, rng, k, len(recs) + 1, 25)
            if ctx.abort:
                return
    chunk_size = 26 * 40
    for chunk in [recs[a:a + chunk_size] for a in range(0, len(recs), chunk_size)]:
        for rid, clause in ctx.validate('Trace_World', 'Trace_World.cfg', chunk, timeout=1800):
            lo = rid - 1
            while recs[lo]['op'] != 'begin':
                lo -= 1
            ctx.violation('reload-blocked' if clause == 'reload.loaded' else 'reload',
                          'recorded history rejected by the specification: clause %s' % clause,
                          dict(history=recs[lo:rid], clause=clause))


def replay(ctx, doc):
    c = doc['case']
    if 'hist' in c:
        with tmp_dir(ctx) as d:
            replay_history(ctx, d, np.random.RandomState(0), c['hist'], 0)
    print('replayed: %d violation(s)' % len(ctx.violations))
    for v in ctx.violations[:3]:
        print(v.message)
