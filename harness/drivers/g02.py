# -*- coding: utf-8 -*-
"""G02 (growth, not a listed property) - electrode/mea.py: the MEA object over a PRB probe description.
Spec: spec/Probe.tla. Every probe (two ordered channel groups over four channels, up to three edges) x every
sequence of two channel-group changes TLC emits is built as a real PRB dictionary and a real MEA object; the
shown channels, positions and adjacency and three adjacency subsets are compared with the specification."""

import numpy as np

from ..core import MachineryError
from .. import tlc
from ..util import as_list

IMPORTS = ('phylib.electrode.mea',)


def pos_of(c):
    return (10 * (c % 2), 20 * c)


def run_case(case):
    from phylib.electrode.mea import MEA, _adjacency_subset, _remap_adjacency
    probe = {'channel_groups': {}}
    for g in (1, 2):
        chs = list(case['split'][g - 1])
        probe['channel_groups'][g] = dict(channels=chs, graph=[tuple(e) for e in case['graph'][g - 1]],
                                          geometry={c: pos_of(c) for c in chs})
    mea = MEA(probe=probe)
    for g in case['changes']:
        mea.change_channel_group(g)
    adj = mea.adjacency
    obs = dict(channels=[int(c) for c in mea.channels], positions=as_list(np.asarray(mea.positions)),
               adjacency=[[int(k), sorted(int(v) for v in adj[k])] for k in sorted(adj)],
               n_channels=int(mea.n_channels), subsets=[], remap_ok=True)
    for S, _ in case['subsets']:
        r = _adjacency_subset(adj, set(S))
        obs['subsets'].append([list(S), [[int(k), sorted(int(v) for v in r[k])] for k in sorted(r)]])
    rm = _remap_adjacency(adj, {c: c + 5 for c in range(4)})
    obs['remap_ok'] = sorted((k, sorted(v)) for k, v in rm.items()) == sorted(
        (k + 5, sorted(x + 5 for x in v)) for k, v in adj.items())
    return obs


def run(ctx):
    ctx.rule = ('GROWTH (no listed property): every probe of two ordered channel groups over 4 channels with up to 3 '
                'edges x every sequence of 2 channel-group changes, replayed on a real MEA object; channels (order '
                'kept), positions, whole-probe adjacency, three adjacency subsets and a remapping compared.')
    ctx.model_check('Probe', 'MC_Probe.cfg', expect_actions=('Pick', 'PickGraph', 'Construct', 'Change'), timeout=1800,
                    note='ShownIsGroup, AdjacencyIsSymmetricClosure, AdjacencyStable, SubsetOk, RemapOk')
    res, path, n = ctx.generate('Probe', 'Gen_Probe.cfg', timeout=1800)
    k = 0
    for case in tlc.read_cases(path):
        k += 1
        ctx.evaluations += 1
        if case['graph'][0] or case['graph'][1]:
            ctx.nontrivial += 1
        obs = None
        with ctx.guard('mea', case):
            obs = run_case(case)
        if ctx.abort:
            return
        if obs is None:
            continue
        ctx.traces += 1
        exp = dict(channels=as_list(case['channels']), positions=[list(p) for p in case['positions']],
                   adjacency=[[int(a), as_list(b)] for a, b in case['adjacency']], n_channels=len(case['channels']),
                   subsets=[[as_list(S), [[int(a), as_list(b)] for a, b in r]] for S, r in case['subsets']], remap_ok=True)
        if obs != exp:
            bad = sorted(a for a in exp if obs[a] != exp[a])
            ctx.violation('mea', 'MEA over split %r graph %r after changes %r shows %r; specification %r' % (
                case['split'], case['graph'], case['changes'], dict((a, obs[a]) for a in bad),
                dict((a, exp[a]) for a in bad)), dict(case=case, observed=obs))
        if k % 997 == 1:
            ctx.sample(case)
    path.unlink()
    if k != n:
        raise MachineryError('replayed %d of %d cases' % (k, n))


def replay(ctx, doc):
    print('observed:', run_case(doc['case']['case']))
