# -*- coding: utf-8 -*-
"""C11 / C12 - probe merging. Spec: spec/Merge.tla, spec/Trace_Merge.tla.

One pipeline serves both properties: random probe datasets are merged by the real Merger (wrappers
log the write_* steps), the output directory is projected and validated; clauses prefixed C11 / C12
are attributed to the respective property."""

import shutil

import numpy as np

from ..core import MachineryError
from ..util import as_list, tmp_dir, dir_digest
from .. import datasets as D
from .c05 import ints

IMPORTS = ('phylib.io.merge',)
STEPS = ['write_params', 'write_probe_desc', 'write_spike_times', 'write_spike_data',
         'write_spike_clusters', 'write_cluster_data', 'write_channel_data', 'write_channel_positions',
         'write_templates', 'write_template_data', 'write_misc']
# sampling rates: whole numbers, a half, and a calibrated rate with many decimals (must be kept digit for digit)
RATES = [1024.0, 2048.0, 1024.5, 30000.285714285714]
TSV = {'Amplitude': 'cluster_Amplitude.tsv', 'ContamPct': 'cluster_ContamPct.tsv',
       'KSLabel': 'cluster_KSLabel.tsv'}


def make_probe(rng, k, shared, variant, allow_empty=True):
    """One probe dataset (logical contents + the record the specification sees)."""
    ns = int(rng.randint(2, 9))          # (a one-spike probe is squeezed to 0-d by the merger: degenerate)
    nt = int(rng.randint(2, 5))
    nc = int(rng.randint(2, 5))
    empty = [nt - 1] if ((variant + k) % 3 == 0 and allow_empty) else []         # the highest template owns no spike
    ds = D.random_dense(rng, ns=ns, nt=nt, nc=nc, nsw=shared['nsw'], rate=shared['rate'],
                        whitening='monomial' if shared['wm'][k] else 'none', empty_templates=empty)
    ds['samples'] = np.sort(rng.randint(0, shared['tmax'], size=ns))         # ties within and across probes
    if shared.get('tbase'):
        # a long session: the later half of the spikes a billion samples after the first half
        ds['samples'][ns // 2:] += shared['tbase']
    if (variant + k) % 2 == 0:
        # a channel map with gaps that need not start at 0 (raw file with more channels than the map)
        ds['ncdat'] = nc + int(rng.randint(1, 5))
        ds['chmap'] = rng.permutation(ds['ncdat'])[:nc]
    sc = ds['st'].copy()
    if (variant + k) % 2:                                                    # curated, gapped cluster ids
        sc = sc * 2 + (np.arange(ns) % 2)
    ds['sc'] = sc
    if shared['wm'][k]:
        ds['wmi'] = ds['wmi_eff']
    ds['sim'] = rng.randint(0, 4, size=(nt, nt)).astype(float) if shared['sim'][k] else None
    nloc = 2                              # index tables of all probes share their width
    ds['pcind'] = np.asarray([rng.permutation(nc)[:nloc] for _ in range(nt)])
    ds['pcf'] = rng.randint(-2, 4, size=(ns, 3, nloc)).astype(float)
    nloct = 2
    ds['tfind'] = np.asarray([rng.permutation(nt)[:nloct] for _ in range(nt)])
    ds['tf'] = rng.randint(-2, 4, size=(ns, nloct)).astype(float)
    ds['ind_dtype'] = shared['ind_dtype']
    # geometry: non-negative coordinates, a few x columns
    xs = rng.randint(0, 4, size=nc) * 16.0 if not shared['zero_x'][k] else np.zeros(nc) + 8.0 * (k % 2)
    ys = np.arange(nc) * 20.0
    pos = np.c_[xs, ys]
    if len(set(map(tuple, pos))) < nc:
        pos[:, 1] = np.arange(nc) * 20.0
    ds['pos'] = pos
    tsv, tsv_rec = {}, {}
    for name, fn in TSV.items():
        if rng.rand() < shared['tsv_p']:
            ids = sorted(set(as_list(sc)))
            # (rows also for ids below the highest one that curation left without spikes)
            ids = sorted(set(ids) | set(c for c in range(int(max(ids))) if rng.rand() < 0.5))
            vals = {c: int(rng.randint(0, 100)) for c in ids if rng.rand() < 0.8}
            text = 'cluster_id\t%s\n' % name + ''.join('%d\t%d\n' % (c, v) for c, v in sorted(vals.items()))
            # legal text-file variations: no newline after the last row, Windows line ends, a UTF-8 byte-order mark
            style = (variant + k + len(tsv)) % 4
            if style == 1 and vals:
                text = text[:-1]
            elif style == 2:
                text = text.replace('\n', '\r\n')
            elif style == 3:
                text = '\ufeff' + text
            tsv[fn] = text
            tsv_rec[name] = [[c, v] for c, v in sorted(vals.items())]
        else:
            tsv_rec[name] = []
    rec = dict(times=as_list(ds['samples']), sc=as_list(sc), st=as_list(ds['st']), amps=ints(ds['amps']),
               nch=nc, ntm=nt, chmap=as_list(ds['chmap']), pcind=as_list(ds['pcind']), tfind=as_list(ds['tfind']),
               posx=ints(pos[:, 0]), posy=ints(pos[:, 1]), T=ints(ds['T']),
               wm=ints(ds['wm'], 4) if shared['wm'][k] else [], wmi=ints(ds['wmi_eff'], 4) if shared['wm'][k] else [],
               sim=ints(ds['sim']) if shared['sim'][k] else [], tsv=tsv_rec, rate=RATES.index(shared['rate']) + 1,
               ncdat=int(ds.get('ncdat') or nc))
    return ds, tsv, rec


def read_tsv_pairs(p):
    if not p.exists():
        return []
    out = []
    for line in p.read_text().splitlines()[1:]:
        a, b = line.split('\t')
        out.append([int(a), int(float(b))])
    return out


def merge_once(ctx, d, rng, variant):
    """Build K probes, run the real Merger with step wrappers, project the output directory."""
    from phylib.io.merge import Merger
    from phylib.utils._misc import read_python
    K = int(rng.choice([1, 2, 3, 3, 4]))
    p_all = rng.rand() < 0.6
    shared = dict(nsw=int(rng.randint(2, 4)), rate=RATES[variant % 4], tmax=int(rng.choice([3, 8, 40])),
                  wm=[p_all or rng.rand() < 0.5 for _ in range(K)], sim=[p_all or rng.rand() < 0.5 for _ in range(K)],
                  ind_dtype=[np.uint32, np.int32, np.int64][variant % 3], tsv_p=[1.0, 0.5, 0.0][variant % 3],
                  zero_x=[(variant % 7 == 3) and k < K - 1 for k in range(K)],
                  # 32-bit sample counters late in a long session (time * number of probes exceeds 2^32 / 2^31)
                  tbase=1000000000 if (variant % 4 in (2, 3) and variant % 5 == 4) else 0)
    root = d / 'merge'
    shutil.rmtree(root, ignore_errors=True)
    subdirs, recs = [], []
    for k in range(K):
        ds, tsv, rec = make_probe(rng, k, shared, variant)
        sub = root / ('probe%d' % (9 + k))     # probe9, probe10, ...: the given order is not the name order
        if variant % 4 == 1:
            sub = sub / 'ks2'                  # .../probe9/ks2, .../probe10/ks2: the same folder NAME for every probe
        # all probes of one merge come from the same sorter: same dtypes (they vary between merges)
        D.write_dataset(sub, ds, tsv=tsv, time_dtype=[np.uint64, np.int64, np.int32, np.uint32][variant % 4],
                        id_dtype=[np.int32, np.uint32, np.int64][variant % 3],
                        float_dtype=[np.float32, np.float64][(variant // 3) % 2])      # (templates in either precision)
        (sub / 'whitening_mat_inv.npy').exists() or None
        subdirs.append(sub)
        recs.append(rec)
    before = [dir_digest(s) for s in subdirs]
    out_dir = root / 'merged'
    mg = Merger(subdirs, out_dir)
    steps = []
    written = set()
    for name in STEPS:
        orig = getattr(mg, name, None)
        if orig is None:
            continue                       # a renamed step cannot be wrapped: only the result is judged

        def wrapped(orig=orig, name=name):
            steps.append(name)
            out = orig()
            if name == 'write_misc':
                # what the MERGER wrote (merge() then loads the result, and the loader may add
                # spike_clusters.npy / whitening_mat_inv.npy of its own)
                written.update(x.name for x in out_dir.iterdir())
            return out
        setattr(mg, name, wrapped)
    m = mg.merge()
    try:
        model_ok = (m.n_spikes == sum(len(r['times']) for r in recs) and
                    m.n_templates == sum(r['ntm'] for r in recs) and
                    m.n_channels == sum(r['nch'] for r in recs))
    finally:
        m.close()
    after = [dir_digest(s) for s in subdirs]

    if not written:
        written.update(x.name for x in out_dir.iterdir())      # (write_misc could not be wrapped)

    def load(name):
        p = out_dir / name
        return np.load(p) if (p.exists() and name in written) else None
    pos = load('channel_positions.npy')
    params = read_python(out_dir / 'params.py')
    wm, wmi, sim = load('whitening_mat.npy'), load('whitening_mat_inv.npy'), load('similar_templates.npy')
    out = dict(times=as_list(load('spike_times.npy')), sc=as_list(load('spike_clusters.npy')),
               st=as_list(load('spike_templates.npy')), amps=ints(load('amplitudes.npy')),
               cprobes=as_list(load('cluster_probes.npy')), chmap=as_list(load('channel_map.npy')),
               chprobe=as_list(load('channel_probe.npy')), posx=ints(pos[:, 0]), posy=ints(pos[:, 1]),
               T=ints(load('templates.npy')), pcind=as_list(load('pc_feature_ind.npy')),
               tfind=as_list(load('template_feature_ind.npy')),
               wm=[] if wm is None else ints(wm, 4), wmi=[] if wmi is None else ints(wmi, 4),
               sim=[] if sim is None else ints(sim),
               tsv={name: read_tsv_pairs(out_dir / fn) for name, fn in TSV.items()},
               # (the sampling rate as a token: its position in RATES if the merged value is EXACTLY one of them, else 0)
               rate=(RATES.index(float(params['sample_rate'])) + 1) if float(params['sample_rate']) in RATES else 0,
               ncdat=int(params['n_channels_dat']))
    zero_x_before = [k for k in range(K - 1) if len(set(recs[k]['posx'])) == 1]
    return dict(probes=recs, steps=steps, out=out, inputsUnchanged=before == after, modelOk=bool(model_ok),
                _zero_x=zero_x_before)


def run(ctx, prop):
    ctx.rule = ('M: 3 probes over a family with ties in time inside and across probes, gapped ids, 1-2 channels '
                'and templates, permuted channel maps: the step-by-step transcription satisfies the nine '
                'invariants. C->S: random merges of 1..4 probes by the real Merger (independent sizes, tied '
                'times, curated gapped cluster ids, highest template without spikes, four time dtypes, three id '
                'dtypes, signed and unsigned index tables, optional matrices / TSV files present in all, some or '
                'none of the probes) with wrappers on every write_* step, validated by Trace_Merge; non-trivial '
                '= at least 3 probes.')
    ctx.assumptions += ['every probe holds spike_clusters.npy, pc_feature_ind.npy, template_feature_ind.npy '
                        '(prerequisites of the merger)',
                        'whitening matrices are exact multiples of 1/4 (logged times 4)']
    ctx.model_check('Merge', 'MC_Merge_thorough.cfg', timeout=3000,
                    expect_actions=('PickProbe', 'WriteTimes', 'WriteClusters', 'WriteChannels',
                                    'WriteTemplates', 'WriteTemplateData'),
                    note='K = 3 probes: the smallest scope separating cumulative from previous-probe offsets')
    rng = np.random.RandomState(ctx.seed + 11)
    recs = []
    with tmp_dir(ctx) as d:
        for j in range(160 if ctx.quick else 5000):
            rec = None
            with ctx.guard(prop.lower() + '.merge', dict(variant=j)):
                rec = merge_once(ctx, d, rng, j)
            if ctx.abort:
                return
            if rec is not None:
                rec['id'] = len(recs) + 1
                recs.append(rec)
    if not recs:
        return
    ctx.evaluations = len(recs)
    ctx.nontrivial = sum(1 for r in recs if len(r['probes']) >= 3)
    ctx.exhaustive = False
    zero = {r['id']: r.pop('_zero_x') for r in recs}
    for chunk in [recs[a:a + 100] for a in range(0, len(recs), 100)]:
        for rid, clause in ctx.validate('Trace_Merge', 'Trace_Merge.cfg', chunk, timeout=3000):
            if clause.startswith('I.'):
                ctx.note('transcription', 'the merger output differs from the transcription: clause %s' % clause)
                continue
            if not clause.startswith(prop + '.'):
                continue                      # belongs to the other property's check
            r = recs[rid - 1]
            key = clause
            if clause == 'C12.geometry' and zero[rid]:
                key = 'zero-x-extent'         # known finding: a preceding probe whose channels share one x
            ctx.violation(key, 'merge of %d probes rejected by the specification: clause %s' % (
                len(r['probes']), clause), dict(record=r, clause=clause))
    ctx.sample(dict(probes=[dict((a, p[a]) for a in ('times', 'sc', 'st', 'nch', 'ntm', 'chmap')) for p in recs[0]['probes']],
                    out=dict((a, recs[0]['out'][a]) for a in ('times', 'sc', 'st', 'chmap', 'chprobe', 'pcind'))))
