# -*- coding: utf-8 -*-
"""C12 - see merge_common.py (the merge pipeline is shared by C11 and C12)."""
from . import merge_common

IMPORTS = merge_common.IMPORTS


def run(ctx):
    merge_common.run(ctx, 'C12')


def replay(ctx, doc):
    print('replay: the failing record is self-contained: %r' % (doc['case'].get('record') or doc['case']))
