# -*- coding: utf-8 -*-
"""G01 (growth, not a listed property) - the workflow of the library as one behaviour:
curate / merge / export / load on shared directories. Spec: spec/Pipeline.tla.

Every history TLC emits (depth 4, all of them or a sample) and TLC-simulated deep histories are replayed on
real directories: two generated probes, the real Merger, the real EphysAlfCreator, the real loader; at every
Load the spike samples, spike templates, spike clusters and the number of templates are compared with the
specification's directory state. A difference is a DIVERGENCE of the composed system from the workflow
specification - reported here, never under a listed property."""

import shutil

import numpy as np

from ..core import MachineryError
from .. import tlc
from ..util import as_list, tmp_dir
from .. import datasets as D

IMPORTS = ('phylib.io.model', 'phylib.io.merge', 'phylib.io.alf')
PROBES = {'p1': ([(3, 0), (5, 1), (5, 0), (9, 1)], 2), 'p2': ([(2, 0), (5, 1), (7, 2)], 3)}
LABELS = {'a1': '', 'a2': 'probe00'}          # the second export target carries a label


def curated(sc, v):
    """The specification's curation variants, as functions of the current assignment."""
    sc = np.array(sc, dtype=np.int64)
    new = int(sc.max()) + 1
    ids = np.unique(sc)
    out = sc.copy()
    if v == 'merge':
        out[np.isin(sc, ids[:2])] = new
    else:
        out[0] = new
    return out


class Rig(object):
    def __init__(self, root, rng, k):
        self.root = root / ('w%d' % k)
        shutil.rmtree(self.root, ignore_errors=True)
        self.params = {}
        for j, (name, (spikes, nt)) in enumerate(sorted(PROBES.items())):
            ns = len(spikes)
            nc = 3 + j
            ds = D.random_dense(rng, ns=ns, nt=nt, nc=nc, nsw=3, whitening='monomial', rate=1024)
            ds['samples'] = np.array([t for t, _ in spikes])
            ds['st'] = np.array([c for _, c in spikes])
            ds['sc'] = ds['st'].copy()            # (the merger needs spike_clusters.npy in every probe)
            ds['wmi'] = ds['wmi_eff']
            ds['pcind'] = np.asarray([rng.permutation(nc)[:2] for _ in range(nt)])
            ds['pcf'] = rng.randint(-2, 4, size=(ns, 3, 2)).astype(float)
            ds['tfind'] = np.asarray([rng.permutation(nt)[:2] for _ in range(nt)])
            ds['tf'] = rng.randint(-2, 4, size=(ns, 2)).astype(float)
            ds['ind_dtype'] = np.int32
            ds['pos'] = np.c_[(np.arange(nc) % 2) * 16.0, np.arange(nc) * 20.0]
            self.params[name] = D.write_dataset(self.root / name, ds)

    def apply(self, o):
        from phylib.io.merge import Merger
        from phylib.io.alf import EphysAlfCreator
        op = o['op']
        if op == 'curate':
            m = D.load(self.params[o['dir']])
            try:
                m.save_spike_clusters(curated(m.spike_clusters, o['v']).astype(np.int32))
            finally:
                m.close()
        elif op == 'merge':
            m = Merger([self.root / 'p1', self.root / 'p2'], self.root / 'mg').merge()
            m.close()
            self.params['mg'] = self.root / 'mg' / 'params.py'
        elif op == 'export':
            m = D.load(self.params[o['src']])
            try:
                m2 = EphysAlfCreator(m).convert(self.root / o['dst'], label=LABELS[o['dst']])
                if m2 is not None:
                    m2.close()
            finally:
                m.close()
            self.params[o['dst']] = self.root / o['dst'] / 'params.py'
        elif op == 'load':
            m = D.load(self.params[o['dir']])
            try:
                return dict(times=as_list(m.spike_samples), st=as_list(m.spike_templates),
                            sc=as_list(m.spike_clusters), nt=int(m.n_templates))
            finally:
                m.close()
        else:
            raise MachineryError(op)
        return None


def replay_history(ctx, d, rng, hist, k):
    rig = Rig(d, rng, k)
    for step, o in enumerate(hist):
        try:
            obs = rig.apply(o)
        except MachineryError:
            raise
        except Exception as e:
            ctx.violation('workflow-raises', 'step %d (%s) of the workflow %r raised %s: %s' % (
                step, o['op'], [(x['op'], x.get('dir') or x.get('src', ''), x.get('dst', x.get('v', ''))) for x in hist[:step + 1]],
                type(e).__name__, str(e)[:200]), dict(hist=hist, step=step))
            return
        if o['op'] != 'load':
            continue
        ctx.traces += 1
        exp = dict((a, as_list(o[a]) if a != 'nt' else int(o[a])) for a in ('times', 'st', 'sc', 'nt'))
        if obs != exp:
            bad = sorted(a for a in exp if obs[a] != exp[a])
            ctx.violation('workflow', 'after %r the loaded %s shows %r; specification %r' % (
                [(x['op'], x.get('dir') or x.get('src', ''), x.get('dst', x.get('v', ''))) for x in hist[:step]], o['dir'],
                dict((a, obs[a]) for a in bad), dict((a, exp[a]) for a in bad)), dict(hist=hist, step=step, observed=obs))
            return


def run(ctx):
    ctx.rule = ('GROWTH (no listed property): every workflow history of 4 actions over {curate(dir, merge/split), '
                'merge the two probes, export(src -> one of two ALF targets, the second labelled), load(dir)} ending '
                'in a load, plus TLC-simulated histories of 9 actions, replayed on real directories; every load is '
                'compared (samples, templates, clusters, number of templates) with the directory state of '
                'Pipeline.tla. Non-trivial = the history merges or exports.')
    ctx.assumptions += ['two fixed small probes (4 + 3 spikes, 2 + 3 templates, a tie in time across probes)']
    ctx.model_check('Pipeline', 'MC_Pipeline.cfg', expect_actions=('CurateA', 'MergeA', 'ExportA', 'LoadA'), timeout=3000,
                    note='Conservation, Immutable, Frame, MergedIdsDisjoint, TemplatesInRange over every reachable '
                         'directory state (cluster ids bounded by 5, one export target)')
    rng = np.random.RandomState(ctx.seed + 101)
    with tmp_dir(ctx) as d:
        gens = [('Gen_Pipeline.cfg', None), ('Sim_Pipeline.cfg', 'num=%d' % (40 if ctx.quick else 1500))]
        for cfg, sim in gens:
            kw = dict(simulate=sim, depth=9, workers=1, seed=ctx.seed + 101) if sim else {}
            res, path, n = ctx.generate('Pipeline', cfg, timeout=3000, **kw)
            cases = list(tlc.read_cases(path))
            path.unlink()
            if sim:
                uniq = {}
                for c in cases:
                    uniq.setdefault(repr(c['hist']), c)
                cases = list(uniq.values())[:(60 if ctx.quick else 3000)]
            else:
                cap = 300 if ctx.quick else 6000
                if len(cases) > cap:
                    idx = set(rng.choice(len(cases), size=cap, replace=False).tolist())
                    cases = [c for j, c in enumerate(cases) if j in idx]
                    ctx.exhaustive = False
            for k, case in enumerate(cases):
                ctx.evaluations += 1
                if any(o['op'] in ('merge', 'export') for o in case['hist']):
                    ctx.nontrivial += 1
                with ctx.guard('workflow', case, seconds=120):
                    replay_history(ctx, d, rng, case['hist'], k % 50)
                if ctx.abort:
                    return
                if k % 400 == 0:
                    ctx.sample(case)


def replay(ctx, doc):
    c = doc['case']
    with tmp_dir(ctx) as d:
        replay_history(ctx, d, np.random.RandomState(0), c['hist'], 0)
    print('replayed: %d violation(s)' % len(ctx.violations))
    for v in ctx.violations[:3]:
        print(v.message)
