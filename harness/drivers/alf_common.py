# -*- coding: utf-8 -*-
"""C13 / C14 - ALF export. Specs: spec/Alf.tla (pipeline over file names), spec/Trace_Alf.tla (table
dimensions and the physical values of the exported files).

One pipeline serves both properties: every skeleton TLC emits (raw data / KSLabel / temp_wh.dat / probe
table / whitening / label) is materialised with random contents and curation kinds, converted by the real
EphysAlfCreator, and (a) the source and target directory listings are compared with the specification's,
(b) reload equality, the same-directory guard and the source frame are checked, (c) the exported values
are projected and validated by Trace_Alf. Merged datasets of 1..4 probes (real Merger) are converted too."""

import shutil

import numpy as np

from ..core import MachineryError
from .. import tlc
from ..util import as_list, tmp_dir, dir_digest
from .. import datasets as D
from .c05 import ints, ObservationError
from .c09 import rat, q, curate_single_origin
from . import merge_common

IMPORTS = ('phylib.io.alf', 'phylib.io.merge')
NCLOSEST = 3


def target_name(f, label):
    lab = ('.' + label) if (label and f['labelled']) else ''
    return '%s%s.%s' % (f['base'], lab, f['ext'])


def find(out, base, label, ext='npy'):
    name = '%s%s.%s' % (base, ('.' + label) if label else '', ext)
    p = out / name
    return p if p.exists() else None


def build_source(rng, case, k):
    nt = int(rng.randint(2, 5))
    nc = int(rng.randint(4, 8))
    ns = int(rng.randint(5, 16))
    kind = ['none', 'same', 'split', 'split-gap', 'merge2'][k % 5]          # curation kinds
    empty = [[], [nt - 1], [0]][k % 3] if kind in ('none', 'same') else []
    ds = D.random_dense(rng, ns=ns, nt=nt, nc=nc, nsw=int(rng.randint(2, 5)),
                        whitening='monomial' if case['wm'] else 'none', rate=[1024, 2048, 32768][k % 3],
                        empty_templates=[e for e in empty if nt - 1 >= 1], features=bool(k % 2),
                        raw=bool(case['raw']), geometry=['grid', 'line', 'scatter'][k % 3])
    if case['wm']:
        ds['wmi'] = ds['wmi_eff']
    # channel maps that do not start at raw channel 0 / have gaps (the sorter dropped channels): the raw
    # file of random_dense has one spare column; without raw data the declared channel count is free
    if (k // 4) % 2:
        if ds.get('raw') is not None:
            ds['chmap'] = ds['chmap'] + 1
        else:
            ds['ncdat'] = nc + int(rng.randint(2, 6))
            ds['chmap'] = 1 + rng.permutation(ds['ncdat'] - 1)[:nc]
    if kind == 'none':
        ds['sc'] = None
    elif kind == 'same':
        ds['sc'] = ds['st'].copy()
    elif kind == 'merge2':
        # two templates merged into a new cluster with the SAME number of spikes from each: the cluster
        # waveform is the plain mean of two templates (entries doubled so that it stays integral); a cluster
        # whose templates peak at different depths separates 'depth of the cluster' from 'depth of the template'
        st = np.asarray(ds['st'])
        # (not always templates 0 and 1: the id of the dominant template need not be its rank among the contributors)
        ta, tb = (0, 1) if nt < 3 or k % 2 else (nt - 2, nt - 1)
        idx = np.nonzero((st == ta) | (st == tb))[0]
        h = len(idx) // 2
        if h == 0:
            kind = 'same'
            ds['sc'] = st.copy()
        else:
            ds['T'][[ta, tb]] *= 2
            st[idx[:h]], st[idx[h:2 * h]] = ta, tb
            if len(idx) > 2 * h:
                st[idx[2 * h]] = ta                                  # the odd spike stays in its own cluster
            ds['st'] = st
            sc = st.copy()
            sc[idx[:2 * h]] = nt
            ds['sc'] = sc
    else:
        ds['sc'] = curate_single_origin(rng, ds['st'], nt)
        if kind == 'split-gap':
            ds['sc'][ds['sc'] == ds['sc'].max()] += 2               # ids without spikes below the highest
    probes = None
    if case['probes']:
        probes = np.zeros(nc, dtype=np.int64)                        # a one-probe table (constant)
    return ds, kind, probes


def project(ctx, m, ds, out, label, factor, chmap_orig):
    """Everything Trace_Alf needs from the model (inputs) and the target directory (outputs)."""
    def load(base):
        p = find(out, base, label)
        if p is None:
            raise MachineryError('missing target file %s' % base)
        return np.load(p)
    curated = not np.array_equal(np.asarray(m.spike_clusters), np.asarray(m.spike_templates))
    rate = float(ds['rate'])
    Wt, Wc = np.asarray(m.sparse_templates.data), np.asarray(m.sparse_clusters.data)
    rec = dict(Wt=ints(Wt), Wc=ints(Wc), wmi4=ints(ds['wmi_eff'], 4), st=as_list(m.spike_templates),
               sc=as_list(m.spike_clusters), amps=ints(m.amplitudes), f2=int(2 * factor),
               posx=ints(m.channel_positions[:, 0]), posy=ints(m.channel_positions[:, 1]),
               chprobe=as_list(m.channel_probes), chmapOrig=as_list(chmap_orig),
               ncw=min(NCLOSEST, m.n_channels), nspk=int(m.n_spikes), ntm=int(m.n_templates),
               nch=int(m.n_channels), curated=bool(curated))
    rec['ncl'] = int(np.load(find(out, 'clusters.channels', label)).shape[0])
    if ds.get('pcf') is not None:
        rec['x'] = ints(np.asarray(ds['pcf'])[:, 0, :])
        rec['ys'] = ints(np.asarray(m.channel_positions)[np.asarray(ds['pcind'])[np.asarray(m.spike_templates)], 1])
    else:
        rec['x'], rec['ys'] = [], []
    dims = {}
    for p in out.iterdir():
        parts = p.name.split('.')
        if parts[0] in ('spikes', 'clusters', 'templates', 'channels'):
            base = '.'.join(parts[:2])
            if p.suffix == '.npy':
                dims[base] = int(np.load(p, mmap_mode='r').shape[0])
            elif p.suffix == '.csv':
                rows = p.read_text().split('\n')[1:]
                dims[base] = len(rows)
                rec['uuids'] = [len(rows), len(set(rows))]
    rec['dims'] = dims
    nsp = max(1, int(m.n_spikes))
    rec['spike8'] = ints(load('spikes.amps').astype(np.float64), 8)
    rec['tamps'] = [rat(x, 8 * nsp) for x in load('templates.amps')]
    rec['camps'] = [rat(x, 8 * nsp) for x in load('clusters.amps')]
    rec['twq'], rec['tch'] = q(load('templates.waveforms')), as_list(load('templates.waveformsChannels'))
    rec['cwq'], rec['cch'] = q(load('clusters.waveforms')), as_list(load('clusters.waveformsChannels'))
    rec['cchan'] = as_list(load('clusters.channels'))
    dur = load('clusters.peakToTrough') * rate / 1000.0
    rec['cdur'] = [[1, 0] if np.isnan(x) else [0, int(round(float(x)))] for x in dur]
    if not np.array_equal(np.nan_to_num(dur), np.rint(np.nan_to_num(dur))):
        raise ObservationError('durations are not whole samples: %r' % (dur,))
    rec['cdepthq'] = q(load('clusters.depths'))
    rec['sdepthq'] = q(load('spikes.depths').astype(np.float64))
    rec['rawInd'] = as_list(load('channels.rawInd'))
    return rec


def convert_case(ctx, d, rng, case, k, prop):
    from phylib.io.alf import EphysAlfCreator
    ds, kind, probes = build_source(rng, case, k)
    src = d / 'src'
    out = d / 'out'
    shutil.rmtree(src, ignore_errors=True)
    shutil.rmtree(out, ignore_errors=True)
    tsv = {'cluster_KSLabel.tsv': 'cluster_id\tKSLabel\n0\tgood\n1\tmua\n'} if case['kslabel'] else {}
    # every fifth source stores its vectors as (n, 1) columns, as KiloSort2 / Matlab does
    p = D.write_dataset(src, ds, tsv=tsv, col1=(k % 5 == 2))
    if case['tempwh']:
        (src / 'temp_wh.dat').write_bytes(b'\x01' * 64)
    if probes is not None:
        np.save(src / 'channel_probe.npy', probes.astype(np.int32))
        curated_src = ds['sc'] is not None and not np.array_equal(ds['sc'], ds['st'])
        ncl_src = (int(ds['sc'].max()) + 1) if curated_src else ds['T'].shape[0]
        np.save(src / 'cluster_probes.npy', np.zeros(ncl_src, dtype=np.int32))
    label = case['label']
    factor = [1.0, 2.0, 0.5][k % 3]
    m = D.load(p)                          # (the loader creates spike_clusters.npy / whitening_mat_inv.npy)
    m.n_closest_channels = NCLOSEST
    problems = []
    try:
        before = dir_digest(src)
        # same-directory guard: raises and writes nothing - also when the source directory is named
        # through an alias (a `..` detour, a symbolic link, a relative path)
        c = EphysAlfCreator(m)
        link = d / 'srclink'
        if link.is_symlink():
            link.unlink()
        link.symlink_to(src, target_is_directory=True)
        aliases = [src, str(src), src.parent / 'out' / '..' / 'src', link]
        for alias in aliases[:(4 if k % 3 == 0 else 1)]:
            try:
                c.convert(alias, label=label, ampfactor=factor)
                problems.append(('C13.guard', 'conversion into the source directory (named %s) did not raise' % alias))
            except IOError:
                pass
            except Exception as e:         # not refused: the conversion went ahead and failed somewhere later
                problems.append(('C13.guard', 'conversion into the source directory (named %s) was not refused with '
                                 'IOError: it went ahead and raised %s: %s' % (alias, type(e).__name__, str(e)[:120])))
            if dir_digest(src) != before:
                problems.append(('C13.guard', 'the refused conversion (target named %s) wrote into the source directory' % alias))
                break
        link.unlink()
        if k % 3 == 1:
            # one creator object, two conversions: an earlier conversion with ANOTHER label (or with one, when this
            # case has none) leaves nothing behind in the next one
            out0 = d / 'out0'
            shutil.rmtree(out0, ignore_errors=True)
            m0 = c.convert(out0, label='zz' if label != 'zz' else '', ampfactor=factor)
            if m0 is not None:
                m0.close()
        m2 = c.convert(out, label=label, ampfactor=factor)
        after = dir_digest(src)
        # ---- source frame (C13): names against the specification, bytes against the hashes
        exp_src = set(case['src']) | {'spike_clusters.npy'} | ({'whitening_mat_inv.npy'} if True else set())
        new = sorted(set(after) - set(before))
        deleted = sorted(set(before) - set(after))
        changed = sorted(f for f in before if f in after and after[f] != before[f])
        exp_new = sorted(set(case['src']) - set(before)) if True else []
        exp_deleted = ['temp_wh.dat'] if case['tempwh'] else []
        exp_subset = sorted(x for x in case['src'] if x.startswith('_phy_spikes_subset'))
        if new != exp_subset or deleted != exp_deleted or changed:
            problems.append(('C13.source_frame', 'source directory: new %r deleted %r changed %r; specification: '
                             'new %r deleted %r changed []' % (new, deleted, changed, exp_subset, exp_deleted)))
        # ---- target listing (C13): exactly the files the pipeline model produces, labelled as specified
        got = sorted(x.name for x in out.iterdir())
        exp = sorted(target_name(f, label) for f in case['tgt'])
        extra_ok = {'spike_clusters.npy', 'whitening_mat_inv.npy'}      # created by the reload at the end
        missing = sorted(set(exp) - set(got) - extra_ok)
        extra = sorted(set(got) - set(exp) - extra_ok)
        # every spikes.* / clusters.* / templates.* / channels.* file carries the label before its extension
        unlabelled = sorted(x for x in got if x.split('.')[0] in ('spikes', 'clusters', 'templates', 'channels')
                            and label and ('.%s.' % label) not in x)
        if missing or unlabelled:
            problems.append(('C13.target_files', 'target files missing %r, without the label %r' % (missing, unlabelled)))
            if m2 is not None:
                m2.close()
            return problems, None                 # (the exported values cannot be located by name)
        elif extra:
            ctx.note('target_files', 'the target directory holds files the pipeline model does not know: %r' % extra)
        # ---- reload equality (C13)
        if m2 is None:
            problems.append(('C13.reload', 'no model returned'))
        else:
            try:
                same = dict(
                    spike_times=np.array_equal(m2.spike_times, m.spike_times),
                    spike_samples=np.array_equal(m2.spike_samples, m.spike_samples),
                    spike_clusters=np.array_equal(m2.spike_clusters, m.spike_clusters),
                    spike_templates=np.array_equal(m2.spike_templates, m.spike_templates),
                    channel_mapping=np.array_equal(m2.channel_mapping, m.channel_mapping),
                    channel_positions=np.array_equal(m2.channel_positions, m.channel_positions))
                bad = sorted(a for a, ok in same.items() if not ok)
                if bad:
                    problems.append(('C13.reload', 'reloaded model differs from the source on %r' % bad))
                st_file = np.load(find(out, 'spikes.times', label))
                if not np.array_equal(st_file, m.spike_samples / float(ds['rate'])):
                    problems.append(('C13.reload', 'spikes.times is not in seconds'))
                if not np.array_equal(np.load(find(out, 'spikes.samples', label)), m.spike_samples):
                    problems.append(('C13.reload', 'spikes.samples is not in samples'))
            finally:
                m2.close()
        rec = project(ctx, m, ds, out, label, factor, m.channel_mapping)
        rec['_kind'] = kind
    finally:
        m.close()
    return problems, rec


def merged_case(ctx, d, rng, k):
    """A dataset merged by the real Merger, then exported: each probe's original channel map must come back."""
    from phylib.io.alf import EphysAlfCreator
    from phylib.io.merge import Merger
    K = int(rng.choice([1, 2, 3, 4]))
    shared = dict(nsw=3, rate=1024, tmax=30, wm=[True] * K, sim=[False] * K, ind_dtype=np.int32,
                  tsv_p=0.0, zero_x=[False] * K)
    root = d / 'mg'
    shutil.rmtree(root, ignore_errors=True)
    subdirs, chmaps, dss = [], [], []
    for j in range(K):
        # (no template without spikes here: the merger sizes cluster_probes by the ids in use, which for a
        # single uncurated probe would disagree with one-cluster-per-template)
        ds, tsv, rec = merge_common.make_probe(rng, j, shared, k, allow_empty=False)
        ds['pos'] = np.c_[(np.arange(len(ds['chmap'])) % 2) * 16.0 + 0.0, np.arange(len(ds['chmap'])) * 20.0]
        if k % 2:
            ds['chmap_dtype'] = np.int64      # (channel maps are int32 from the sorter, int64 from other tools)
        sub = root / ('p%d' % (9 + j))
        D.write_dataset(sub, ds)
        subdirs.append(sub)
        chmaps += as_list(ds['chmap'])
        dss.append(ds)
    m = Merger(subdirs, root / 'merged').merge()
    ncl_width = 2 + (k % 2)             # every probe has >= 2 channels; width 3 exceeds the small probes
    m.n_closest_channels = ncl_width
    out = d / 'mgout'
    shutil.rmtree(out, ignore_errors=True)
    try:
        m2 = EphysAlfCreator(m).convert(out, label='', ampfactor=1.0)
        comp = []
        if m2 is not None:
            # composition merge -> export -> load (C11 + C13 + C04): the reloaded ALF dataset shows the union of
            # the probes' spikes, in merged order, with the merged ids and geometry
            try:
                if not (np.array_equal(m2.spike_samples, m.spike_samples) and np.array_equal(m2.spike_times, m.spike_times)
                        and np.array_equal(m2.spike_clusters, m.spike_clusters)
                        and np.array_equal(m2.spike_templates, m.spike_templates)
                        and np.array_equal(m2.channel_positions, m.channel_positions)
                        and np.array_equal(m2.channel_probes, m.channel_probes)):
                    comp.append('the reloaded export of the merged dataset differs from the merged dataset')
                all_times = np.sort(np.concatenate([np.asarray(x['samples']) for x in dss]))
                if not np.array_equal(np.asarray(m2.spike_samples, dtype=np.int64), all_times):
                    comp.append('the reloaded export does not hold the union of the probes\' spikes')
            finally:
                m2.close()
        wmi = np.linalg.inv(np.asarray(m.wm))
        ds_all = dict(rate=1024, wmi_eff=wmi, pcf=None)
        global NCLOSEST
        old = NCLOSEST
        NCLOSEST = ncl_width
        try:
            rec = project(ctx, m, ds_all, out, '', 1.0, chmaps)
        finally:
            NCLOSEST = old
        rec['_kind'] = 'merged%d' % K
        rec['_comp'] = comp
        rec['_short'] = K > 1 and min(len(x['chmap']) for x in dss) < ncl_width
    finally:
        m.close()
    return rec


def run(ctx, prop):
    ctx.rule = ('S->C->S: every skeleton of the conversion pipeline emitted by TLC (raw data / KSLabel / temp_wh.dat / '
                'probe table / whitening / label: 64 skeletons) x curation kinds (no cluster file, identical, split, '
                'split with gaps, two templates merged; empty templates at either end) x unit factors {1, 2, 0.5} x with / without features '
                'is materialised, converted by the real EphysAlfCreator and compared: source and target listings, '
                'labels, same-directory guard, source frame by hashing, reload equality; exported values are validated '
                'by Trace_Alf. Plus datasets merged from 1..4 probes by the real Merger (rawInd inversion). '
                'Non-trivial = curated or merged.')
    ctx.assumptions += ['neighbourhood size overridden to 3 (2 for merged datasets) so that probes are larger than the '
                        'exported channel list; cluster ids below 65536',
                        'curated clusters stem from a single template each, or from two templates with equal spike counts '
                        '(integer cluster waveforms); general merged clusters are covered by C08',
                        'probe tables are constant (one probe) or produced by the real merger']
    ctx.model_check('Alf', 'MC_Alf.cfg', workers=4, timeout=1800,
                    expect_actions=('APick', 'Step'),
                    note='pipeline over file names: Labelled, SourceFrame, TargetComplete')
    res, path, n = ctx.generate('Alf', 'Gen_Alf.cfg', workers=4, timeout=1800)
    cases = list(tlc.read_cases(path))
    path.unlink()
    if len(cases) != n:
        raise MachineryError('read %d of %d cases' % (len(cases), n))
    rng = np.random.RandomState(ctx.seed + 13)
    recs = []
    reps = 4 if ctx.quick else 80
    with tmp_dir(ctx) as d:
        k = 0
        for rep in range(reps):
            for case in cases:
                k += 1
                ctx.evaluations += 1
                res = None
                with ctx.guard(prop + '.convert', dict(case=case, k=k)):
                    res = convert_case(ctx, d, rng, case, k, prop)
                if ctx.abort:
                    return
                if res is None:
                    continue
                problems, rec = res
                ctx.traces += 1
                for key, msg in problems:
                    if key.startswith(prop + '.'):
                        ctx.violation(key, msg, dict(case=case, k=k))
                if rec is None:
                    continue
                rec['id'] = len(recs) + 1
                recs.append(rec)
        for j in range(40 if ctx.quick else 1200):
            rec = None
            with ctx.guard(prop + '.merged', dict(j=j)):
                rec = merged_case(ctx, d, rng, j)
            if ctx.abort:
                return
            if rec is not None:
                ctx.traces += 1
                for msg in rec.pop('_comp', []):
                    if prop == 'C13':
                        ctx.violation('C13.composition', msg, dict(merged=j))
                rec['id'] = len(recs) + 1
                recs.append(rec)
    if not recs:
        return
    kinds = {r['id']: r.pop('_kind') for r in recs}
    short = {r['id']: r.pop('_short', False) for r in recs}
    ctx.nontrivial = sum(1 for r in recs if r['curated'] or kinds[r['id']].startswith('merged'))
    ctx.exhaustive = False
    for chunk in [recs[a:a + 150] for a in range(0, len(recs), 150)]:
        for rid, clause in ctx.validate('Trace_Alf', 'Trace_Alf.cfg', chunk, timeout=1800):
            if not clause.startswith(prop + '.'):
                continue
            r = recs[rid - 1]
            key = clause
            if clause == 'C14.cluster_depths' and not r['curated']:
                key = 'uncurated-empty-depth'
            if clause == 'C13.TableDims' and kinds[rid].startswith('merged') and not r['curated']:
                exp = dict(spikes=r['nspk'], clusters=r['ncl'], templates=r['ntm'], channels=r['nch'])
                bad = sorted(b for b, v in r['dims'].items() if v != exp[b.split('.')[0]])
                if bad == ['clusters.probes']:
                    key = 'merged-cluster-probes'   # known finding: the merger sizes cluster_probes by the ids in use
            if clause in ('C14.template_channels', 'C14.cluster_channels', 'C14.template_waveforms',
                          'C14.cluster_waveforms') and short[rid]:
                key = 'short-probe'       # known finding: a probe with fewer channels than the list width
            ctx.violation(key, '%s dataset: exported files rejected by the specification: clause %s' % (
                kinds[rid], clause), dict(record=r, kind=kinds[rid], clause=clause))
    ctx.sample(dict((a, recs[0][a]) for a in ('dims', 'uuids', 'tch', 'cchan', 'rawInd', 'curated')))
