# -*- coding: utf-8 -*-
"""C20 - no download is reported successful with a file failing its published checksum.
Spec: spec/Download.tla. Server: the `responses` in-process mock (no network in the sandbox)."""

import contextlib
import hashlib
import io
import itertools

import numpy as np

from ..core import MachineryError
from .. import tlc
from ..util import tmp_dir

IMPORTS = ('phylib.io.datasets',)
ACTIONS = ('PreCheck', 'Fetch1', 'Verify1', 'Fetch2', 'Verify2')
GOOD = b'good-bytes' * 300      # > 1024 bytes: several iter_content chunks
BAD = b'bad!' * 750                 # (the SAME length as GOOD: a size check cannot tell them apart)
BIG = 2 ** 20 + 2100               # bodies larger than the checksum's read block (1 MiB)
URL = 'http://verif.invalid/data/file.bin'
SUM_GOOD = hashlib.md5(GOOD).hexdigest()


def call(ctx, d, prior, script, md5s, good=None, latin1=False, big=False, head=True):
    """One real download_file call against a scripted server. Returns (reqs, status, file).
    good: the published body (default GOOD; b'' = the published file is EMPTY); latin1: the checksum file names the
    file with a non-ASCII character and is served as Latin-1 bytes."""
    import responses
    from phylib.io.datasets import download_file
    GOOD_ = GOOD if good is None else good
    BAD_ = BAD
    if big:
        # both bodies are larger than 1 MiB and differ only AFTER the first MiB
        GOOD_ = (GOOD * (BIG // len(GOOD) + 1))[:BIG]
        BAD_ = GOOD_[:2 ** 20 + 50] + b'X' * (BIG - 2 ** 20 - 50)
    SUM_ = hashlib.md5(GOOD_).hexdigest()
    p = d / 'file.bin'
    if p.exists():
        p.unlink()
    if prior == 'valid':
        p.write_bytes(GOOD_)
    elif prior == 'corrupt':
        p.write_bytes(BAD_)
    log = []
    it = iter(script)
    mit = iter(md5s)

    def data_cb(req):
        log.append('data')
        try:
            r = next(it)
        except StopIteration:
            raise ConnectionError('script exhausted')
        if r == 'e404':
            return (404, {}, b'')
        return (200, {}, dict(good=GOOD_, corrupt=BAD_, trunc=GOOD[:1500], empty=b'')[r])

    def md5_cb(req):
        log.append('md5')
        try:
            m = next(mit)
        except StopIteration:
            raise MachineryError('more checksum requests than scripted: %r' % log)
        if m == 'missing':
            return (404, {}, b'')
        text = dict(correct=SUM_, wrong='f' * 32, mangled=SUM_[:-1])[m]
        if latin1:
            return (200, {}, (text + '  fil\xe9.bin\n').encode('latin-1'))
        return (200, {}, text + '  file.bin\n')

    with responses.RequestsMock(assert_all_requests_are_fired=False) as rs:
        if head:
            # the server answers HEAD with the size of the published file (used for the progress report only)
            rs.add(responses.HEAD, URL, headers={'Content-Length': str(len(GOOD_))}, status=200)
        rs.add_callback(responses.GET, URL, callback=data_cb)
        rs.add_callback(responses.GET, URL + '.md5', callback=md5_cb)
        try:
            with contextlib.redirect_stdout(io.StringIO()):
                download_file(URL, p)
            status = 'returned'
        except MachineryError:
            raise
        except Exception:
            status = 'raised'
    # every transfer leaves two callbacks on phylib's global emitter (observation, DESIGN.md 7);
    # drop them so that thousands of calls do not slow each other down
    from phylib.utils import event as _ev
    call.leak = len(getattr(_ev._EVENT, '_callbacks', []))
    _ev.reset()
    fin = 'absent' if not p.exists() else (
        'valid' if p.read_bytes() == GOOD_ else 'corrupt')
    return log, status, fin


def run(ctx):
    ctx.rule = ('S->C: every terminal state of Download.tla (all data-URL scripts of length <= 3 '
                'over {good, corrupt (other bytes / truncated / empty body), 404} x checksum behaviour x prior file; stable and flaky '
                'checksum servers) is replayed against the real download_file with the responses '
                'mock; non-trivial = at least one data GET. C->S: random scripts up to length 6.')
    ctx.assumptions += ['the `responses` in-process mock stands for the HTTP server',
                        'bodies: one published-valid body; corrupted = other bytes, a truncated prefix, or an empty body']
    sfx = '' if ctx.quick else '_thorough'
    ctx.model_check('Download', 'MC_Download%s.cfg' % sfx, expect_actions=ACTIONS, workers=4,
                    note='property domain: stable checksum server')
    ctx.model_check('Download', 'MC_Download_flaky%s.cfg' % sfx, expect_actions=ACTIONS, workers=4,
                    note='extension: checksum availability changes between requests; the P-layer '
                         'invariants are conditioned on Stable')
    cfgs = ['Gen_Download.cfg'] if ctx.quick else ['Gen_Download_thorough.cfg', 'Gen_Download_flaky_thorough.cfg']
    leak = dict(observed=0, specified=0)
    with tmp_dir(ctx) as d:
        for cfg in cfgs:
            res, path, n = ctx.generate('Download', cfg, workers=4)
            k = j = 0
            # (the thorough alphabets give ~750 k terminal states: beyond 150 k a regular stride over the sorted
            # case file is replayed and the run is marked as not exhaustive)
            stride = max(1, -(-n // 150000))
            if stride > 1:
                ctx.exhaustive = False
            for case in tlc.read_cases(path):
                k += 1
                if k % stride:
                    continue
                j += 1
                ctx.evaluations += 1
                reqs = None
                # every third case with a checksum file naming a non-ASCII file (Latin-1 bytes); every fifth case whose
                # script has no empty / truncated body with an EMPTY published file (its valid copy is a zero-length file)
                variant = dict(latin1=(j % 3 == 0))
                if j % 5 == 0 and not ({'empty', 'trunc'} & set(case['script'])):
                    variant['good'] = b''
                elif j % 7 == 0 and not ({'empty', 'trunc'} & set(case['script'])):
                    variant['big'] = True
                variant['head'] = bool(j % 2)
                with ctx.guard('replay', case):
                    reqs, status, fin = call(ctx, d, case['prior'], case['script'], case['md5s'], **variant)
                if ctx.abort:
                    return
                ctx.traces += 1
                if 'data' in case['reqs']:
                    ctx.nontrivial += 1
                # observation beyond C20 (never a verdict): callbacks left on the global emitter
                leak['observed'] += getattr(call, 'leak', 0)
                leak['specified'] += case.get('cbLeak', 0)
                stable = len(set(case['md5s'])) == 1
                same = (reqs, status, fin) == (case['reqs'], case['status'], case['file'])
                if not same and stable and (status, fin, reqs.count('data')) == (
                        case['status'], case['file'], case['reqs'].count('data')):
                    # same outcome, same number of downloads, another number of checksum requests
                    ctx.note('checksum-requests', 'requests %r, transcription %r' % (reqs, case['reqs']))
                    same = True
                if not same:
                    ctx.violation('replay', 'download_file(prior=%s, script=%r, md5=%r): requests %r, '
                                  '%s, file %s; specification: %r, %s, %s' % (
                                      case['prior'], case['script'], case['md5s'], reqs, status, fin,
                                      case['reqs'], case['status'], case['file']),
                                  dict(case=case, observed=dict(reqs=reqs, status=status, file=fin),
                                       variant=dict(latin1=variant['latin1'], empty_published='good' in variant,
                                                    big=bool(variant.get('big')), head=variant['head'])))
                if j % 97 == 1:
                    ctx.sample(case)
            path.unlink()
            if k != n:
                raise MachineryError('replayed %d of %d cases' % (k, n))
        # C->S: random longer scripts, stable and flaky
        rng = np.random.RandomState(ctx.seed + 20)
        recs = []
        for rid in range(1, (1500 if ctx.quick else 40000) + 1):
            L = int(rng.randint(0, 7))
            script = [['good', 'corrupt', 'e404', 'trunc', 'empty'][int(x)] for x in rng.randint(0, 5, size=L)]
            if rng.rand() < 0.5:
                m = ['correct', 'wrong', 'missing', 'mangled'][int(rng.randint(0, 4))]
                md5s = [m, m, m]
            else:
                md5s = [['correct', 'wrong', 'missing', 'mangled'][int(x)] for x in rng.randint(0, 4, size=3)]
            prior = ['absent', 'valid', 'corrupt'][int(rng.randint(0, 3))]
            with ctx.guard('trace', dict(prior=prior, script=script, md5s=md5s)):
                reqs, status, fin = call(ctx, d, prior, script, md5s)
            if ctx.abort:
                return
            recs.append(dict(id=rid, prior=prior, script=script, md5s=md5s, reqs=reqs,
                             status=status, file=fin))
    # growth of the specification beyond the listed property: the candidate invariant CallbacksRestored is
    # refuted by TLC, and the real emitter indeed keeps two callbacks per completed transfer
    res = tlc.run('Download', 'MC_Download_leak.cfg', ctx.work, workers=2, timeout=600)
    ctx.part(kind='observation', module='Download', cfg='MC_Download_leak.cfg',
             note='candidate invariant CallbacksRestored (not a listed property, not claimed)',
             refuted_by_tlc='CallbacksRestored' in res.violated,
             callbacks_left_observed=leak['observed'], callbacks_left_specified=leak['specified'])
    for chunk in [recs[a:a + 4000] for a in range(0, len(recs), 4000)]:
        for rid, clause in ctx.validate('Trace_Download', 'Trace_Download.cfg', chunk):
            r = recs[rid - 1]
            if clause == 'reqs' and r['md5s'][0] == r['md5s'][1] == r['md5s'][2]:
                ctx.note('checksum-requests', 'recorded request sequence differs from the transcription')
                continue
            ctx.violation('trace', 'recorded download rejected by the specification: clause %s' % clause,
                          dict(record=r, clause=clause))
    ctx.sample(recs[0])


def replay(ctx, doc):
    c = doc['case'].get('case') or doc['case'].get('record')
    v = doc['case'].get('variant') or {}
    kw = dict(latin1=bool(v.get('latin1')), big=bool(v.get('big')), head=bool(v.get('head', True)))
    if v.get('empty_published'):
        kw['good'] = b''
    with tmp_dir(ctx) as d:
        print('observed:', call(ctx, d, c['prior'], c['script'], c['md5s'], **kw))
        print('expected:', c['reqs'], c['status'], c['file'])
