# -*- coding: utf-8 -*-
"""C15 - correlograms count exactly the spike pairs in each lag bin. Spec: spec/Ccg.tla."""

import numpy as np

from ..core import MachineryError
from .. import tlc
from ..util import as_list

IMPORTS = ('phylib.stats.ccg',)
ACTIONS = ('Shift', 'Stop', 'Symmetrize')


def run_code(t, c, ids, bin_, half, rate, variant=0, count_shifts=False, mode='plain'):
    """The real correlograms() on times t/rate seconds. Returns (one-sided, symmetrised, shifts).
    mode 'fracwin': the window is NOT a whole number of bins (2*half + 1.75 bins: still `half` bins on each side);
    mode 'f32': single-precision spike times 20000 s + t/8 s at 1000 Hz with bins of bin_/8 s - every time and
    every time * rate is exact, but only if the times are widened before they are multiplied by the rate."""
    from phylib.stats import ccg
    clu = np.asarray(c, dtype=[np.int64, np.int32, np.uint32, np.int64][variant % 4])
    if mode == 'f32':
        rate = 1000
        times = (20000 + np.asarray(t, dtype=np.float64) / 8).astype(np.float32)
        if not np.array_equal(times.astype(np.float64), 20000 + np.asarray(t, dtype=np.float64) / 8):
            raise MachineryError('times not representable in single precision')
        bin_size = bin_ * 0.125
    else:
        times = np.asarray(t, dtype=np.float64) / rate
        bin_size = bin_ / float(rate)
    # window: 2*half bins and 2*half+1 bins both mean `half` bins on each side
    window = (2 * half + (1.75 if mode == 'fracwin' else (variant % 2))) * bin_size
    if window == 0:
        window = bin_size
    cl = list(ids) if variant % 3 else np.asarray(ids)

    def call(symmetrize):
        return ccg.correlograms(times, clu, cluster_ids=cl, sample_rate=float(rate),
                                bin_size=bin_size, window_size=window, symmetrize=symmetrize)
    shifts = -1
    orig = getattr(ccg, '_diff_shifted', None)
    if count_shifts and orig is not None:
        calls = []

        def wrapped(arr, steps=1):
            calls.append(steps)
            return orig(arr, steps)
        ccg._diff_shifted = wrapped
        try:
            one = call(False)
        finally:
            ccg._diff_shifted = orig
        shifts = len(calls)
        if calls != list(range(1, len(calls) + 1)):
            shifts = -2
    else:
        one = call(False)
    sym = call(True)
    return as_list(one), as_list(sym), shifts


def run_rate(c, ids, B, D):
    """firing_rate with bin_size = B/4 and duration D (0 = not given): returns out * 4 * max(D, 1)
    as integers (exact: D is a power of two)."""
    from phylib.stats.ccg import firing_rate
    out = firing_rate(np.asarray(c, dtype=np.int64), cluster_ids=ids, bin_size=B / 4.0,
                      duration=(D or None))
    q = out * 4 * max(D, 1) / B
    if not np.array_equal(q, np.round(q)):
        return 'nonintegral'
    return as_list(q.astype(np.int64))


def _compare(ctx, case, k):
    t, c, ids = case['t'], case['c'], case['ids']
    rate = [1, 4, 1024, 16384][k % 4]
    one, sym, shifts = run_code(t, c, ids, case['bin'], case['half'], rate, variant=k,
                                count_shifts=True)
    ctx.traces += 1
    if shifts != case['shifts']:
        ctx.note('shifts', 'the shift loop ran %s times, transcription %s (t=%r)' % (shifts, case['shifts'], t))
    ok = one == case['counts'] and sym == case['sym']
    B, D = [1, 2, 3][k % 3], [0, 1, 2, 8][k % 4]
    r1 = run_rate(c, ids, B, D)
    r2 = run_rate(c, None, B, D)
    ok = ok and r1 == case['rate'] and r2 == case['rateSorted']
    if not ok:
        ctx.violation('replay', 'correlograms/firing_rate differ from the specification for t=%r '
                      'c=%r ids=%r bin=%d half=%d' % (t, c, ids, case['bin'], case['half']),
                      dict(case=case, k=k, observed=dict(counts=one, sym=sym, shifts=shifts,
                                                         rate=r1, rateSorted=r2)))
    return len(t) >= 2 and any(any(any(x) for x in row) for row in case['counts'])


def _random_records(ctx, count, nmax):
    rng = np.random.RandomState(ctx.seed + 15)
    recs = []
    for rid in range(1, count + 1):
        n = int(rng.randint(1, nmax + 1))
        nc = int(rng.randint(1, 5))
        ids = as_list(rng.permutation([0, 1, 3, 4, 9, 17])[:nc])
        used = ids[:max(1, int(rng.randint(1, nc + 1)))]
        c = [used[int(x)] for x in rng.randint(0, len(used), size=n)]
        span = int(rng.choice([3, 10, 40, 200]))
        t = sorted(int(x) for x in rng.randint(0, span + 1, size=n))
        bin_ = int(rng.randint(1, 6))
        half = int(rng.randint(0, 5))
        rate = int(2 ** rng.randint(0, 15))
        mode = ['plain', 'plain', 'fracwin', 'f32', 'plain', 'bigbin'][rid % 6]
        if mode == 'bigbin':
            # bins of many samples (49, 98, 103, ...: 1/bin is not exact) and lags that are exact multiples of the bin
            bin_ = int(rng.choice([49, 98, 103, 107, 161, 187, 196, 197]))
            t = sorted(int(bin_ * x + rng.choice([0, 0, 0, 1])) for x in rng.randint(0, 9, size=n))
            rate = int(2 ** rng.randint(8, 15))
            mode = 'plain'
        inp = dict(t=t, c=c, ids=ids, bin=bin_, half=half, mode=mode)
        one = None
        with ctx.guard('trace', inp):
            one, sym, shifts = run_code(t, c, ids, bin_, half, rate, variant=rid, count_shifts=True, mode=mode)
            r = run_rate(c, ids, 1, 1)
        if one is None:
            break
        recs.append(dict(id=rid, kind='run', t=t, c=c, ids=ids, bin=bin_, half=half, out=one, sym=sym,
                         shifts=shifts, rate=r))
    # long DENSE trains (thousands of spikes on a handful of times: single cells hold 10^5 .. 10^6 pairs), given to
    # the specification as bags; spikes sharing a time are ordered by the position of their cluster in the id list
    for j in range(3 if nmax <= 40 else 12):
        ntimes = int(rng.randint(3, 7))
        tv = sorted(int(x) for x in rng.choice(np.arange(0, 12), size=ntimes, replace=False))
        ids = as_list(rng.permutation([0, 3, 9])[:int(rng.randint(1, 3))])
        nn = [[int(rng.randint(60, 260)) for _ in ids] for _ in tv]
        t, c = [], []
        for u, tu in enumerate(tv):
            for a, cid in enumerate(ids):
                t += [tu] * nn[u][a]
                c += [cid] * nn[u][a]
        bin_, half = int(rng.randint(1, 4)), int(rng.randint(0, 4))
        one = None
        with ctx.guard('trace', dict(dense=True, tv=tv, nn=nn, ids=ids, bin=bin_, half=half), seconds=120):
            one, sym, _ = run_code(t, c, ids, bin_, half, int(2 ** rng.randint(0, 10)), variant=j)
        if one is None:
            break
        recs.append(dict(id=len(recs) + 1, kind='dense', tv=tv, nn=nn, ids=ids, bin=bin_, half=half, out=one, sym=sym))
    return recs


def run(ctx):
    sfx = '' if ctx.quick else '_thorough'
    ctx.rule = ('S->C: every terminal state of Ccg.tla (all non-decreasing trains up to the length '
                'bound on a small grid incl. identical times x all labelings over id lists in caller '
                'order incl. unused ids x bins x half-windows) replayed on the real correlograms() '
                '(one-sided, symmetrised, number of loop iterations) and firing_rate(); non-trivial = '
                'at least two spikes and a non-zero count. C->S: random longer trains validated by '
                'Trace_Ccg (machine + brute-force pair count).')
    ctx.assumptions += ['sample rates are powers of two (time * rate exact, as the statement requires)',
                        'all spike clusters belong to the supplied id list (documented precondition)']
    ctx.model_check('Ccg', 'MC_Ccg%s.cfg' % sfx, expect_actions=ACTIONS, timeout=3000,
                    note='shift loop = brute-force pair count; symmetrisation; WF termination')
    res, path, n = ctx.generate('Ccg', 'Gen_Ccg%s.cfg' % sfx, timeout=3000)
    k = 0
    for case in tlc.read_cases(path):
        k += 1
        ctx.evaluations += 1
        with ctx.guard('replay', case):
            if _compare(ctx, case, k):
                ctx.nontrivial += 1
        if k % 20011 == 1:
            ctx.sample(case)
        if ctx.abort:
            break
    path.unlink()
    if ctx.abort:
        return
    if k != n:
        raise MachineryError('replayed %d of %d cases' % (k, n))
    recs = _random_records(ctx, 150 if ctx.quick else 1500, 40 if ctx.quick else 60)
    if ctx.abort:
        return
    for chunk in [recs[a:a + 300] for a in range(0, len(recs), 300)]:
        for rid, clause in ctx.validate('Trace_Ccg', 'Trace_Ccg.cfg', chunk, timeout=3000):
            if clause in ('shifts', 'counts', 'sym'):
                # agreement with the shift-loop machine; the brute-force clauses Correct / SymOk decide
                ctx.note('machine', 'recorded run differs from the shift-loop transcription (clause %s)' % clause)
                continue
            ctx.violation('trace', 'recorded correlogram run rejected by the specification: clause %s'
                          % clause, dict(record=recs[rid - 1], clause=clause))
    if recs:
        ctx.sample(recs[0])


def replay(ctx, doc):
    c = doc['case']
    if 'case' in c:
        _compare(ctx, c['case'], c.get('k', 1))
    print('replayed: %d violation(s)' % len(ctx.violations))
