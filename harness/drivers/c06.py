# -*- coding: utf-8 -*-
"""C06 - sparse feature storage is densified exactly. Spec: spec/Features.tla."""

import shutil

import numpy as np

from ..core import MachineryError
from .. import tlc
from ..util import as_list, tmp_dir
from .. import datasets as D
from .c05 import ints

IMPORTS = ('phylib.io.model',)


def _replay_from_sparse(ctx, cases):
    """S->C for from_sparse: single rows, stacked rows, an extra trailing dimension, no spikes."""
    from phylib.io.model import from_sparse
    groups = {}
    for case in cases:
        groups.setdefault((len(case['cols']), tuple(case['chans'])), []).append(case)
    for (n, chans), cs in sorted(groups.items()):
        if len(chans) == 0:
            continue          # an empty request list is outside the statement (list of distinct channels)
        chans = list(chans)
        data = np.asarray([c['data'] for c in cs], dtype=np.float32)
        cols = np.asarray([c['cols'] for c in cs], dtype=np.int64)
        exp = np.asarray([c['dense'] for c in cs], dtype=np.float32).reshape((len(cs), len(chans)))
        for variant in ('stack', 'trail', 'empty', 'uint', 'int32-twice'):
            ctx.traces += 1
            with ctx.guard('from_sparse', dict(cols=as_list(cols), data=as_list(data), chans=chans)):
                if variant == 'stack':
                    out = from_sparse(data, cols, chans)
                    ok = out.shape == exp.shape and np.array_equal(out, exp)
                elif variant == 'trail':
                    d3 = np.stack([data, data * 2 + 1], axis=2)
                    out = from_sparse(d3, cols, np.asarray(chans))
                    e3 = np.stack([exp, np.where(exp != 0, exp * 2 + 1, 0)], axis=2)
                    # a stored value of 0 would be ambiguous: StoredVals are non-zero
                    ok = out.shape == e3.shape and np.array_equal(out, e3)
                elif variant == 'empty':
                    out = from_sparse(data[:0], cols[:0], chans)
                    ok = out.shape == (0, len(chans))
                elif variant == 'int32-twice':
                    # a contiguous int32 table, used for a request of ONE channel first and for the full request after:
                    # the caller's table is an input, it must come back untouched and serve every later call
                    c32 = np.ascontiguousarray(cols, dtype=np.int32)
                    keep = c32.copy()
                    from_sparse(data, c32, chans[:1])
                    out = from_sparse(data, c32, chans)
                    ok = out.shape == exp.shape and np.array_equal(out, exp) and np.array_equal(c32, keep)
                else:
                    out = from_sparse(data, cols.astype(np.uint32), np.asarray(chans, dtype=np.uint32))
                    ok = out.shape == exp.shape and np.array_equal(out, exp)
                if not ok:
                    ctx.violation('from_sparse', 'from_sparse(%s) of data %r cols %r channels %r returned %r, '
                                  'specification %r' % (variant, as_list(data), as_list(cols), chans,
                                                        as_list(out), as_list(exp)),
                                  dict(cols=as_list(cols), data=as_list(data), chans=chans, variant=variant,
                                       observed=as_list(out), expected=as_list(exp)))
            if ctx.abort:
                return


def _store_records(ctx, d, rng, k, rid0):
    ns = int(rng.randint(4, 16))
    nt = int(rng.randint(2, 5))
    nc = int(rng.randint(3, 8))
    nloc = int(rng.randint(2, nc + 1))
    # templates that own no spike (at the first / a middle / the last position) in half of the stores
    empty = [[], [0], [], [nt - 1], [], [nt // 2]][k % 6] if nt >= 3 else []
    ds = D.random_dense(rng, ns=ns, nt=nt, nc=nc, nsw=3, empty_templates=empty)
    with_rows = k % 2 == 1
    rows = np.sort(rng.choice(ns, size=int(rng.randint(2, ns + 1)), replace=False)) if with_rows else None
    if with_rows and k % 4 == 3:
        rows = rng.permutation(rows)          # the row table lists the stored spikes in ANY order
    nrows = len(rows) if with_rows else ns
    ds['pcind'] = np.asarray([rng.permutation(nc)[:nloc] for _ in range(nt)])
    ds['pcf'] = rng.randint(1, 9, size=(nrows, 3, nloc)).astype(float)
    ds['pcrows'] = rows
    nloc_t = int(rng.randint(2, nt + 1))      # (a single column would be squeezed away by the loader)
    ds['tfind'] = np.asarray([rng.permutation(nt)[:nloc_t] for _ in range(nt)])
    ds['tf'] = rng.randint(1, 9, size=(nrows, nloc_t)).astype(float)
    ds['tfrows'] = rows
    ds['ind_dtype'] = [np.uint32, np.int32, np.int64][k % 3]
    if k % 4 >= 2:
        # a curated assignment (spikes moved to other existing ids, a merge into a new id): features are stored per
        # TEMPLATE, the clusters of the spikes play no role
        sc = np.array(ds['st'])
        sc[rng.rand(ns) < 0.4] = int(rng.randint(0, nt))
        sc[rng.rand(ns) < 0.2] = nt
        ds['sc'] = sc
    shutil.rmtree(d / 'f', ignore_errors=True)
    big = k % 5 == 4
    if big:
        # a double-precision store holding values that single precision cannot represent
        ds['pcf'][rng.rand(*ds['pcf'].shape) < 0.3] = 2 ** 24 + 1
        ds['tf'][rng.rand(*ds['tf'].shape) < 0.3] = 2 ** 24 + 3
    p = D.write_dataset(d / 'f', ds, float_dtype=np.float64 if big else np.float32)
    m = D.load(p)
    recs = []
    try:
        st = as_list(ds['st'])
        base = dict(st=st, rows=[] if rows is None else as_list(rows))
        for _ in range(6):
            size = int(rng.randint(1, ns + 1))
            spikes = rng.choice(ns, size=size, replace=False)
            if rng.rand() < 0.5:
                spikes = np.sort(spikes)
            chans = rng.permutation(nc + 1)[:int(rng.randint(1, nc + 2))]      # may contain an unknown channel nc
            inp = dict(spikes=as_list(spikes), chans=as_list(chans), rows=base['rows'])
            with ctx.guard('features', inp):
                out = m.get_features(spikes, chans)
                stored = np.ones(size, bool) if rows is None else np.isin(spikes, rows)
                o = np.array(out, dtype=np.float64)
                o[~stored] = 0                       # values are claimed for stored spikes only
                recs.append(dict(base, id=rid0 + len(recs), kind='features', pcf=ints(ds['pcf']),
                                 pcind=as_list(ds['pcind']), spikes=as_list(spikes), chans=as_list(chans),
                                 out=ints(o)))
            # template features: requested for stored spikes (the code asserts this precondition)
            sp2 = spikes if rows is None else spikes[np.isin(spikes, rows)]
            if len(sp2):
                with ctx.guard('tfeatures', dict(spikes=as_list(sp2), rows=base['rows'])):
                    out = m.get_template_features(sp2)
                    recs.append(dict(base, id=rid0 + len(recs), kind='tfeatures', tf=ints(ds['tf']),
                                     tfind=as_list(ds['tfind']), spikes=as_list(sp2), nt=nt, out=ints(out)))
            if ctx.abort:
                break
    finally:
        m.close()
    return recs


def _pca_via_model(ctx, d, rng, w):
    """The same computation through a model that has a spike-waveform store and no feature file."""
    ns, nsw, nc = w.shape
    ds = D.random_dense(rng, ns=ns + 3, nt=2, nc=max(2, nc), nsw=nsw)
    shutil.rmtree(d / 'p', ignore_errors=True)
    p = D.write_dataset(d / 'p', ds)
    stored = np.sort(rng.choice(ns + 3, size=ns, replace=False))
    chans = np.tile(np.arange(nc), (ns, 1))
    np.save(d / 'p' / '_phy_spikes_subset.waveforms.npy', w.astype(np.float64))
    np.save(d / 'p' / '_phy_spikes_subset.channels.npy', chans.astype(np.int32))
    np.save(d / 'p' / '_phy_spikes_subset.spikes.npy', stored.astype(np.int64))
    m = D.load(p)
    try:
        return m.get_features(stored, np.arange(nc))
    finally:
        m.close()


def _pca_records(ctx, rng, count, rid0, d=None):
    """Waveforms in +/- pairs along distinct sample axes with pairwise distinct magnitudes per channel:
    every channel's covariance is exactly diagonal, its eigenvectors are signed unit vectors."""
    from phylib.io.model import compute_features
    recs, discarded = [], 0
    for _ in range(count):
        nsw = int(rng.randint(3, 7))
        nc = int(rng.randint(1, 4))
        w = np.zeros((2 * nsw, nsw, nc))
        for c in range(nc):
            mags = rng.permutation(np.arange(1, 12))[:nsw]
            for k in range(nsw):
                w[2 * k, k, c] = mags[k]
                w[2 * k + 1, k, c] = -mags[k]
        w = w[rng.permutation(2 * nsw)]
        with ctx.guard('pca', dict(w=as_list(w))):
            if d is not None and len(recs) % 4 == 3 and nc >= 2:
                F = _pca_via_model(ctx, d, rng, w)
            else:
                F = compute_features(w.astype([np.float32, np.float64, np.int16][len(recs) % 3]))
            if F.shape != (2 * nsw, nc, 3):
                raise ValueError('compute_features returned shape %r' % (F.shape,))
            if np.abs(F - np.rint(F)).max() > 1e-4:
                # the covariance of this family is exactly diagonal with distinct eigenvalues: every correct
                # PCA projects on signed unit axes up to rounding error (integers here)
                raise ValueError('features of the diagonal family are not projections on unit axes: %r' % (as_list(F[0]),))
            F = np.rint(F)
            recs.append(dict(id=rid0 + len(recs), kind='pca', w=ints(w), F=ints(F)))
        if ctx.abort:
            break
    return recs, discarded


def _pca_two_records(ctx, rng, count, rid0):
    """Requests of TWO waveforms (+m and -m on one sample axis per channel): the first component is that axis."""
    from phylib.io.model import compute_features
    recs = []
    for j in range(count):
        nsw = int(rng.randint(3, 7))
        nc = int(rng.randint(1, 4))
        w = np.zeros((2, nsw, nc))
        for c in range(nc):
            k = int(rng.randint(0, nsw))
            m = int(rng.randint(1, 12))
            w[0, k, c], w[1, k, c] = m, -m
        with ctx.guard('pca', dict(two=True, w=as_list(w))):
            F = compute_features(w.astype([np.float32, np.float64][j % 2]))
            if F.shape != (2, nc, 3):
                raise ValueError('compute_features returned shape %r' % (F.shape,))
            F1 = F[:, :, 0]
            if np.abs(F1 - np.rint(F1)).max() > 1e-4:
                raise ValueError('first components of a rank-one request are not projections on a unit axis: %r' % (as_list(F1),))
            Fi = np.zeros(F.shape)
            Fi[:, :, 0] = np.rint(F1)
            recs.append(dict(id=rid0 + len(recs), kind='pca2', w=ints(w), F=ints(Fi)))
        if ctx.abort:
            break
    return recs


def _pca_long_records(ctx, rng, count, rid0):
    """Requests of 2000..7000 waveforms from the diagonal family (each +/- pair repeated): the principal axes
    are those of ALL requested waveforms. The copies are laid out at random, or so that every 2nd / 3rd
    waveform misses the axis of largest variance; the record holds the distinct waveforms with multiplicities."""
    from phylib.io.model import compute_features
    recs = []
    for j in range(count):
        nsw = int(rng.randint(3, 6))
        nc = int(rng.randint(1, 3))
        reps = [int(x) for x in rng.randint(340, 700, size=nsw)]
        mags = np.array([rng.permutation(np.arange(1, 12))[:nsw] for _ in range(nc)]).T        # (nsw, nc)
        var = [[2 * reps[k] * int(mags[k, c]) ** 2 for k in range(nsw)] for c in range(nc)]
        if any(len(set(v)) < nsw for v in var):
            continue                                        # a tie between axes: the order would be free
        big = int(np.argmax(var[0]))                        # axis of largest variance on channel 0
        dist = np.zeros((2 * nsw, nsw, nc))
        for k in range(nsw):
            dist[2 * k, k, :] = mags[k]
            dist[2 * k + 1, k, :] = -mags[k]
        cnt = [reps[k // 2] for k in range(2 * nsw)]
        idx = np.repeat(np.arange(2 * nsw), cnt)
        layout = j % 3
        if layout == 0:
            idx = idx[rng.permutation(len(idx))]
        else:
            # the copies on the largest axis only at positions that are NOT multiples of the stride
            stride = layout + 1
            bigs = idx[idx // 2 == big]
            rest = idx[idx // 2 != big][rng.permutation(int(np.sum(idx // 2 != big)))]
            out, b, r = [], list(bigs), list(rest)
            pos = 0
            while b or r:
                if pos % stride != 0 and b:
                    out.append(b.pop())
                elif r:
                    out.append(r.pop())
                else:
                    out.append(b.pop())
                pos += 1
            idx = np.array(out)
        w = dist[idx]
        with ctx.guard('pca', dict(long_request=j, n=len(idx))):
            F = compute_features(w.astype([np.float32, np.float64][j % 2]))
            if F.shape != (len(idx), nc, 3):
                raise ValueError('compute_features returned shape %r for %d waveforms' % (F.shape, len(idx)))
            Fd = np.zeros((2 * nsw, nc, 3))
            for s in range(2 * nsw):
                rows = F[idx == s]
                if np.abs(rows - rows[0]).max() > 1e-4:
                    raise ValueError('identical waveforms of one request got different features')
                Fd[s] = rows[0]
            if np.abs(Fd - np.rint(Fd)).max() > 1e-4:
                raise ValueError('features of the diagonal family are not projections on unit axes: %r' % (as_list(Fd[0]),))
            Fd = np.rint(Fd)
            recs.append(dict(id=rid0 + len(recs), kind='pca_rep', w=ints(dist), cnt=cnt, F=ints(Fd)))
        if ctx.abort:
            break
    return recs


def run(ctx):
    ctx.rule = ('S->C: every (stored columns, stored values, requested channels) triple with <= 2 stored '
                'columns over 4 channels and <= 3 requested channels incl. an unknown one, replayed on the real '
                'from_sparse as stacked rows, with an extra trailing dimension, with no spikes and with '
                'unsigned index dtypes. C->S: get_features / get_template_features of real models (feature '
                'stores with and without a row table, sorted and unsorted spike subsets, channel '
                'permutations with unknown channels, three index dtypes) and compute_features on the exactly '
                'diagonal family, validated by Dense / PairProduct. Non-trivial = the request is unsorted, '
                'contains an unknown channel or the store has a row table.')
    ctx.assumptions += ['stored values are non-zero small integers (a stored 0 is indistinguishable from "not stored")',
                        'PCA is decided only on the exactly diagonal covariance family (ordering by '
                        'eigenvalue, choice of three components, axis bookkeeping), not on general inputs',
                        'template features are requested for stored spikes (asserted precondition of the code)']
    ctx.model_check('Features', 'MC_Features.cfg', expect_actions=('FPick',), workers=8, timeout=1800,
                    note='from_sparse transcription (discard column) = Dense')
    res, path, n = ctx.generate('Features', 'Gen_Features.cfg', workers=8, timeout=1800)
    cases = list(tlc.read_cases(path))
    path.unlink()
    if len(cases) != n:
        raise MachineryError('read %d of %d cases' % (len(cases), n))
    ctx.evaluations = len(cases)
    ctx.sample(cases[len(cases) // 2])
    _replay_from_sparse(ctx, cases)
    if ctx.abort:
        return
    rng = np.random.RandomState(ctx.seed + 6)
    recs = []
    with tmp_dir(ctx) as d:
        for k in range(150 if ctx.quick else 8000):
            recs += _store_records(ctx, d, rng, k, len(recs) + 1)
            if ctx.abort:
                return
    with tmp_dir(ctx) as d:
        pca, discarded = _pca_records(ctx, rng, 150 if ctx.quick else 6000, len(recs) + 1, d)
    if ctx.abort:
        return
    recs += pca
    long_pca = _pca_long_records(ctx, rng, 9 if ctx.quick else 60, len(recs) + 1)
    if ctx.abort:
        return
    recs += long_pca
    two_pca = _pca_two_records(ctx, rng, 40 if ctx.quick else 600, len(recs) + 1)
    if ctx.abort:
        return
    recs += two_pca
    ctx.part(kind='note', pca_records=len(pca), pca_discarded_not_exact=discarded, pca_long_records=len(long_pca))
    if len(pca) < 10:
        raise MachineryError('PCA family: only %d exact cases (%d discarded)' % (len(pca), discarded))
    ctx.nontrivial = sum(1 for r in recs if r['kind'] not in ('pca', 'pca_rep', 'pca2') and (
        r['rows'] or r['spikes'] != sorted(r['spikes']))) + len(pca)
    ctx.evaluations += len(recs)
    for chunk in [recs[a:a + 500] for a in range(0, len(recs), 500)]:
        for rid, clause in ctx.validate('Trace_Features', 'Trace_Features.cfg', chunk, timeout=1800):
            r = recs[rid - 1]
            key = 'tfeatures-order' if (r['kind'] == 'tfeatures' and r['rows'] and
                                        r['spikes'] != sorted(r['spikes'])) else r['kind']
            ctx.violation(key, 'recorded %s request rejected by the specification: clause %s (spikes %r)'
                          % (r['kind'], clause, r.get('spikes')), dict(record=r, clause=clause))
    ctx.sample(recs[0])


def replay(ctx, doc):
    print('replay: the failing record is self-contained: %r' % (doc['case'].get('record') or doc['case']))
