# -*- coding: utf-8 -*-
"""C08 - curated clusters get the right template provenance and waveforms. Spec: spec/Curation.tla."""

from fractions import Fraction
import shutil

import numpy as np

from ..core import MachineryError
from .. import tlc
from ..util import as_list, tmp_dir
from .. import datasets as D
from .c05 import ints

IMPORTS = ('phylib.io.model',)


def rat_cells(a, maxden):
    out = []
    for row in np.asarray(a, dtype=np.float64):
        r = []
        for x in row:
            f = Fraction(float(x)).limit_denominator(maxden)
            r.append([f.numerator, f.denominator])
        out.append(r)
    return out


def observe(ctx, d, rng, st, sc, nt, k, big=False):
    """Build a dense dataset around (st, sc), load it, project what C08 talks about."""
    ns = len(st)
    nc = 6 if big else 4
    ds = D.random_dense(rng, ns=ns, nt=nt, nc=nc, nsw=2 + k % 2,
                        whitening=['none', 'monomial'][k % 2], shanks=True,
                        geometry=['grid', 'line'][k % 2], tmax=3)
    ds['st'] = np.asarray(st)
    ds['sc'] = np.asarray(sc)
    dd = d / ('c%d' % (k % 50))
    shutil.rmtree(dd, ignore_errors=True)       # never reuse files of an earlier dataset
    p = D.write_dataset(dd, ds)
    m = D.load(p)
    try:
        curated = list(st) != list(sc)
        total = max(1, ns)
        rec = dict(st=as_list(st), sc=as_list(sc), nt=nt, curated=curated, T=ints(ds['T']),
                   ncl=int(m.n_clusters))
        rec['chans'] = [[int(c) + 1 for c in m.get_template(t, unwhiten=False).channel_ids]
                        for t in range(nt)]
        rec['chansU'] = [[int(c) + 1 for c in m.get_template(t).channel_ids] for t in range(nt)]
        rec['U4'] = [ints(np.dot(ds['T'][t], ds['wmi_eff']), 4) for t in range(nt)]
        if curated:
            mm = m.merge_map
            rec['mm'] = [[int(t) for t in mm[c]] for c in range(max(mm) + 1)] if len(mm) else []
            rec['keys_ok'] = sorted(mm) == list(range(len(mm)))
            rec['nan'] = sorted(int(x) for x in m.nan_idx)
        else:
            rec['mm'], rec['nan'], rec['keys_ok'] = [], [], (len(m.merge_map) == 0 and len(m.nan_idx) == 0)
        rec['data'] = [rat_cells(w, total) for w in np.asarray(m.sparse_clusters.data)]
        means = []
        for c in sorted(set(sc)):
            b = m.get_cluster_mean_waveforms(int(c))
            # the mean of 4 * U is 4 * the mean: log 4 * M so that it is comparable with U4
            means.append(dict(c=int(c), ch=[int(x) + 1 for x in b.channel_ids],
                              M=rat_cells(np.asarray(b.mean_waveforms) * 4, total)))
        rec['means'] = means
        return rec
    finally:
        m.close()


def in_memory_curation(ctx, d, rng, st, sc, nt, k):
    """The same curated assignment reached IN MEMORY: the dataset has no cluster file (the loader copies the
    templates), the curation is written into model.spike_clusters - which the loader keeps as a copy "so that we can
    update this array during manual clustering" - and get_merge_map() is asked again. Returns its outcome."""
    ds = D.random_dense(rng, ns=len(st), nt=nt, nc=4, nsw=2)
    ds['st'] = np.asarray(st)
    ds['sc'] = None
    dd = d / ('m%d' % (k % 50))
    shutil.rmtree(dd, ignore_errors=True)
    p = D.write_dataset(dd, ds, id_dtype=[np.int32, np.uint32, np.int64][k % 3])
    m = D.load(p)
    try:
        m.spike_clusters[:] = np.asarray(sc)
        mm, nan_idx = m.get_merge_map()
        return ([[int(t) for t in mm[c]] for c in range(max(mm) + 1)] if len(mm) else [],
                sorted(int(x) for x in nan_idx), as_list(m.spike_templates))
    finally:
        m.close()


def random_history(rng, ns, nt, steps):
    st = rng.randint(0, nt, size=ns)
    sc = st.copy()
    for _ in range(steps):
        u = rng.rand()
        used = np.unique(sc)
        if u < 0.35 and len(used) >= 2:
            a, b = rng.choice(used, size=2, replace=False)
            sc[(sc == a) | (sc == b)] = sc.max() + 1 + int(rng.randint(0, 2))
        elif u < 0.7:
            a = rng.choice(used)
            idx = np.nonzero(sc == a)[0]
            if len(idx) >= 2:
                part = idx[rng.rand(len(idx)) < 0.5]
                if 0 < len(part) < len(idx):
                    m1 = sc.max() + 1
                    sc[idx] = m1 + 1
                    sc[part] = m1
        else:
            sc[rng.randint(ns)] = int(rng.randint(0, sc.max() + 3))
    return st, sc


def run(ctx):
    sfx = '' if ctx.quick else '_thorough'
    ctx.rule = ('S->C->S: every distinct curated state (st, sc) reachable by <= 2 merges / splits / '
                'reassignments (ids may be skipped) from every assignment of 4 (5) spikes to 3 templates '
                'is emitted by TLC; quick replays a seeded sample of 2500 of them (thorough: 60000): a dense '
                'dataset with random integer templates, two shanks and optional exact whitening is built '
                'around it and loaded; merge_map / nan_idx / n_clusters are compared with the '
                'transcription and the cluster waveforms / public cluster means are validated by the '
                'relational P-layer. Non-trivial = some cluster stems from several templates or some id '
                'is empty. C->S: longer random histories on more spikes.')
    ctx.assumptions += ['the channel list of each template is taken from get_template (validated under C05)',
                        'weighted means are recovered as exact rationals with denominator <= number of spikes']
    ctx.model_check('Curation', 'MC_Curation%s.cfg' % sfx, expect_actions=('Pick', 'Next'), timeout=3000,
                    note='get_merge_map transcription = provenance for every reachable curated state')
    res, path, n = ctx.generate('Curation', 'Gen_Curation%s.cfg' % sfx, timeout=3000)
    seen = {}
    k = 0
    for case in tlc.read_cases(path):
        k += 1
        seen.setdefault((tuple(case['st']), tuple(case['sc'])), case)
    path.unlink()
    if k != n:
        raise MachineryError('read %d of %d cases' % (k, n))
    cases = [seen[key] for key in sorted(seen)]
    rng = np.random.RandomState(ctx.seed + 8)
    budget = 2500 if ctx.quick else 60000      # (all ~250 k curated states took 50 min: a seeded sample)
    if len(cases) > budget:
        pick = set(rng.choice(len(cases), size=budget, replace=False).tolist())
        cases = [c for j, c in enumerate(cases) if j in pick or c['sc'] == c['st']]
        ctx.exhaustive = False
    recs = []
    with tmp_dir(ctx) as d:
        for j, case in enumerate(cases):
            ctx.evaluations += 1
            rec = None
            with ctx.guard('load', case):
                rec = observe(ctx, d, rng, case['st'], case['sc'], 3, j)
            if ctx.abort:
                return
            if rec is None:
                continue
            ctx.traces += 1
            if case['nan'] or any(len(x) > 1 for x in case['mm']):
                ctx.nontrivial += 1
            exp_mm = case['mm'] if case['curated'] else []
            exp_nan = case['nan'] if case['curated'] else []
            # (the ORDER of the templates listed for a cluster is not part of the statement: compared as sets)
            if ([sorted(x) for x in rec['mm']] != [sorted(x) for x in exp_mm] or rec['nan'] != exp_nan or
                    rec['ncl'] != case['ncl'] or not rec['keys_ok']):
                ctx.violation('mergemap' if rec['ncl'] == case['ncl'] else 'nclusters',
                              'st=%r sc=%r: merge_map %r nan_idx %r n_clusters %d; specification %r %r %d' % (
                                  case['st'], case['sc'], rec['mm'], rec['nan'], rec['ncl'], exp_mm,
                                  exp_nan, case['ncl']), dict(case=case, observed=rec))
            if case['curated'] and j % 4 == 0:
                got = None
                with ctx.guard('mergemap', dict(case=case, in_memory=True)):
                    got = in_memory_curation(ctx, d, rng, case['st'], case['sc'], 3, j)
                if ctx.abort:
                    return
                if got is not None and ([sorted(x) for x in got[0]] != [sorted(x) for x in exp_mm] or got[1] != exp_nan
                                        or got[2] != as_list(case['st'])):
                    ctx.violation('mergemap', 'st=%r, curation %r written into model.spike_clusters in memory: '
                                  'get_merge_map %r %r, spike_templates %r; specification %r %r' % (
                                      case['st'], case['sc'], got[0], got[1], got[2], exp_mm, exp_nan),
                                  dict(case=case, in_memory=True, observed=got))
            rec['id'] = len(recs) + 1
            recs.append(rec)
            if j % 900 == 0:
                ctx.sample(dict((a, rec[a]) for a in ('st', 'sc', 'mm', 'nan', 'ncl')))
        # C->S: longer histories, more spikes and templates
        for j in range(150 if ctx.quick else 1500):
            st, sc = random_history(rng, int(rng.randint(5, 13)), int(rng.randint(2, 5)), int(rng.randint(0, 7)))
            nt = max(2, int(st.max()) + 1 + int(rng.randint(0, 2)))
            rec = None
            with ctx.guard('load', dict(st=as_list(st), sc=as_list(sc))):
                rec = observe(ctx, d, rng, as_list(st), as_list(sc), nt, j, big=True)
            if ctx.abort:
                return
            if rec is not None:
                rec['id'] = len(recs) + 1
                recs.append(rec)
    for r in recs:
        r.pop('keys_ok', None)
    for chunk in [recs[a:a + 700] for a in range(0, len(recs), 700)]:
        for rid, clause in ctx.validate('Trace_Curation', 'Trace_Curation.cfg', chunk, timeout=3000):
            r = recs[rid - 1]
            if clause == 'merge_map = transcription':
                ctx.note('mergemap', 'merge_map lists its templates in another order than the transcription')
                continue
            ctx.violation('nclusters' if 'n_clusters' in clause else 'waveforms',
                          'st=%r sc=%r: recorded model rejected by the specification: clause %s' % (
                              r['st'], r['sc'], clause), dict(record=r, clause=clause))


def replay(ctx, doc):
    print('replay: the failing record is self-contained: %r' % (doc['case'].get('record') or doc['case']))
