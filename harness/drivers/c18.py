# -*- coding: utf-8 -*-
"""C18 - JSON, TSV/CSV and parameter-file serialisation round-trips values and types.
Spec: spec/Serialization.tla. The harness owns the token -> value tables; the spec owns the
semantics (Normalize, header order, cell typing)."""

import numpy as np

from ..core import MachineryError
from .. import tlc
from ..util import as_list, tmp_dir

IMPORTS = ('phylib.utils._misc',)
FLOATS = {'f05': 0.5, 'fm25': -2.5, 'f15': 1.5, 'f123456': 1.23456, 'f3em5': 3.2e-05}    # (repr of 3.2e-05 has an exponent)
STRINGS = {'abc': 'abc', 'd12': 'd12', '': '', 'name': 'name', 'n12x': 'n12x', 'x': 'x', 'y': 'y',
           'good': 'good', 'has_comma': 'a,b', 'has_tab': 'a\tb', 'has_quote': 'say "hi", ok',
           'has_space': ' two words ', 'e5x': '1e5x', 'plusnum': ' +1_0 ',
           'has_newline': 'first line\nsecond line', 'has_vt': 'a\x0bb \u2028c'}
RSTRINGS = {v: k for k, v in STRINGS.items()}
BIGINTS = {'b53p1': 2 ** 53 + 1}          # integers beyond 2^53 (tokens: TLC's integers are 32-bit)
RBIGINTS = {v: k for k, v in BIGINTS.items()}


# ---------------------------------------------------------------- tagged tree <-> Python value
def build(x):
    t = x['t']
    if t == 'int':
        return x['i']
    if t == 'float':
        return FLOATS[x['f']]
    if t == 'str':
        return STRINGS[x['s']]
    if t == 'none':
        return None
    if t == 'bool':
        return bool(x['b'])
    if t == 'list':
        return [build(y) for y in x['l']]
    if t == 'dict':
        return {build_key(k): build(v) for k, v in zip(x['ks'], x['vs'])}
    if t == 'nps':
        return np.dtype(x['dt']).type(x['i'])
    if t == 'nd':
        shape = tuple(x['shape'])
        a = np.array(x['data'], dtype=x['dt']).reshape(shape)
        if a.ndim == 0:
            return a          # a 0-d array has a single layout (asfortranarray would make it 1-d)
        if x['layout'] == 'F':
            a = np.asfortranarray(a)
        elif x['layout'] == 'strided' and a.ndim >= 1:
            big = np.zeros(shape[:-1] + (2 * shape[-1],), dtype=a.dtype)
            big[..., ::2] = a
            a = big[..., ::2]
            assert a.shape == shape
        return a
    raise MachineryError('tag %r' % t)


def build_key(k):
    return k['i'] if k['k'] == 'int' else STRINGS[k['s']]


def project_key(k):
    if isinstance(k, bool):
        return dict(k='other', s=repr(k))
    if isinstance(k, int):
        return dict(k='int', i=k)
    if isinstance(k, str) and k in RSTRINGS:
        return dict(k='str', s=RSTRINGS[k])
    return dict(k='other', s=repr(k))


def project(v):
    if isinstance(v, (bool, np.bool_)) and not isinstance(v, np.ndarray):
        return dict(t='bool', b=bool(v)) if isinstance(v, bool) else dict(t='other', s='np.bool_')
    if isinstance(v, int):
        return dict(t='int', i=v)
    if isinstance(v, float):
        for tok, f in FLOATS.items():
            if v == f:
                return dict(t='float', f=tok)
        if v == int(v):
            return dict(t='floatint', i=int(v))
        return dict(t='other', s=repr(v))
    if isinstance(v, str):
        return dict(t='str', s=RSTRINGS[v]) if v in RSTRINGS else dict(t='other', s=repr(v))
    if v is None:
        return dict(t='none')
    if isinstance(v, list):
        return dict(t='list', l=[project(y) for y in v])
    if isinstance(v, dict):
        ks = sorted(v, key=str)
        return dict(t='dict', ks=[project_key(k) for k in ks], vs=[project(v[k]) for k in ks])
    if isinstance(v, np.ndarray):
        flat = np.asarray(v).astype(np.float64).ravel(order='C')
        return dict(t='nd', dt=str(v.dtype), shape=list(v.shape), layout='C',
                    data=[int(z) for z in flat])
    return dict(t='other', s=repr(type(v)))


def json_roundtrip(d, key, value):
    from phylib.utils._misc import save_json, load_json
    p = d / 'x.json'
    save_json(p, {build_key(key): build(value)})
    out = load_json(p)
    if len(out) != 1:
        return dict(k='other', s='%d keys' % len(out)), dict(t='other', s='')
    (k, v), = out.items()
    return project_key(k), project(v)


# ---------------------------------------------------------------- tables
def build_cell(c):
    if c['c'] == 'int':
        return c['i']
    if c['c'] == 'bigint':
        return BIGINTS[c['s']]
    if c['c'] == 'float':
        return FLOATS[c['f']]
    return STRINGS[c['s']]


def project_cell(v, four=False):
    if isinstance(v, bool):
        return dict(c='other', s=repr(v))
    if isinstance(v, int) and v in RBIGINTS:
        return dict(c='bigint', s=RBIGINTS[v])
    if isinstance(v, int) and abs(v) >= 2 ** 31:
        return dict(c='other', s=repr(v))
    if isinstance(v, int):
        return dict(c='int', i=v)
    if isinstance(v, float):
        for tok, f in FLOATS.items():
            if v == f and not four:
                return dict(c='float', f=tok)     # exact value (two-column tables use repr)
        for tok, f in FLOATS.items():
            if v == float('%.4f' % f):
                return dict(c='float4', f=tok)    # the value at the written precision
        return dict(c='other', s=repr(v))
    if isinstance(v, str) and v in RSTRINGS:
        return dict(c='str', s=RSTRINGS[v])
    return dict(c='other', s=repr(v))


def norm_pairs(pairs):
    return sorted([[f, c] for f, c in pairs], key=lambda p: p[0])


def tsv_roundtrip(d, rows, first, ext):
    from phylib.utils._misc import write_tsv, read_tsv
    p = d / ('t' + ext)
    data = [{f: build_cell(c) for f, c in row} for row in rows]
    write_tsv(p, data, first_field=first)
    delim = '\t' if ext == '.tsv' else ','
    with open(p, newline='') as f:
        header = f.readline().rstrip('\r\n').split(delim)
    out = read_tsv(p)
    return header, [norm_pairs([[k, project_cell(v, four=True)] for k, v in r.items()]) for r in out]


def simple_roundtrip(d, pairs, ext):
    from phylib.utils._misc import _write_tsv_simple, _read_tsv_simple
    p = d / ('s' + ext)
    # (the mapping is built in DESCENDING id order: the order of insertion is not the order of the ids)
    _write_tsv_simple(p, 'group', {cid: build_cell(c) for cid, c in sorted(pairs, key=lambda x: -x[0])})
    got = _read_tsv_simple(p)
    if not pairs and got == {}:
        return 'group', []
    field, data = got
    return field, sorted([[k, project_cell(v)] for k, v in data.items()], key=lambda x: x[0])


def python_roundtrip(d, pairs):
    from phylib.utils._misc import write_python, read_python
    p = d / 'params.py'
    write_python(p, {k: build(v) for k, v in pairs})
    out = read_python(p)
    return sorted([[k, project(v)] for k, v in out.items()], key=lambda x: x[0])


def _compare(ctx, case, d):
    mode = case['mode']
    ctx.traces += 1
    if mode == 'json':
        k, v = json_roundtrip(d, case['key'], case['value'])
        if k != case['key'] or v != case['expect']:
            ctx.violation('json' if case['key'] != dict(k='int', i=-1) or v != case['expect'] else 'json-negkey',
                          'save_json/load_json of {%r: %r} returned {%r: %r}; specification {%r: %r}' % (
                              case['key'], case['value'], k, v, case['key'], case['expect']),
                          dict(case=case, observed=dict(key=k, value=v)))
    elif mode == 'tsv':
        for ext in ('.tsv', '.csv'):
            header, out = tsv_roundtrip(d, case['rows'], case['first'], ext)
            exp = [norm_pairs(r) for r in case['expect']]
            if header != case['header'] and sorted(header) == sorted(case['header']) and (
                    case['first'] not in header or header[0] == case['first']):
                ctx.note('header', 'columns after the first one are written in another order than the transcription')
                header = case['header']
            if header != case['header'] or out != exp:
                ctx.violation('tsv', 'write_tsv/read_tsv (%s) of %r: header %r rows %r; specification '
                              'header %r rows %r' % (ext, case['rows'], header, out, case['header'], exp),
                              dict(case=case, ext=ext, observed=dict(header=header, rows=out)))
    elif mode == 'simple':
        for ext in ('.tsv', '.csv'):
            field, out = simple_roundtrip(d, case['input'], ext)
            exp = sorted([[k, c] for k, c in case['expect']], key=lambda x: x[0])
            if field != 'group' or out != exp:
                ctx.violation('simple', 'two-column table (%s) %r read back as %r' % (ext, case['input'], out),
                              dict(case=case, ext=ext, observed=out))
    elif mode == 'python':
        out = python_roundtrip(d, case['input'])
        exp = sorted([[k, v] for k, v in case['expect']], key=lambda x: x[0])
        if out != exp:
            ctx.violation('python', 'parameter file %r read back as %r' % (case['input'], out),
                          dict(case=case, observed=out))
    else:
        raise MachineryError(mode)


def _rand_value(rng, depth):
    u = rng.rand()
    if depth > 0 and u < 0.2:
        return dict(t='list', l=[_rand_value(rng, depth - 1) for _ in range(rng.randint(0, 4))])
    if depth > 0 and u < 0.35:
        ks = [['abc', 'name', 'x', 'y'][j] for j in sorted(rng.choice(4, size=rng.randint(0, 4), replace=False))]
        return dict(t='dict', ks=[dict(k='str', s=k) for k in ks],
                    vs=[_rand_value(rng, depth - 1) for _ in ks])
    if u < 0.7:
        dt = ['int8', 'int16', 'int32', 'int64', 'uint8', 'uint16', 'uint32', 'uint64', 'float32',
              'float64', 'bool', '>i2', '>f4'][rng.randint(13)]       # (the last two: non-native byte order)
        rank = int(rng.randint(0, 4))
        shape = [int(x) for x in rng.randint(0, 13, size=rank)]
        if int(np.prod(shape)) > 60:
            shape = shape[:1]
        hi = 2 if dt == 'bool' else 100
        data = [int(x) for x in rng.randint(0, hi, size=int(np.prod(shape)))]
        return dict(t='nd', dt=dt, shape=shape, layout=['C', 'F', 'strided'][rng.randint(3)], data=data)
    if u < 0.78:
        return dict(t='nps', dt=['int32', 'uint8', 'float64', 'int64'][rng.randint(4)], i=int(rng.randint(0, 100)))
    return [dict(t='int', i=int(rng.randint(-1000, 1000))), dict(t='float', f='f05'), dict(t='float', f='fm25'),
            dict(t='str', s='abc'), dict(t='str', s=''), dict(t='none'), dict(t='bool', b=True),
            dict(t='bool', b=False)][rng.randint(8)]


def _random_records(ctx, d, count):
    rng = np.random.RandomState(ctx.seed + 18)
    cells = ([dict(c='int', i=3), dict(c='int', i=-2), dict(c='int', i=123456789), dict(c='bigint', s='b53p1')] +
             [dict(c='float', f=f) for f in ('f15', 'f123456', 'f05')] +
             [dict(c='str', s=s) for s in ('good', 'has_comma', 'has_tab', 'has_quote', 'has_space', 'e5x', 'has_newline', 'has_vt')])
    fields = ['amp', 'cluster_id', 'group']
    recs = []
    for rid in range(1, count + 1):
        if rid % 2:
            key = [dict(k='int', i=int(rng.randint(-5, 100))), dict(k='str', s='name'),
                   dict(k='str', s='n12x'), dict(k='str', s='plusnum')][rng.randint(4)]
            value = _rand_value(rng, 2)
            with ctx.guard('json', dict(key=key, value=value)):
                k, v = json_roundtrip(d, key, value)
                recs.append(dict(id=rid, mode='json', key=key, value=value, outKey=k, out=v))
        else:
            while True:
                rows = []
                for _ in range(rng.randint(1, 7)):
                    fs = [f for f in fields if rng.rand() < 0.6]
                    rows.append([[f, cells[rng.randint(len(cells))]] for f in fs])
                if len(set(f for r in rows for f, _ in r)) >= 2:
                    break
            first = ['cluster_id', 'group', 'absent_field'][rng.randint(3)]
            with ctx.guard('tsv', dict(rows=rows, first=first)):
                header, out = tsv_roundtrip(d, rows, first, ['.tsv', '.csv'][rng.randint(2)])
                recs.append(dict(id=rid, mode='tsv', first=first, rows=rows, header=header, out=out))
        if ctx.abort:
            break
    return recs


def run(ctx):
    ctx.rule = ('S->C: every (key, value) pair over 5 keys x (14 scalars + 162 arrays [6 dtypes x 3 memory '
                'layouts x 9 shapes around the ten-item threshold, rank 0..3, empty] + 75 nested values), '
                'every table of <= 2 rows over 3 fields x 4 cell kinds x 3 first-column requests (and all '
                'one-row tables over 10 cell kinds incl. strings with the other delimiter, quotes, tabs, '
                'spaces, look-alike numerics), every two-column table over 4 ids x 8 cells, every '
                'parameter dictionary over 3 keys x 11 values; all written with the real functions as '
                '.tsv and .csv and read back. Non-trivial = the value needs normalisation or the table '
                'has an absent field. C->S: random deeper dictionaries (11 dtypes, rank 0..3, three '
                'layouts) and larger tables validated by Trace_Serialization.')
    ctx.assumptions += ['string keys are not digit strings; string cells are not numeric literals; '
                        'parameter strings are quote-free; parameter keys are lower-case identifiers '
                        '(domains of the statement)',
                        'floats are tokens from a small table; array elements are small integers']
    ctx.model_check('Serialization', 'MC_Serialization.cfg', timeout=1800,
                    expect_actions=('PickJson', 'PickTsv', 'PickSimple', 'PickPython'),
                    note='Decode o Encode = Normalize; ReadTsv o WriteTsv = rows at written precision')
    ctx.model_check('Serialization', 'MC_Serialization_wide.cfg', timeout=1800,
                    expect_actions=('PickTsv',), note='one-row tables over the full cell alphabet')
    with tmp_dir(ctx) as d:
        for cfg in ('Gen_Serialization.cfg', 'Gen_Serialization_wide.cfg'):
            res, path, n = ctx.generate('Serialization', cfg, timeout=1800)
            k = 0
            for case in tlc.read_cases(path):
                k += 1
                ctx.evaluations += 1
                if case['mode'] == 'json':
                    if case['value'] != case['expect']:
                        ctx.nontrivial += 1
                elif case['mode'] == 'tsv':
                    if len(set(len(r) for r in case['rows'])) > 1:
                        ctx.nontrivial += 1
                else:
                    ctx.nontrivial += 1
                with ctx.guard(case['mode'], case):
                    _compare(ctx, case, d)
                if ctx.abort:
                    return
                if k % 9973 == 1:
                    ctx.sample(case)
            path.unlink()
            if k != n:
                raise MachineryError('replayed %d of %d cases' % (k, n))
        recs = _random_records(ctx, d, 400 if ctx.quick else 20000)
    if ctx.abort or not recs:
        return
    for chunk in [recs[a:a + 1000] for a in range(0, len(recs), 1000)]:
        for rid, clause in ctx.validate('Trace_Serialization', 'Trace_Serialization.cfg', chunk, timeout=1800):
            r = [x for x in recs if x['id'] == rid][0]
            neg = r['mode'] == 'json' and clause == 'key' and r['key'].get('i', 0) < 0
            if clause in ('header', 'DecEnc', 'ReadWrite') and clause != 'TableRoundTrip':
                if clause == 'header' and not (sorted(r['header']) == sorted(set(f for row in r['rows'] for f, _ in row))
                                               and (r['first'] not in r['header'] or r['header'][0] == r['first'])):
                    pass          # a wrong set of columns / first column is a violation
                else:
                    ctx.note(r['mode'], 'recorded round trip differs from the transcription (clause %s)' % clause)
                    continue
            ctx.violation('json-negkey' if neg else r['mode'],
                          'recorded round trip rejected by the specification: clause %s' % clause,
                          dict(record=r, clause=clause))
    ctx.sample(recs[0])


def replay(ctx, doc):
    c = doc['case']
    if 'case' in c:
        with tmp_dir(ctx) as d:
            _compare(ctx, c['case'], d)
    print('replayed: %d violation(s)' % len(ctx.violations))
    for v in ctx.violations[:3]:
        print(v.message)
