# -*- coding: utf-8 -*-
"""C14 - see alf_common.py (the ALF export pipeline is shared by C13 and C14)."""
from . import alf_common

IMPORTS = alf_common.IMPORTS


def run(ctx):
    alf_common.run(ctx, 'C14')


def replay(ctx, doc):
    print('replay: the failing record is self-contained: %r' % (doc['case'].get('record') or doc['case']))
