# -*- coding: utf-8 -*-
"""C03 - every route to a spike waveform yields the same zero-padded raw window.
Spec: spec/Waveforms.tla."""

import numpy as np

from ..core import MachineryError
from .. import tlc
from ..util import as_list, tmp_dir, write_flat, make_cbin

IMPORTS = ('phylib.io.traces',)
NCH = 3
FACTORS = {'i1': 1, 'i2': 2, 'f05': 0.5}
SDTYPES = (np.int64, np.uint64, np.int32, np.uint32)
PATTERNS = [[0, 1], [0, 2], [2, -1], [0, -1], [1, 0], [-1, 1]]


def cells(n):
    return (np.arange(n * NCH) + 1).reshape((n, NCH))


def chans_of(i):      # 0-based spike index -> the spec's rotation of channel patterns
    return PATTERNS[i % 6]


def decode(arr, factor=1):
    """Values -> cell identities (exact: cells are small integers, factors dyadic)."""
    a = np.asarray(arr, dtype=np.float64) / factor
    r = np.rint(a)
    if not np.array_equal(a, r):
        return 'nonintegral'
    return as_list(r.astype(np.int64))


def flat_reader(d, data, sizes, tag=''):
    """A flat multi-file reader whose chunk bounds are exactly the file boundaries."""
    from phylib.io.traces import get_ephys_reader
    paths, a = [], 0
    for k, s in enumerate(sizes):
        p = d / ('w%s_%d.bin' % (tag, 9 + k))    # ..._9, ..._10: given order is not name order
        write_flat(p, data[a:a + s])
        paths.append(p)
        a += s
    arg = paths if len(paths) > 1 else paths[0]
    return get_ephys_reader(arg, sample_rate=1000., dtype=data.dtype, n_channels=NCH)


def run_routes(ctx, d, reader, n, spikes, nsw, fk, sdtype, tag='', list_channels=False):
    """All routes on one reader. Returns the observations in the spec's vocabulary."""
    from phylib.io import traces as T
    from phylib.utils import Bunch
    factor = FACTORS[fk]
    ns = len(spikes)
    ss = np.asarray(spikes, dtype=sdtype)
    sc = np.asarray([chans_of(i) for i in range(ns)], dtype=np.int64)
    obs = {}
    # route 1: direct extraction (from the reader and from the loaded array)
    ex = []
    full = reader[:]
    for i in range(ns):
        ch = sc[i].tolist() if list_channels else sc[i]
        w1 = T.extract_waveforms(reader, ss[i:i + 1], ch, n_samples_waveforms=nsw)
        w2 = T.extract_waveforms(full, ss[i:i + 1], ch, n_samples_waveforms=nsw)
        ex.append(decode(w1[0]) if np.array_equal(w1, w2) else 'reader/array differ')
    obs['extract'] = ex
    # route 2: chunk-by-chunk export
    yields, appended = [], []
    orig_iter = reader.iter_chunks
    writer_cls = getattr(T, 'NpyWriter', None)
    orig_append = getattr(writer_cls, 'append', None)

    def w_iter(cache=True):
        for y in orig_iter(cache=cache):
            yields.append([int(y[0]), int(y[1])])
            yield y

    def w_append(self, chunk):
        appended.append(int(chunk.shape[0]))
        return orig_append(self, chunk)
    reader.iter_chunks = w_iter
    if orig_append is not None:
        writer_cls.append = w_append
    path = d / ('exp%s.npy' % tag)
    try:
        T.export_waveforms(path, reader, ss, sc, n_samples_waveforms=nsw, sample2unit=factor)
    finally:
        del reader.iter_chunks
        if orig_append is not None:
            writer_cls.append = orig_append
    obs['chunks'] = yields
    obs['appended'] = appended
    try:
        loaded = np.load(path)
        obs['shape'] = list(loaded.shape)
        obs['dtype'] = str(loaded.dtype)
        obs['loaded'] = decode(loaded, factor)
    except Exception as e:
        obs['load_error'] = '%s: %s' % (type(e).__name__, e)
        loaded = None
    # route 3: lookup in the exported subset store, queries in several orders
    obs['lookups'] = []
    if loaded is not None and obs['loaded'] != 'nonintegral':
        ids = np.arange(ns) * 2 + 5          # arbitrary stored spike ids
        store = Bunch(spike_ids=ids, spike_channels=sc, waveforms=loaded)
        for cids in ([0], [1, 0], [2, 1, 0], [0, 2]):
            fwd = T.get_spike_waveforms(ids, cids, spike_waveforms=store, n_samples_waveforms=nsw)
            rev = T.get_spike_waveforms(ids[::-1], np.asarray(cids), spike_waveforms=store,
                                        n_samples_waveforms=nsw)
            # a query in a shuffled order (with cycles of every length), un-permuted afterwards
            perm = np.random.RandomState(ns * 7 + len(cids)).permutation(ns)
            shuf = T.get_spike_waveforms(ids[perm], cids, spike_waveforms=store, n_samples_waveforms=nsw)
            unshuf = np.empty_like(shuf)
            unshuf[perm] = shuf
            ok = np.array_equal(fwd, rev[::-1])
            obs['lookups'].append([cids, decode(fwd, factor) if ok else 'order-dependent'])
            obs.setdefault('lookups_shuffled', []).append([cids, decode(unshuf, factor)])
    return obs


def _compare(ctx, case, k, d):
    n, nsw, fk = case['n'], case['nsw'], case['fk']
    data = cells(n).astype(case['dt'])
    sizes = [b - a for a, b in case['chunks']]
    reader = flat_reader(d, data, sizes, tag=str(k % 7))
    sdtype = SDTYPES[k % 4]
    obs = run_routes(ctx, d, reader, n, case['spikes'], nsw, fk, sdtype, tag=str(k % 7),
                     list_channels=(k % 2 == 0))
    ctx.traces += 1
    ns = len(case['spikes'])
    exp_batches = [len(b) for b in case['batches'] if b]
    exp_lookups = sorted([[c, w] for c, w in case['lookups']], key=lambda x: repr(x[0]))
    got_lookups = sorted(obs['lookups'], key=lambda x: repr(x[0]))
    if obs['chunks'] != case['chunks'] or obs['appended'] != exp_batches:
        # how the export walks the recording (which intervals, which batches) is an implementation detail;
        # the exported file, the direct extraction and the store lookups decide the property
        ctx.note('batches', 'export batches %r over chunks %r, transcription %r over %r' % (
            obs['appended'], obs['chunks'], exp_batches, case['chunks']))
    ok = (obs['extract'] == case['windows'] and 'load_error' not in obs and
          obs.get('shape') == [ns, nsw, 2] and obs.get('dtype') == case['decl']['dtype'] and
          obs.get('loaded') == case['windows'] and got_lookups == exp_lookups and
          sorted(obs.get('lookups_shuffled', []), key=lambda x: repr(x[0])) == exp_lookups)
    if not ok:
        key = 'route'
        ctx.violation(key, 'waveform routes differ from the specification (n=%d chunks=%r spikes=%r/%s '
                      'nsw=%d %s x %s): %s' % (n, case['chunks'], case['spikes'], np.dtype(sdtype).name,
                                               nsw, case['dt'], fk, _first_diff(obs, case, exp_batches)),
                      dict(case=case, k=k, spike_dtype=np.dtype(sdtype).name, observed=obs))


def model_route(ctx, d, rng, n, spikes, nsw, tag):
    """TemplateModel.get_waveforms over the same recording (cell identities, int16) with a PARTIAL spike-subset
    store written by save_spikes_subset_waveforms: requests of stored spikes, of stored and non-stored spikes
    (incl. a non-stored id below the largest stored one) and of non-stored spikes only."""
    from .. import datasets as D
    ns = len(spikes)
    # the store is exported with a unit factor (windows times the factor); the raw-data fallback returns samples
    factor = [1., 2, 0.5, 2.][int(rng.randint(4))]
    ds = D.random_dense(rng, ns=ns, nt=2, nc=NCH, nsw=nsw, raw=True)
    ds['samples'] = np.asarray(spikes)
    ds['chmap'] = np.arange(NCH)
    ds['raw'] = cells(n)
    ds['sc'] = None
    p = D.write_dataset(d / ('m%s' % tag), ds)
    m = D.load(p)
    try:
        m.save_spikes_subset_waveforms(max_n_spikes_per_template=int(rng.randint(1, 3)), max_n_channels=int(rng.randint(1, NCH + 1)),
                                       sample2unit=factor)
    finally:
        m.close()
    m = D.load(p)
    out = []
    try:
        sw = m.spike_waveforms
        if sw is None:
            raise ValueError('the exported spike-subset store was not loaded')
        stored = [int(x) for x in np.asarray(sw.spike_ids)]
        stch = {sid: [int(c) for c in np.asarray(sw.spike_channels)[j]] for j, sid in enumerate(stored)}
        others = [i for i in range(ns) if i not in stch]
        reqs = [list(rng.permutation(stored))[:3]]
        below = [i for i in others if i < max(stored)]
        if others:
            reqs.append(sorted(stored[:2] + (below[:1] or others[:1])))
            reqs.append(others[:2])
        for req in reqs:
            cids = [int(c) for c in rng.permutation(NCH)[:int(rng.randint(1, NCH + 1))]]
            w = m.get_waveforms(np.asarray(req, dtype=np.int64), np.asarray(cids))
            all_stored = all(i in stch for i in req)
            o = decode(np.asarray(w), factor if all_stored else 1)
            if isinstance(o, str) or np.asarray(w).shape != (len(req), nsw, len(cids)):
                raise ValueError('get_waveforms(%r, %r) returned shape %r / values that are not samples of the '
                                 'recording' % (req, cids, np.asarray(w).shape))
            out.append(dict(idx=[int(i) + 1 for i in req], cids=cids, allStored=all_stored,
                            stchans=[stch.get(i, []) for i in req], out=o))
    finally:
        m.close()
    return out


def _first_diff(obs, case, exp_batches):
    if 'load_error' in obs:
        return 'exported file does not load: ' + obs['load_error']
    if obs['extract'] != case['windows']:
        return 'extract_waveforms %r, expected %r' % (obs['extract'], case['windows'])
    if obs.get('dtype') != case['decl']['dtype'] or obs.get('loaded') != case['windows']:
        return 'loaded %s %r, expected %r' % (obs.get('dtype'), obs.get('loaded'), case['windows'])
    return 'store lookups differ'


def _random_records(ctx, count):
    import mtscomp
    from phylib.io.traces import get_ephys_reader
    rng = np.random.RandomState(ctx.seed + 3)
    recs = []
    with tmp_dir(ctx) as d:
        for rid in range(1, count + 1):
            n = int(rng.randint(1, 80))          # cell ids must stay exact in int16/float32
            nsw = int(rng.randint(1, 13))
            ns = int(rng.randint(1, 40))
            near = [0, n - 1, min(n - 1, nsw // 2), max(0, n - 1 - nsw // 2)]
            spikes = sorted([int(x) for x in rng.randint(0, n, size=ns)] +
                            [near[int(x)] for x in rng.randint(0, 4, size=3)])
            dt = ['int16', 'float32', 'float64'][rng.randint(3)]
            fk = ['i1', 'i2', 'f05'][rng.randint(3)]
            data = cells(n).astype(dt)
            rd = None
            if rid % 3 == 0 and dt == 'int16':
                cs = int(rng.randint(1, max(2, n // 2 + 1)))
                cbin, ch = make_cbin(d, data, chunk_samples=cs, name='r%d' % rid)
                rd = mtscomp.Reader(n_threads=int(rng.randint(1, 5)))
                rd.open(cbin, ch)
                reader = get_ephys_reader(rd)
            else:
                nparts = int(rng.randint(1, min(n, 6) + 1))
                cuts = sorted(set(int(x) for x in rng.choice(np.arange(1, n), size=nparts - 1,
                                                             replace=False))) if n > 1 and nparts > 1 else []
                b = [0] + cuts + [n]
                reader = flat_reader(d, data, [b[q + 1] - b[q] for q in range(len(b) - 1)], tag='r%d' % rid)
            # spikes exactly on chunk bounds
            cb = [int(x) for x in reader.chunk_bounds if x < n]
            spikes = sorted(spikes + cb[:3])
            obs = None
            inp = dict(n=n, spikes=spikes, nsw=nsw, dt=dt, fk=fk)
            with ctx.guard('route', inp):
                # (Python-list channel lists, with their -1 entries, on every other recording)
                obs = run_routes(ctx, d, reader, n, spikes, nsw, fk, SDTYPES[rid % 4], tag='r%d' % rid,
                                 list_channels=bool(rid % 2))
            if rd is not None:
                rd.close()
            if obs is None:
                if ctx.abort:
                    return recs
                continue
            ns_all = len(spikes)
            # batches as spike indices (1-based), reconstructed from the batch sizes in spike order
            sizes, batches, a = obs['appended'], [], 0
            for s in sizes:
                batches.append(list(range(a + 1, a + s + 1)))
                a += s
            bad = 'load_error' in obs or obs.get('loaded') == 'nonintegral' or any(
                isinstance(e, str) for e in obs['extract'])
            model = []
            if nsw >= 2 and not bad:
                with ctx.guard('route', dict(inp, route='model')):
                    model = model_route(ctx, d, rng, n, spikes, nsw, 'r%d' % rid)
                if ctx.abort:
                    return recs
            recs.append(dict(
                id=rid, n=n, chunks=obs['chunks'], spikes=spikes, nsw=nsw, dt=dt, fk=fk, model=model,
                batches=batches, loaded=[] if bad else obs['loaded'],
                declOk=(not bad) and obs.get('shape') == [ns_all, nsw, 2] and obs.get('dtype') == 'float64',
                extract=[] if bad else obs['extract'],
                lookups=[] if bad else obs.get('lookups_shuffled', [])))
    return recs


def run(ctx):
    sfx = '' if ctx.quick else '_thorough'
    ctx.rule = ('S->C: every (recording length, chunk grid, sorted spike multiset incl. 0 / last sample / '
                'chunk boundaries, window length, sample type, unit factor) within the constants, '
                'realised as flat multi-file recordings whose chunk bounds are the grid; per case: direct '
                'extraction (reader and array, channel list as array and as list), chunked export + '
                'np.load (shape, dtype, values, batches per chunk), lookups in the exported store in two '
                'query orders x 4 channel lists; spike vectors int64/uint64/int32/uint32. Non-trivial = a '
                'window overhangs the recording or there is more than one chunk. C->S: random larger '
                'recordings incl. .cbin, validated by Trace_Waveforms.')
    ctx.assumptions += ['cells hold their identity r * 3 + c + 1 (< 256, exact in every sample type)',
                        'unit factors are dyadic (1, 2, 0.5) so that division recovers identities exactly',
                        'spikes lie in [0, n) (export asserts the declared element count otherwise)']
    ctx.model_check('Waveforms', 'MC_Waveforms%s.cfg' % sfx, timeout=3000,
                    expect_actions=('Pick', 'Pick2', 'OpenWriter', 'ProcessChunk', 'CloseWriter'),
                    note='window arithmetic, chunk assignment, declared-vs-written, store lookup')
    res, path, n = ctx.generate('Waveforms', 'Gen_Waveforms%s.cfg' % sfx, timeout=3000)
    k = 0
    # every case costs a few milliseconds (real files are written): beyond 120 k generated cases a regular
    # stride over the (sorted) case file is replayed and the run is marked as not exhaustive
    stride = max(1, -(-n // 120000))
    if stride > 1:
        ctx.exhaustive = False
    with tmp_dir(ctx) as d:
        for case in tlc.read_cases(path):
            k += 1
            if k % stride:
                continue
            # the sample type x factor dimension is replayed on a third of the geometry (it only
            # changes dtypes); every geometry is replayed at least three times
            ctx.evaluations += 1
            over = any(0 in row for w in case['windows'] for row in w)
            if over or len(case['chunks']) > 1:
                ctx.nontrivial += 1
            with ctx.guard('route', case):
                _compare(ctx, case, k, d)
            if ctx.abort:
                return
            if k % 9001 == 1:
                ctx.sample(dict((a, case[a]) for a in ('n', 'chunks', 'spikes', 'nsw', 'dt', 'fk', 'windows', 'batches')))
    path.unlink()
    if k != n:
        raise MachineryError('replayed %d of %d cases' % (k, n))
    recs = _random_records(ctx, 150 if ctx.quick else 1500)
    if ctx.abort or not recs:
        return
    ctx.part(kind='note', model_route_requests=sum(len(r['model']) for r in recs),
             model_route_fallback_requests=sum(1 for r in recs for e in r['model'] if not e['allStored']))
    for chunk in [recs[a:a + 300] for a in range(0, len(recs), 300)]:
        for rid, clause in ctx.validate('Trace_Waveforms', 'Trace_Waveforms.cfg', chunk, timeout=3000):
            r = [x for x in recs if x['id'] == rid][0]
            if clause in ('batches', 'ChunksTile', 'loaded'):
                ctx.note('batches', 'recorded export batches / chunk intervals differ from the transcription (clause %s)' % clause)
                continue
            ctx.violation('route', 'recorded export rejected by the specification: clause %s' % clause,
                          dict(record=r, clause=clause))


def replay(ctx, doc):
    c = doc['case']
    if 'case' in c:
        with tmp_dir(ctx) as d:
            _compare(ctx, c['case'], c.get('k', 1), d)
    print('replayed: %d violation(s)' % len(ctx.violations))
    for v in ctx.violations[:3]:
        print(v.message)
