# -*- coding: utf-8 -*-
"""C01 - raw-data reader indexing equals NumPy indexing of the concatenated recording.
Spec: spec/EphysReader.tla."""

import numpy as np

from ..core import MachineryError
from .. import tlc
from ..util import as_list, tmp_dir, write_flat, make_cbin

IMPORTS = ('phylib.io.traces',)
NCH = 3
NONE = 99
RATE = 64.0
SLOW = 1.0 / 300       # 600 s = 2 samples


def NATIVE(dtype):
    """Sample type up to byte order (concatenating big-endian files gives NumPy's native type with the same values)."""
    return str(np.dtype(dtype).newbyteorder('='))


def DTNAME(dtype):
    """A file-name-safe name that keeps the byte order apart (int16 vs big-endian int16)."""
    d = np.dtype(dtype)
    return d.name + ('_be' if d.byteorder == '>' else '')


def cells(n, nch=NCH):
    """The recording whose cell (r, c) holds the identity r * nch + c + 1."""
    return (np.arange(n * nch) + 1).reshape((n, nch))


def col_selector(kind, nch=NCH):
    if kind == 'slice':
        return slice(1, nch)
    if kind == 'rev':
        return slice(None, None, -1)
    if kind == 'list':
        return [0, nch - 1] if nch > 1 else [0]
    if kind == 'perm':
        return [(j + 1) % nch for j in range(1, nch + 1)]
    raise MachineryError(kind)


def make_item(req, as_array=False):
    if req['k'] == 'int':
        # (as_array: the same integer as a NumPy integer scalar, e.g. an element of a spike-sample array)
        return (np.int64(req['a']) if req['a'] % 2 else np.int32(req['a'])) if as_array else req['a']
    if req['k'] == 'slice':
        return slice(None if req['a'] == NONE else req['a'], None if req['b'] == NONE else req['b'])
    return np.asarray(req['idx'], dtype=np.int64) if as_array else list(req['idx'])


class Readers(object):
    """Real readers over one layout; kept open while the layout's cases are replayed."""

    def __init__(self, ctx, parts, variants, with_single=True):
        from phylib.io.traces import get_ephys_reader
        self.cm = tmp_dir(ctx)
        d = self.cm.__enter__()
        self.readers = []   # (name, reader, dtype, supports_list)
        self.rates = {}     # readers opened at another sampling rate than RATE
        n = sum(parts)
        full = cells(n)
        bounds = np.r_[0, np.cumsum(parts)]
        for offset, dtype in variants:
            paths = []
            for k in range(len(parts)):
                p = d / ('p%d_%d_%s.bin' % (9 + k, offset, DTNAME(dtype)))   # p9, p10, ...: given order is not name order
                write_flat(p, full[bounds[k]:bounds[k + 1]].astype(dtype), offset=offset)
                paths.append(p)
            arg = paths if len(paths) > 1 else paths[0]
            r = get_ephys_reader(arg, sample_rate=RATE, dtype=dtype, n_channels=NCH, offset=offset)
            self.readers.append(('flat+%d/%s' % (offset, DTNAME(dtype)), r, np.dtype(dtype), True))
            if offset == 0:
                # the same files at a sampling rate that makes the 600 s chunk TWO samples long: file lengths are
                # then multiples of the chunk length or not (shape / n_samples / duration come from the chunk bounds)
                r2 = get_ephys_reader(arg, sample_rate=SLOW, dtype=dtype, n_channels=NCH, offset=offset)
                self.rates['slow/%s' % DTNAME(dtype)] = SLOW
                self.readers.append(('slow/%s' % DTNAME(dtype), r2, np.dtype(dtype), True))
        if with_single and len(parts) == 1:
            a = full.astype(np.int16)
            self.readers.append(('array', get_ephys_reader(a, sample_rate=RATE), a.dtype, True))
            np.save(d / 'a.npy', full.astype(np.int32))
            self.readers.append(('npy', get_ephys_reader(d / 'a.npy', sample_rate=RATE),
                                 np.dtype(np.int32), True))
            np.save(d / 'af.npy', np.asfortranarray(full.astype(np.int32)))       # the same array in Fortran order
            self.readers.append(('npyF', get_ephys_reader(d / 'af.npy', sample_rate=RATE),
                                 np.dtype(np.int32), True))
            for cs in (2, 5):
                cbin, ch = make_cbin(d, full.astype(np.int16), chunk_samples=cs,
                                     sample_rate=RATE, name='c%d' % cs)
                self.readers.append(('cbin/%d' % cs, get_ephys_reader(cbin), np.dtype(np.int16), False))

        # a request OUTSIDE the domain (a row index past the end, with a column selector) before any other: whatever
        # it does, it must leave nothing behind in the reader
        for name, r, _, lists in self.readers:
            try:
                r[n, [0]] if lists else r[n]
            except Exception:
                pass

    def close(self):
        for name, r, _, _ in self.readers:
            rd = getattr(r, 'reader', None)
            if rd is not None:
                rd.close()
        self.readers = []
        self.cm.__exit__(None, None, None)


def read(reader, req, cols, as_array=False):
    """Index the real reader; project the result to (rows, cols, shape, dtype) through the cell
    identities, or a string describing why it cannot be decoded."""
    from phylib.io.traces import BaseEphysReader
    item = make_item(req, as_array)
    out = reader[item] if cols == 'none' else reader[item, col_selector(cols)]
    lazy = isinstance(out, BaseEphysReader)
    if lazy:
        # reader[:, cols] is a reader again (C02); its contents are what is compared
        out = out[:]
    out = np.asarray(out)
    if out.ndim != 2:
        return dict(error='ndim %d' % out.ndim)
    if out.shape[0] and out.shape[1]:
        ids = np.rint(out.astype(np.float64)).astype(np.int64) - 1
        r, c = ids // NCH, ids % NCH
        if not (np.all(r == r[:, :1]) and np.all(c == c[:1, :])):
            return dict(error='not a row/column sub-matrix', values=as_list(out))
        rows, colsout = as_list(r[:, 0]), as_list(c[0, :])
    else:
        rows, colsout = [], []
    return dict(rows=rows, cols=colsout, shape=list(out.shape), dtype=NATIVE(out.dtype), lazy=lazy)


def attrs_of(reader):
    return dict(shape=as_list(reader.shape), n_samples=int(reader.n_samples),
                n_channels=int(reader.n_channels), dtype=NATIVE(reader.dtype),
                duration=float(reader.duration), part_bounds=as_list(reader.part_bounds))


def _compare(ctx, case, rd):
    n = case['n']
    req, cols = case['req'], case['cols']
    for name, reader, dtype, lists in rd.readers:
        if req['k'] == 'list' and not lists:
            continue
        for as_array in ((False, True) if req['k'] in ('list', 'int') else (False,)):
            ctx.traces += 1
            obs = None
            with ctx.guard('index', dict(case=case, backend=name, as_array=as_array)):
                obs = read(reader, req, cols, as_array)
            if obs is None:
                continue
            exp_shape = [len(case['rows']), len(case['colsOut'])]
            if (obs.get('rows') != case['rows'] or obs.get('cols') != case['colsOut'] or
                    obs.get('shape') != exp_shape or obs.get('dtype') != NATIVE(dtype)):
                ctx.violation('index', '%s reader over parts %r: item %r cols %s returned %r; '
                              'specification rows %r cols %r dtype %s' % (
                                  name, case['parts'], req, cols, obs, case['rows'],
                                  case['colsOut'], dtype),
                              dict(case=case, backend=name, as_array=as_array, observed=obs))


def _check_attrs(ctx, parts, rd):
    n = sum(parts)
    bounds = [0]
    for p in parts:
        bounds.append(bounds[-1] + p)
    for name, reader, dtype, _ in rd.readers:
        a = attrs_of(reader)
        exp = dict(shape=[n, NCH], n_samples=n, n_channels=NCH, dtype=NATIVE(dtype),
                   duration=n / rd.rates.get(name, RATE), part_bounds=bounds if not name.startswith('cbin') else [0, n])
        if a != exp:
            ctx.violation('attrs', '%s reader over parts %r has attributes %r, expected %r' % (
                name, parts, a, exp), dict(parts=parts, backend=name, observed=a, expected=exp))


def _project_sub(subitems):
    out = []
    for chunk, si in subitems:
        if isinstance(si, slice):
            out.append(dict(part=int(chunk), lo=int(si.start), hi=int(si.stop)))
        elif isinstance(si, (int, np.integer)):
            out.append(dict(part=int(chunk), lo=int(si), hi=int(si) + 1))
        else:
            out.append(dict(part=int(chunk), idx=as_list(np.asarray(si))))
    return out


def _random_records(ctx, count):
    """C->S: random larger layouts; wrappers log _get_subitems and _get_part."""
    from phylib.io import traces
    rng = np.random.RandomState(ctx.seed + 1)
    recs = []
    rid = 0
    layout = 0
    dtypes = [np.uint8, np.int16, np.int32, np.float32, np.float64]
    while len(recs) < count:
        nparts = int(rng.randint(1, 7))
        parts = [int(x) for x in rng.randint(1, 14, size=nparts)]
        layout += 1
        if layout % 3 == 2:
            # MANY short files (9..16): index lists then touch parts with two-digit indices together with low ones
            nparts = int(rng.randint(9, 17))
            parts = [int(x) for x in rng.randint(1, 4, size=nparts)]
        n = sum(parts)
        if n * NCH + 1 > 250:
            continue
        rd = Readers(ctx, parts, [(int(rng.choice([0, 3, 7, 64])), dtypes[rng.randint(len(dtypes))])],
                     with_single=False)
        name, reader, dtype, _ = rd.readers[0]
        log = {}
        # internal steps are observed when the helpers still exist under these names; otherwise only the
        # result is judged (NumpyRows / NumpyCols), the I-layer clauses become notes
        orig_sub = getattr(traces, '_get_subitems', None)
        orig_part = getattr(reader, '_get_part', None)

        def w_sub(bounds, item):
            out = orig_sub(bounds, item)
            log.setdefault('sub', out)
            return out

        def w_part(part_idx, subitem):
            out = orig_part(part_idx, subitem)
            log.setdefault('reads', []).append(int(np.atleast_2d(out).shape[0]))
            return out
        if orig_sub is not None:
            traces._get_subitems = w_sub
        if orig_part is not None:
            reader._get_part = w_part
        try:
            for _ in range(12):
                u = rng.rand()
                if u < 0.25:
                    req = dict(k='int', a=int(rng.randint(-n, n)))
                elif u < 0.65:
                    while True:
                        a = NONE if rng.rand() < 0.2 else int(rng.randint(-n, n + 1))
                        b = NONE if rng.rand() < 0.2 else int(rng.randint(-n, n + 1))
                        if len(np.arange(n)[make_item(dict(k='slice', a=a, b=b))]):
                            break
                    req = dict(k='slice', a=a, b=b)
                else:
                    m = int(rng.randint(1, min(n, 10) + 1))
                    req = dict(k='list', idx=sorted(int(x) for x in rng.choice(n, size=m, replace=False)))
                cols = ['none', 'slice', 'rev', 'list', 'perm'][rng.randint(5)]
                log.clear()
                obs = None
                with ctx.guard('index', dict(parts=parts, req=req, cols=cols)):
                    obs = read(reader, req, cols, as_array=bool(rng.randint(2)))
                if obs is None or 'error' in obs:
                    if obs is not None:
                        ctx.violation('index', 'undecodable result %r' % obs, dict(parts=parts, req=req, cols=cols))
                    continue
                if obs['lazy']:
                    continue    # reader[:, cols]: the rows were fetched by the derived reader's [:]
                rid += 1
                recs.append(dict(id=rid, parts=parts, req=req, cols=cols,
                                 sub=_project_sub(log.get('sub', [])), nreads=log.get('reads', []),
                                 rows=obs['rows'], colsOut=obs['cols']))
        finally:
            if orig_sub is not None:
                traces._get_subitems = orig_sub
            if orig_part is not None:
                del reader._get_part
            rd.close()
    return recs


def run(ctx):
    sfx = '' if ctx.quick else '_thorough'
    ctx.rule = ('S->C: every layout (all compositions of n <= MaxN into parts) x every supported item '
                '(all integers in [-n, n), all slices with bounds in [-n, n] or None selecting >= 1 row, '
                'all strictly increasing lists, as list and as ndarray) x 5 column selectors, replayed '
                'on flat readers (header offsets, sample types), and for single-part layouts on '
                '.npy / in-memory / .cbin readers; rows and columns are decoded from the returned '
                'VALUES; non-trivial = the request spans more than one part or carries a column '
                'selector. C->S: random larger layouts with wrappers on _get_subitems/_get_part.')
    ctx.assumptions += ['cells hold their own identity (r * n_channels + c + 1), so equality of values '
                        'is equality of positions for every sample type',
                        'reader[:, cols] returns a reader (C02); its [:] is compared']
    ctx.model_check('EphysReader', 'MC_EphysReader%s.cfg' % sfx, timeout=3000,
                    expect_actions=('Open', 'Request', 'Split', 'ReadPart', 'Stack', 'Cols'),
                    note='_get_subitems transcription = NumPy row selection; sub-items well formed')
    res, path, n = ctx.generate('EphysReader', 'Gen_EphysReader%s.cfg' % sfx, timeout=3000)
    by_layout = {}
    k = 0
    for case in tlc.read_cases(path):
        k += 1
        by_layout.setdefault(tuple(case['parts']), []).append(case)
    path.unlink()
    if k != n:
        raise MachineryError('read %d of %d cases' % (k, n))
    # ('>i2': samples in NON-native byte order)
    variants = [(0, np.int16), (3, np.uint8), (7, np.float32), (0, np.dtype('>i2'))] if ctx.quick else [
        (0, np.int16), (3, np.uint8), (7, np.float32), (0, np.int32), (3, np.float64), (64, np.int16), (0, np.dtype('>i2')), (3, np.dtype('>f4'))]
    for parts, cases in sorted(by_layout.items()):
        rd = None
        with ctx.guard('open', dict(parts=list(parts))):
            rd = Readers(ctx, list(parts), variants)
        if rd is None:
            return
        try:
            _check_attrs(ctx, list(parts), rd)
            for case in cases:
                ctx.evaluations += 1
                if len(case['sub']) > 1 or case['cols'] != 'none':
                    ctx.nontrivial += 1
                _compare(ctx, case, rd)
                if ctx.abort:
                    return
            ctx.sample(dict((a, cases[0][a]) for a in ('parts', 'req', 'cols', 'sub', 'rows', 'colsOut')), limit=4)
        finally:
            rd.close()
    recs = _random_records(ctx, 1500 if ctx.quick else 8000)
    if ctx.abort:
        return
    for chunk in [recs[a:a + 1000] for a in range(0, len(recs), 1000)]:
        for rid, clause in ctx.validate('Trace_EphysReader', 'Trace_EphysReader.cfg', chunk, timeout=3000):
            if clause in ('sub', 'reads', 'SubitemsWellFormed'):
                # how the request was split over the files is an implementation detail: the returned
                # rows and columns (clauses rows / cols / NumpyRows / NumpyCols) decide the property
                ctx.note('split', 'sub-items / part reads differ from the transcription (clause %s): %r' % (
                    clause, recs[rid - 1]))
                continue
            ctx.violation('trace', 'recorded reader call rejected by the specification: clause %s'
                          % clause, dict(record=recs[rid - 1], clause=clause))
    ctx.sample(recs[0])


def replay(ctx, doc):
    c = doc['case']
    if 'case' in c and 'parts' in c['case']:
        rd = Readers(ctx, c['case']['parts'], [(0, np.int16), (3, np.uint8), (7, np.float32)])
        try:
            _compare(ctx, c['case'], rd)
        finally:
            rd.close()
    print('replayed: %d violation(s)' % len(ctx.violations))
    for v in ctx.violations[:3]:
        print(v.message)
