# -*- coding: utf-8 -*-
"""C04 - loading a dataset reproduces its files under every supported layout. Spec: spec/Dataset.tla.

TLC enumerates the configuration lattice (naming x presence of every optional file x an item present
under both names) and states, per attribute, which FILE it must come from (or which documented
default), which files the loader may create, and that nothing else changes. The harness fills in
random contents, hashes the directory, loads it, hashes it again and compares."""

import shutil

import numpy as np

from ..core import MachineryError
from .. import tlc
from ..util import as_list, tmp_dir, dir_digest
from .. import datasets as D

IMPORTS = ('phylib.io.model',)
ID_DTYPES = (np.int32, np.uint32, np.int64, np.uint16)
TIME_DTYPES = (np.uint64, np.int64, np.int32, np.uint32)


def build(rng, case, k):
    """Random logical contents for one configuration."""
    present = set(case['present'])
    ns, nt, nc = int(rng.randint(3, 12)), int(rng.randint(2, 5)), int(rng.randint(2, 6))
    sparse = 'Tind' in present
    ds = D.random_dense(rng, ns=ns, nt=nt, nc=nc, nsw=int(rng.randint(2, 5)),
                        whitening='monomial' if 'wm' in present else 'none',
                        shanks='shanks' in present, amps='amps' in present,
                        rate=[1024, 2048, 32768][k % 3])
    if 'wm' in present:
        ds['wmi'] = ds['wmi_eff'] if 'wmi' in present else None
    elif 'wmi' in present:
        ds['wmi'] = D.monomial(rng, nc)[1]       # an inverse file WITHOUT the matrix file: loaded as it is
    ds['sc'] = (ds['st'] + (np.arange(ns) % 2) * nt) if 'sc' in present else None
    ds['probes'] = (np.arange(nc) // max(1, nc // 2)) if 'probes' in present else None
    if sparse:
        nloc = int(rng.randint(2, nc + 1))
        ds['Tind'] = np.asarray([rng.permutation(nc)[:nloc] for _ in range(nt)])
        ds['T'] = rng.randint(-3, 4, size=(nt, ds['T'].shape[1], nloc)).astype(float)
    ds['sim'] = rng.randint(0, 5, size=(nt, nt)).astype(float) if 'sim' in present else None
    if 'pcf' in present:
        nloc = max(2, min(nc, 3))
        ds['pcind'] = np.asarray([rng.permutation(nc)[:nloc] for _ in range(nt)])
        ds['pcf'] = rng.randint(-2, 4, size=(ns, 3, nloc)).astype(float)
    if 'tf' in present:
        ds['tfind'] = np.asarray([rng.permutation(nt)[:2] for _ in range(nt)])
        ds['tf'] = rng.randint(-2, 4, size=(ns, 2)).astype(float)
    # NaN / inf entries: scrubbed in fully loaded arrays, kept in memory-mapped ones
    if ds['amps'] is not None and ns > 2:
        ds['amps'][rng.randint(ns)] = np.nan
        ds['amps'][rng.randint(ns)] = np.inf
    if ds['sim'] is not None:
        ds['sim'][0, 0] = -np.inf
    if (k // 4) % 2:
        ds['aux_fortran'] = True          # whitening / similarity / 2-D attributes stored in Fortran order
    if (k // 2) % 2:
        ds['aux_dtype'] = np.float32      # amplitudes / whitening / similarity stored in single precision
    ds['T'][0, 0, 0] = np.nan
    if k % 4 == 1:
        ds['T'][nt - 1] = np.nan          # an all-NaN template: zeroed in the model, NOT on disk
    if k % 3 == 0:
        ds['raw'] = rng.randint(-50, 50, size=(int(ds['samples'][-1]) + 4, nc + k % 2))
        ds['chmap'] = rng.permutation(ds['raw'].shape[1])[:nc]
        if k % 12 == 3:
            ds['chmap'] = np.arange(nc)   # the identity map over a raw file with one more channel: the last column is dropped
    # per-spike attributes: matching length (1-D, (n, 2) positions, 4-D), and one of another length (ignored)
    ds['attrs'] = {'foo': rng.randint(0, 9, size=ns), 'bar': rng.randint(0, 9, size=ns + 1),
                   'positions': rng.randint(0, 9, size=(ns, 2)), 'deep': rng.randint(0, 9, size=(ns, 3, 1, 2)),
                   'weights': np.where(rng.rand(ns, 2) < 0.2, np.nan, rng.randint(0, 9, size=(ns, 2)).astype(float))}
    return ds


def scrub(a):
    a = np.array(a, dtype=np.float64 if np.asarray(a).dtype.kind == 'f' else None)
    if a.dtype.kind == 'f':
        a[~np.isfinite(a)] = 0
    return a


def same(a, b):
    a, b = np.asarray(a), np.asarray(b)
    return a.shape == b.shape and np.array_equal(a.astype(np.float64), b.astype(np.float64), equal_nan=True)


def check_case(ctx, d, rng, case, k):
    ds = build(rng, case, k)
    dd = d / 'ds'
    shutil.rmtree(dd, ignore_errors=True)
    naming = case['naming']
    p = D.write_dataset(dd, ds, naming=naming, col1=bool(k % 2), id_dtype=ID_DTYPES[k % 4],
                        time_dtype=TIME_DTYPES[(k // 2) % 4], float_dtype=[np.float32, np.float64][k % 2],
                        alf_samples='samples' in case['present'],
                        alf_jitter=(np.linspace(-0.3, 0.3, len(ds['samples'])) if k % 2 else None))
    # an item present under BOTH names: the other-named file holds different contents
    other = D.ALF if naming == 'ks' else D.KS
    for b in case['both']:
        src = dd / (D.KS if naming == 'ks' else D.ALF)[b]
        if not src.exists():
            continue                       # the item is absent in this configuration
        arr = np.load(src)
        if b == 'chmap':
            alt = arr[::-1].copy()         # another valid channel map
        elif b == 'st':
            alt = ((arr.astype(np.int64) + 1) % ds['T'].shape[0]).astype(arr.dtype)
        elif b == 'T':
            alt = arr * 2 + 1
        else:
            alt = arr + 1
        np.save(dd / other[b], alt)
    files = sorted(x.name for x in dd.iterdir())
    expected_files = sorted(set(case['files']) | {'params.py', 'spike_foo.npy', 'spike_bar.npy', 'spike_positions.npy', 'spike_deep.npy', 'spike_weights.npy'} |
                            ({'raw.dat'} if ds.get('raw') is not None else set()))
    if files != expected_files:
        raise MachineryError('materialised files %r, configuration says %r' % (files, expected_files))
    before = dir_digest(dd)
    contents = {f: np.load(dd / f) for f in files if f.endswith('.npy')}
    problems = []
    m = D.load(p)
    try:
        after = dir_digest(dd)
        created = sorted(set(after) - set(before))
        changed = sorted(f for f in before if after.get(f) != before[f])
        if created != sorted(case['created']):
            problems.append('created %r, specification %r' % (created, sorted(case['created'])))
        if changed:
            problems.append('pre-existing files changed: %r' % changed)
        rate = float(ds['rate'])
        got = dict(spike_samples=m.spike_samples, spike_times=m.spike_times,
                   spike_templates=m.spike_templates, spike_clusters=m.spike_clusters,
                   amplitudes=m.amplitudes, channel_mapping=m.channel_mapping,
                   channel_positions=m.channel_positions, channel_shanks=m.channel_shanks,
                   channel_probes=m.channel_probes, templates=m.sparse_templates.data,
                   template_cols=m.sparse_templates.cols, wm=m.wm, wmi=m.wmi,
                   similar_templates=m.similar_templates)
        nc, nt = len(ds['chmap']), ds['T'].shape[0]
        for a, e in case['attr'].items():
            if a in ('features', 'template_features'):
                continue          # not among the attributes the statement lists
            if e['kind'] == 'file':
                exp = contents[e['name']].squeeze()
                if e['scrub']:
                    exp = scrub(exp)
                if a == 'templates':
                    exp = np.array(np.atleast_3d(exp), dtype=np.float64)
                    exp[np.all(np.all(np.isnan(exp), axis=1), axis=1)] = 0     # all-NaN templates read as zero
                ok = got[a] is not None and same(got[a], exp)
            else:
                w = e['what']
                if w == 'None' or w.startswith('None'):
                    ok = got[a] is None
                elif w == 'samples / rate':
                    ok = same(got[a], contents['spike_times.npy'].squeeze() / rate)
                elif w == 'round(times * rate)':
                    ok = same(got[a], np.round(contents['spikes.times.npy'].squeeze() * rate))
                elif w == 'copy of spike templates':
                    ok = same(got[a], got['spike_templates']) and same(
                        np.load(dd / 'spike_clusters.npy').squeeze(), got['spike_templates'])
                elif w == 'zeros(n_channels)':
                    ok = same(got[a], np.zeros(nc))
                elif w == 'identity':
                    ok = same(got[a], np.eye(nc))
                elif w == 'inverse of wm':
                    ok = same(got[a], ds['wmi_eff']) and same(np.load(dd / 'whitening_mat_inv.npy'), ds['wmi_eff'])
                elif w == 'zeros(n_templates, n_templates)':
                    ok = same(got[a], np.zeros((nt, nt)))
                else:
                    raise MachineryError('unknown default token %r' % w)
            if not ok:
                problems.append('%s is not %s (%r)' % (a, e.get('name', e.get('what')), as_list(got[a]) if got[a] is not None else None))
        # extra per-spike attribute arrays of matching length
        sa = m.spike_attributes
        if ('bar' in sa or any(a not in sa or not same(sa[a], np.asarray(ds['attrs'][a]).squeeze())
                               for a in ('foo', 'positions', 'deep'))
                or 'weights' not in sa or not same(sa['weights'], np.nan_to_num(np.asarray(ds['attrs']['weights']), nan=0.0))):
            problems.append('spike attributes %r' % sorted(sa))
        # raw traces: columns permuted by the channel map
        if ds.get('raw') is not None:
            cmap = contents[case['attr']['channel_mapping']['name']].squeeze()   # the file the spec names
            if m.traces is None or not same(m.traces[:], np.asarray(ds['raw'])[:, cmap]):
                problems.append('traces are not the raw columns permuted by the channel map')
        elif m.traces is not None:
            problems.append('traces without raw data')
        # the loader keeps spike_clusters as an in-memory COPY ("so that we can update this array during manual
        # clustering"): writing into it must leave every other loaded attribute as the files have it
        st_before = np.array(m.spike_templates)
        m.spike_clusters[:1] += 1
        if not np.array_equal(np.asarray(m.spike_templates), st_before):
            problems.append('an in-place update of model.spike_clusters changed model.spike_templates (the two arrays '
                            'share memory)')
    finally:
        m.close()
    return problems, ds


def run(ctx):
    ctx.rule = ('S->C: every configuration of the lattice emitted by TLC (KS / ALF names x presence of '
                'spike_clusters, amplitudes, shanks, probes, sparse template index, whitening, its inverse, '
                'similar templates, features, template features, ALF samples x one of four items present under '
                'BOTH names) is materialised with random contents ((n,) and (n,1) vectors, four id dtypes, four '
                'time dtypes, float32/64, NaN/inf entries, an all-NaN template in a quarter of them, raw data '
                'with extra channels in a third), hashed, loaded, hashed again; every listed attribute is '
                'compared with the file the specification names (or its default), plus created files, '
                'spike attributes and traces. Non-trivial = at least one optional file absent or an item under '
                'both names. Also non-monotonic spike times must be rejected.')
    ctx.assumptions += ['well-formed datasets: no singleton template/sample/channel axis (the loader squeezes), '
                        'spike_clusters never under both names (refused by design)',
                        'features / template features are presence dimensions only (the statement does not list them)']
    ctx.model_check('Dataset', 'MC_Dataset.cfg', expect_actions=('Pick', 'Pick2', 'Load'), timeout=1800,
                    note='name precedence, defaults, frame condition at design level')
    res, path, n = ctx.generate('Dataset', 'Gen_Dataset.cfg', timeout=1800)
    cases = list(tlc.read_cases(path))
    path.unlink()
    if len(cases) != n:
        raise MachineryError('read %d of %d cases' % (len(cases), n))
    rng = np.random.RandomState(ctx.seed + 4)
    if ctx.quick and len(cases) > 5000:
        idx = set(rng.choice(len(cases), size=5000, replace=False).tolist())
        cases = [c for j, c in enumerate(cases) if j in idx]
        ctx.exhaustive = False
    with tmp_dir(ctx) as d:
        for k, case in enumerate(cases):
            ctx.evaluations += 1
            if len(case['present']) < 11 or case['both']:
                ctx.nontrivial += 1
            res = None
            with ctx.guard('load', case):
                res = check_case(ctx, d, rng, case, k)
            if ctx.abort:
                return
            if res is None:
                continue
            problems, ds = res
            ctx.traces += 1
            if problems:
                key = 'frame' if any('changed' in p or 'created' in p for p in problems) else 'attr'
                ctx.violation(key, 'load of %s dataset with %r (both: %r): %s' % (
                    case['naming'], sorted(case['present']), case['both'], '; '.join(problems)[:600]),
                    dict(case=case, k=k, problems=problems))
            if k % 1500 == 0:
                ctx.sample(dict(naming=case['naming'], present=case['present'], both=case['both'],
                                created=case['created']))
        # non-monotonic spike times are rejected
        for k in range(20):
            ds = D.random_dense(rng, ns=12, nt=2, nc=3, nsw=2)
            j = int(rng.randint(1, 12))         # a single late inversion is enough
            ds['samples'] = ds['samples'][::-1].copy() if k % 4 == 0 else np.r_[ds['samples'][:j] + 60, ds['samples'][j:]]
            shutil.rmtree(d / 'nm', ignore_errors=True)
            p = D.write_dataset(d / 'nm', ds, naming=['ks', 'alf'][k % 2])
            ctx.traces += 1
            try:
                m = D.load(p)
                m.close()
                ctx.violation('monotonic', 'non-monotonic spike times %r were accepted' % as_list(ds['samples']),
                              dict(samples=as_list(ds['samples'])))
            except ValueError:
                pass
        # ALF names: the stored SECONDS go backwards by less than one sample period (both spikes round to the
        # same sample): still non-monotonic spike times
        for k in range(8):
            ds = D.random_dense(rng, ns=10, nt=2, nc=3, nsw=2, rate=1024)
            j = int(rng.randint(1, 10))
            jit = np.zeros(10)
            ds['samples'][j] = ds['samples'][j - 1]          # two spikes on the same sample ...
            jit[j - 1], jit[j] = 0.25, -0.25                 # ... stored a quarter of a sample apart, in the wrong order
            shutil.rmtree(d / 'nm', ignore_errors=True)
            p = D.write_dataset(d / 'nm', ds, naming='alf', alf_jitter=jit, alf_samples=bool(k % 2))
            ctx.traces += 1
            try:
                m = D.load(p)
                m.close()
                ctx.violation('monotonic', 'ALF spike times going backwards by half a sample period were accepted',
                              dict(samples=as_list(ds['samples']), jitter=as_list(jit)))
            except ValueError:
                pass


def replay(ctx, doc):
    c = doc['case']
    if 'case' in c:
        with tmp_dir(ctx) as d:
            problems, _ = check_case(ctx, d, np.random.RandomState(c.get('k', 0)), c['case'], c.get('k', 0))
            print('problems:', problems)
