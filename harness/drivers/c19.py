# -*- coding: utf-8 -*-
"""C19 - event dispatch order / sender filters / silencing; progress reporter completion.
Specs: spec/Events.tla, spec/Reporter.tla."""

import contextlib
import io

import numpy as np

from ..core import MachineryError
from .. import tlc

IMPORTS = ('phylib.utils.event',)


# ------------------------------------------------------------------------------------------
# Emitter under test
# ------------------------------------------------------------------------------------------

class _Obj(object):
    def __init__(self, name):
        self.name = name


class _Owner(object):
    """o1: owner of the bound-method callback m1."""
    def __init__(self, log):
        self._log = log

    def m1(self, sender, *a, **k):
        self._log.append(('m1', sender, a, k))
        return ('res', 'm1')


class EmitterRig(object):
    """A real EventEmitter plus the objects the abstract names stand for."""

    def __init__(self, use_global=False):
        from phylib.utils import event
        self.log = []
        if use_global:
            self.e = event._EVENT
            self.e.reset()
            self.e.set_silent(False)
        else:
            self.e = event.EventEmitter()
        self.senders = {'s1': _Obj('s1'), 's2': _Obj('s2')}
        self.o1 = _Owner(self.log)
        self.fns = {'f1': self._mk('f1'), 'f2': self._mk('f2'), 'm1': self.o1.m1}
        self.open_cms = []
        self.n_toggles = 0

    def _mk(self, name):
        log = self.log

        def f(sender, *a, **k):
            log.append((name, sender, a, k))
            return ('res', name)
        return f

    def _name_of(self, f):
        for n, g in self.fns.items():
            if g == f:
                return n
        return '?'

    def _sender_name(self, s):
        for n, o in self.senders.items():
            if o is s:
                return n
        return 'none' if s is None else '?'

    def state(self):
        cbs = [dict(ev=ev, sender=self._sender_name(s), fn=self._name_of(f),
                    last=bool(k.get('last', None)))
               for (ev, s, f, k) in getattr(self.e, '_callbacks', [])]
        return cbs, bool(self.e.is_silent)

    def connect(self, fn, ev, sender, last, style):
        f = self.fns[fn]
        s = self.senders.get(sender)
        if style == 'byName':
            target = getattr(f, '__func__', f)
            target.__name__ = 'on_' + ev
            kw = {'last': True} if last else {}
            self.e.connect(f, sender=s, **kw)
        elif style == 'explicit':
            self.e.connect(f, event=ev, sender=s, last=last)
        elif style == 'decorator':
            kw = {'last': True} if last else {}
            self.e.connect(event=ev, sender=s, **kw)(f)
        else:
            raise MachineryError('style %r' % style)

    def unconnect(self, x):
        obj = self.fns.get(x) or self.senders.get(x) or (self.o1 if x == 'o1' else None)
        if obj is None:
            raise MachineryError('target %r' % x)
        self.e.unconnect(obj)

    def toggle(self, prefer_exit=True):
        """silent() toggles on entry and on exit: leave the innermost open context if there is
        one (and prefer_exit), else enter a new one."""
        if self.open_cms and prefer_exit:
            cm = self.open_cms.pop()
            cm.__exit__(None, None, None)
        else:
            cm = self.e.silent()
            cm.__enter__()
            self.open_cms.append(cm)

    def emit(self, ev, sender, single):
        del self.log[:]
        s = self.senders[sender]
        kw = {'single': True} if single else {}
        ret = self.e.emit(ev, s, 1, 'x', key=2, **kw)
        calls = [c[0] for c in self.log]
        passthrough = all(c[1] is s and c[2] == (1, 'x') and c[3] == {'key': 2} for c in self.log)
        results = [('res', n) for n in calls]
        if ret is None:
            kind = 'none'
        elif single and ret == [] and not calls:
            kind = 'empty'
        elif single and calls and ret == results[0]:
            kind = 'first'
        elif (not single) and ret == results:
            kind = 'list'
        else:
            kind = 'unexpected:%r' % (ret,)
        return calls, kind, passthrough

    def apply(self, o, prefer_exit=True):
        """Perform abstract operation o; returns the observation in the spec's vocabulary."""
        op = o['op']
        if op == 'connect':
            self.connect(o['fn'], o['ev'], o['sender'], o['last'], o['style'])
        elif op == 'unconnect':
            self.unconnect(o['x'])
        elif op == 'reset':
            self.e.reset()
        elif op == 'toggle':
            self.toggle(prefer_exit)
        elif op == 'set':
            self.e.set_silent(o['b'])
        elif op == 'emit':
            calls, kind, pt = self.emit(o['ev'], o['sender'], o['single'])
            return dict(calls=calls, ret=kind, passthrough=pt)
        else:
            raise MachineryError('op %r' % op)
        return {}


def replay_emitter_history(ctx, hist, use_global):
    """S->C: step a spec history through a real emitter, comparing every emit."""
    rig = EmitterRig(use_global)
    nontrivial = False
    for k, o in enumerate(hist):
        obs = rig.apply(o)
        if o['op'] == 'emit':
            if o['calls']:
                nontrivial = True
            if obs['calls'] != o['calls'] or obs['ret'] != o['ret'] or not obs['passthrough']:
                ctx.violation('emitter', 'step %d of history: emit(%s, %s, single=%s) called %r '
                              'returning %s (passthrough %s); specification: %r, %s' % (
                                  k, o['ev'], o['sender'], o['single'], obs['calls'], obs['ret'],
                                  obs['passthrough'], o['calls'], o['ret']),
                              dict(kind='emitter', hist=hist, step=k, observed=obs,
                                   use_global=use_global))
                return nontrivial
    return nontrivial


# ------------------------------------------------------------------------------------------
# Reporter under test
# ------------------------------------------------------------------------------------------

class ReporterRig(object):
    def __init__(self):
        from phylib.utils import event
        event.reset()
        event.set_silent(False)
        self.pr = event.ProgressReporter()
        self.events = []
        ev = self.events

        @event.connect(sender=self.pr)
        def on_progress(sender, value, value_max, **kw):
            ev.append(('progress', value, value_max))

        @event.connect(sender=self.pr)
        def on_complete(sender, **kw):
            ev.append(('complete',))

    def apply(self, o):
        del self.events[:]
        op, arg = o['op'], o['arg']
        pr = self.pr
        if op == 'increment':
            pr.increment()
        elif op == 'set':
            pr.value = arg
        elif op == 'complete':
            pr.set_complete()
        elif op == 'setmax':
            pr.value_max = arg
        elif op == 'reset':
            pr.reset() if arg == -1 else pr.reset(arg)
        else:
            raise MachineryError('op %r' % op)
        prog = [list(e[1:]) for e in self.events if e[0] == 'progress']
        ncomp = sum(1 for e in self.events if e[0] == 'complete')
        return dict(value=pr.value, vmax=pr.value_max, flag=bool(getattr(pr, '_has_completed', False)),
                    announced=ncomp == 1, ncomplete=ncomp,
                    progress=prog[0] if len(prog) == 1 else ([] if not prog else ['many']),
                    order_ok=(not ncomp) or self.events[-1] == ('complete',))


def replay_reporter_history(ctx, hist):
    rig = ReporterRig()
    nontrivial = False
    for k, o in enumerate(hist):
        obs = rig.apply(o)
        exp_prog = [o['value'], o['vmax']] if o['update'] else []
        if o['announced']:
            nontrivial = True
        if (obs['announced'] != o['announced'] or obs['ncomplete'] > 1 or
                obs['value'] != o['value'] or obs['vmax'] != o['vmax']):
            ctx.violation('reporter', 'step %d of history: %s(%s) -> value %s/%s, %d completion '
                          'announcement(s), progress %r; specification: value %s/%s, announced=%s' % (
                              k, o['op'], o['arg'], obs['value'], obs['vmax'], obs['ncomplete'],
                              obs['progress'], o['value'], o['vmax'], o['announced']),
                          dict(kind='reporter', hist=hist, step=k, observed=obs))
            return nontrivial
    return nontrivial


# ------------------------------------------------------------------------------------------

def _random_emitter_trace(rng, rid0, length):
    rig = EmitterRig(use_global=bool(rng.randint(0, 2)))
    recs = [dict(id=rid0, op='begin')]
    fns, evs, snd = ['f1', 'f2', 'm1'], ['no_on', 'b'], ['s1', 's2']
    for k in range(length):
        rid = rid0 + 1 + k
        u = rng.rand()
        if u < 0.3:
            o = dict(op='connect', fn=fns[rng.randint(3)], ev=evs[rng.randint(2)],
                     sender=(snd + ['none'])[rng.randint(3)], last=bool(rng.rand() < 0.3),
                     style=['byName', 'explicit', 'decorator'][rng.randint(3)])
        elif u < 0.42:
            o = dict(op='unconnect', x=(fns + snd + ['o1'])[rng.randint(6)])
        elif u < 0.45:
            o = dict(op='reset')
        elif u < 0.53:
            o = dict(op='toggle')
        elif u < 0.6:
            o = dict(op='set', b=bool(rng.randint(2)))
        else:
            o = dict(op='emit', ev=evs[rng.randint(2)], sender=snd[rng.randint(2)],
                     single=bool(rng.rand() < 0.35))
        obs = rig.apply(o, prefer_exit=bool(rng.randint(2)))
        cbs, silent = rig.state()
        r = dict(o)
        r.update(obs)
        r.update(id=rid, cbs=cbs, silent=silent)
        recs.append(r)
    return recs


def _random_reporter_trace(rng, rid0, length):
    rig = ReporterRig()
    recs = [dict(id=rid0, op='begin')]
    for k in range(length):
        u = rng.rand()
        if u < 0.3:
            o = dict(op='increment', arg=0)
        elif u < 0.55:
            o = dict(op='set', arg=int(rng.randint(0, 9)))
        elif u < 0.7:
            o = dict(op='setmax', arg=int(rng.randint(0, 9)))
        elif u < 0.8:
            o = dict(op='complete', arg=0)
        else:
            o = dict(op='reset', arg=int(rng.randint(-1, 9)))
        obs = rig.apply(o)
        update = o['op'] in ('increment', 'set', 'complete')
        if obs['ncomplete'] > 1 or obs['progress'] == ['many'] or not obs['order_ok']:
            obs['announced'] = obs['ncomplete'] >= 1   # V rejects through the other clauses too
        r = dict(id=rid0 + 1 + k, op=o['op'], arg=o['arg'], update=update,
                 announced=obs['announced'], value=obs['value'], vmax=obs['vmax'],
                 flag=obs['flag'], progress=obs['progress'], multi=obs['ncomplete'] > 1)
        recs.append(r)
    return recs


def run(ctx):
    ctx.rule = ('S->C: every history of length 3 over the 54-operation emitter alphabet (and of '
                'length 4/5 over the 13-operation reporter alphabet) emitted by TLC, plus TLC-simulated '
                'deep histories, replayed on a real EventEmitter (fresh and the module-level singleton) '
                '/ ProgressReporter with every emit / announcement compared; non-trivial = at least '
                'one callback called / one completion announced. C->S: random long histories, every '
                'call validated by Trace_Events / Trace_Reporter.')
    ctx.assumptions += ['callbacks, senders and events range over a finite alphabet (3 callbacks '
                        'incl. one bound method, 2 senders, 2 events)']
    sfx = '' if ctx.quick else '_thorough'
    ctx.model_check('Events', 'MC_Events%s.cfg' % sfx, timeout=1200,
                    expect_actions=('Next',), note='emitter: I-layer emit = P-layer ExpectedCalls for '
                    'every callback list up to the bound')
    ctx.model_check('Reporter', 'MC_Reporter%s.cfg' % sfx, workers=4, expect_actions=('Next',),
                    note='reporter: AnnounceIffArmed on every reachable transition')
    out = io.StringIO()
    with contextlib.redirect_stdout(out):
        # --- emitter histories: exhaustive depth 3, then simulated deep ones
        res, path, n = ctx.generate('Events', 'Gen_Events.cfg', timeout=1200)
        k = 0
        for case in tlc.read_cases(path):
            k += 1
            ctx.evaluations += 1
            ctx.traces += 1
            with ctx.guard('emitter', case):
                if replay_emitter_history(ctx, case['hist'], use_global=(k % 2 == 0)):
                    ctx.nontrivial += 1
            if ctx.abort:
                return
            if k % 30011 == 1:
                ctx.sample(case)
        path.unlink()
        if k != n:
            raise MachineryError('replayed %d of %d emitter histories' % (k, n))
        nsim = 300 if ctx.quick else 4000
        res, path, n = ctx.generate('Events', 'Sim_Events.cfg', simulate='num=%d' % nsim, depth=10,
                                    workers=1, seed=ctx.seed + 19, timeout=1200)
        seen = set()
        for case in tlc.read_cases(path):
            key = repr(case)
            if key in seen:
                continue
            seen.add(key)
            ctx.evaluations += 1
            ctx.traces += 1
            with ctx.guard('emitter', case):
                if replay_emitter_history(ctx, case['hist'], use_global=False):
                    ctx.nontrivial += 1
            if ctx.abort:
                return
        path.unlink()
        ctx.exhaustive = False
        # --- reporter histories
        res, path, n = ctx.generate('Reporter', 'Gen_Reporter%s.cfg' % sfx, timeout=1200)
        k = 0
        for case in tlc.read_cases(path):
            k += 1
            ctx.evaluations += 1
            ctx.traces += 1
            with ctx.guard('reporter', case):
                if replay_reporter_history(ctx, case['hist']):
                    ctx.nontrivial += 1
            if ctx.abort:
                return
            if k % 9973 == 1:
                ctx.sample(case)
        path.unlink()
        if k != n:
            raise MachineryError('replayed %d of %d reporter histories' % (k, n))
        res, path, n = ctx.generate('Reporter', 'Sim_Reporter.cfg', simulate='num=%d' % nsim,
                                    depth=12, workers=1, seed=ctx.seed + 19, timeout=1200)
        for case in tlc.read_cases(path):
            ctx.evaluations += 1
            ctx.traces += 1
            with ctx.guard('reporter', case):
                if replay_reporter_history(ctx, case['hist']):
                    ctx.nontrivial += 1
            if ctx.abort:
                return
        path.unlink()
        # --- C->S
        rng = np.random.RandomState(ctx.seed + 19)
        nh = 12 if ctx.quick else 120
        recs = []
        rrecs = []
        with ctx.guard('emitter', None, seconds=600):
            for _ in range(nh):
                recs += _random_emitter_trace(rng, len(recs) + 1, 200)
            for _ in range(nh):
                rrecs += _random_reporter_trace(rng, len(rrecs) + 1, 200)
        if ctx.abort:
            return
    for chunk in [recs[k:k + 6030] for k in range(0, len(recs), 6030)]:
        for rid, clause in ctx.validate('Trace_Events', 'Trace_Events.cfg', chunk, timeout=1200):
            if clause.startswith('state.'):
                # the private callback list / flag: only what emits call and return decides the property
                ctx.note('emitter-state', 'private emitter state differs from the transcription (clause %s)' % clause)
                continue
            ctx.violation('emitter', 'recorded emitter call rejected by the specification: clause %s'
                          % clause, dict(kind='trace', record=recs[rid - 1], clause=clause))
    for chunk in [rrecs[k:k + 6030] for k in range(0, len(rrecs), 6030)]:
        for rid, clause in ctx.validate('Trace_Reporter', 'Trace_Reporter.cfg', chunk, timeout=1200):
            if clause in ('flag', 'progress'):
                ctx.note('reporter-state', 'private reporter flag / progress events differ from the transcription (clause %s)' % clause)
                continue
            lo = rid - 1
            while rrecs[lo]['op'] != 'begin':
                lo -= 1
            ctx.violation('reporter', 'recorded reporter call rejected by the specification: clause %s'
                          % clause, dict(kind='trace', history=rrecs[lo:rid], clause=clause))
    ctx.sample(recs[1:4])
    ctx.sample(rrecs[1:4])


def replay(ctx, doc):
    c = doc['case']
    if c.get('kind') == 'emitter':
        replay_emitter_history(ctx, c['hist'], c.get('use_global', False))
    elif c.get('kind') == 'reporter':
        replay_reporter_history(ctx, c['hist'])
    print('replayed: %d violation(s)' % len(ctx.violations))
    for v in ctx.violations:
        print(v.message)
