# -*- coding: utf-8 -*-
"""C17 - spike selection honours its cluster, chunk, subset and count constraints.
Spec: spec/Selector.tla."""

import numpy as np

from ..core import MachineryError
from .. import tlc
from ..util import as_list

IMPORTS = ('phylib.io.array',)
NONE = -1


def make_selector(times, clu, bounds, nkept, tdtype=np.int64):
    from phylib.io.array import SpikeSelector, _spikes_per_cluster
    sc = np.asarray(clu, dtype=np.int64)
    spc = _spikes_per_cluster(sc)
    return SpikeSelector(
        get_spikes_per_cluster=lambda cl: spc.get(cl, np.array([], dtype=np.int64)),
        spike_times=np.asarray(times, dtype=tdtype), chunk_bounds=list(bounds),
        n_chunks_kept=nkept)


def call(sel, nreq, req, use_chunks, subset, seed, variant=0):
    np.random.seed(seed)
    n = None if nreq == NONE else nreq
    sub = None if list(subset) == [NONE] else np.asarray(subset, dtype=np.int64)
    if sub is not None and variant % 3 == 1:
        sub = sub[::-1]                      # the subset is a SET of spike ids: given in decreasing order
    elif sub is not None and variant % 3 == 2:
        sub = list(np.random.RandomState(seed).permutation(sub))       # shuffled, as a list
    cl = list(req) if variant % 2 else np.asarray(req, dtype=np.int64)
    out = sel(n, cl, subset_chunks=use_chunks, subset_spikes=sub)
    return as_list(out)


def _compare(ctx, case, k, fallback):
    if k % 4 == 3:
        # INTEGER spike times against NON-INTEGER chunk bounds: times t + 1, bounds b + 1/2 - the same order
        # relations as the specification's integers (t >= b  <=>  t + 1 >= b + 1/2)
        sel = make_selector([t + 1 for t in case['times']], case['clu'], [b + 0.5 for b in case['bounds']],
                            case['nkept'], [np.int64, np.int32][k % 2])
        kept = [int(x) if float(x).is_integer() else float(x) for x in (np.asarray(sel.chunks_kept) - 0.5)]
    else:
        sel = make_selector(case['times'], case['clu'], case['bounds'], case['nkept'],
                            [np.int64, np.float64, np.uint64][k % 3])
        kept = as_list(sel.chunks_kept)
    if kept != case['chunksKept']:
        # another choice of kept chunks may still be whole grid intervals at a regular stride: the relational
        # P-layer (KeptOkOf, ValidSelOf on the observed kept chunks) judges it in the trace specification
        ctx.note('kept', 'chunks_kept %r, transcription %r' % (kept, case['chunksKept']))
        for seed in range(2):
            out = call(sel, case['nreq'], case['req'], case['useChunks'], case['subset'], seed + k, variant=k)
            fallback.append(dict(kind='call', times=case['times'], clu=case['clu'], bounds=case['bounds'], nkept=case['nkept'],
                                 nreq=case['nreq'], req=case['req'], useChunks=case['useChunks'],
                                 subset=case['subset'] if case['subset'] else [NONE], chunksKept=kept, result=out))
        return
    subset = case['subset']
    for seed in range(3 if len(case['allowed']) > 1 else 1):
        out = call(sel, case['nreq'], case['req'], case['useChunks'], subset, seed + k, variant=k)
        ctx.traces += 1
        if out not in case['allowed']:
            ctx.violation('select', 'selection %r is not among the results the specification allows '
                          '%r' % (out, case['allowed']), dict(case=case, seed=seed + k, observed=out))
            return


def _random_records(ctx, count):
    rng = np.random.RandomState(ctx.seed + 17)
    recs = []
    for rid in range(1, count + 1):
        n = int(rng.randint(1, 300))
        T = int(rng.choice([5, 50, 1000]))
        times = sorted(int(x) for x in rng.randint(0, T + 1, size=n))
        if rid % 3 == 0:
            # spike times sorted batch-wise only (KiloSort2): not monotonic within a cluster
            cut = sorted(int(x) for x in rng.randint(0, n + 1, size=int(rng.randint(1, 4))))
            parts = [times[a:b] for a, b in zip([0] + cut, cut + [n])]
            times = [t for j in rng.permutation(len(parts)) for t in parts[int(j)]]
        ids = [0, 1, 4, 9, 23][:int(rng.randint(1, 6))]
        clu = [ids[int(x)] for x in rng.randint(0, len(ids), size=n)]
        nb = int(rng.randint(2, 12))
        inner = sorted(set(int(x) for x in rng.randint(1, T + 1, size=nb - 2)))
        bounds = [0] + inner + [T + 1]
        if rid % 5 == 0 and len(inner) >= 2:
            bounds = inner                    # a grid that starts after the first spikes and ends before the last ones
        nkept = int(rng.randint(1, 8))
        nreq = int(rng.choice([NONE, 0, 1, 2, 5, 50, 1000]))
        req = as_list(rng.permutation(ids + [77])[:int(rng.randint(0, len(ids) + 2))])
        if rid % 4 == 0 and req:
            req = req + [req[int(rng.randint(len(req)))]]          # a cluster named twice
        use_chunks = bool(rng.randint(0, 2))
        subset = [NONE] if rng.rand() < 0.5 else sorted(
            set(int(x) for x in rng.randint(0, n, size=int(rng.randint(0, n + 1)))))
        sel = make_selector(times, clu, bounds, nkept, [np.int64, np.float64][rid % 2])
        out = call(sel, nreq, req, use_chunks, subset, ctx.seed + rid, variant=rid)
        recs.append(dict(id=rid, kind='call', times=times, clu=clu, bounds=bounds, nkept=nkept, nreq=nreq,
                         req=req, useChunks=use_chunks, subset=subset,
                         chunksKept=as_list(sel.chunks_kept), result=out))
    return recs


def _model_records(ctx, count, rid0):
    """The selection made by TemplateModel.save_spikes_subset_waveforms (20 kept chunks on the reader's chunk
    grid, n spikes per template), read back from the exported store."""
    import shutil
    from .. import datasets as D
    from ..util import tmp_dir
    rng = np.random.RandomState(ctx.seed + 177)
    recs = []
    with tmp_dir(ctx) as d:
        for k in range(count):
            shutil.rmtree(d / 'sel', ignore_errors=True)
            ns = int(rng.randint(6, 40))
            ds = D.random_dense(rng, ns=ns, nt=int(rng.randint(2, 5)), nc=3, nsw=3, raw=True,
                                rate=[0.015625, 0.0078125, 1024][k % 3])      # several 600 s chunks / one chunk
            # spread the spikes so that the recording spans many chunks (more than 20 when the rate is low)
            ds['samples'] = np.cumsum(rng.randint(0, [9, 30, 4][k % 3], size=ns)) + 2
            ds['raw'] = rng.randint(-50, 50, size=(int(ds['samples'][-1]) + 6, 4))
            p = D.write_dataset(d / 'sel', ds)
            nreq = int(rng.choice([1, 2, 5]))
            with ctx.guard('model', dict(dataset=k)):
                m = D.load(p)
                try:
                    m.save_spikes_subset_waveforms(max_n_spikes_per_template=nreq, max_n_channels=2)
                    recs.append(dict(
                        id=rid0 + len(recs), kind='model', times=as_list(m.spike_samples),
                        clu=as_list(m.spike_templates), bounds=as_list(m.traces.chunk_bounds), nkept=20, nreq=nreq,
                        req=sorted(set(as_list(m.spike_templates))), useChunks=True, subset=[NONE],
                        result=as_list(np.load(d / 'sel' / '_phy_spikes_subset.spikes.npy'))))
                finally:
                    m.close()
            if ctx.abort:
                break
    return recs


def run(ctx):
    ctx.rule = ('S->C: every configuration (spike trains incl. times equal to chunk bounds x '
                'labelings x every chunk grid x n_chunks_kept x requested counts {None,0,1,2} x '
                'request lists incl. empty/unknown ids x chunk restriction x subset) within the '
                'constants; chunks_kept compared exactly, the returned ids must be a member of the '
                'set of all selections the statement allows (computed by TLC), under several NumPy '
                'seeds; non-trivial = more than one allowed selection or a non-empty one. '
                'C->S: random large inputs judged by the relational ValidSelOf.')
    cfgs = [''] if ctx.quick else ['', '_thorough']       # thorough: 3 spikes on times 0..3 AND 4 spikes on times 0..3
    fallback = []
    for sfx in cfgs:
        ctx.model_check('Selector', 'MC_Selector%s.cfg' % sfx, expect_actions=('Pick', 'Pick2', 'Call'),
                        timeout=6000, note='every I-layer outcome is allowed by the statement and every '
                        'allowed selection is an I-layer outcome; parity trick = interval membership')
        if _replay_generated(ctx, 'Gen_Selector%s.cfg' % sfx, fallback):
            return
    _random_and_validate(ctx, fallback)


def _replay_generated(ctx, cfg, fallback):
    res, path, n = ctx.generate('Selector', cfg, timeout=6000)
    k = 0
    for case in tlc.read_cases(path):
        k += 1
        ctx.evaluations += 1
        if len(case['allowed']) > 1 or case['allowed'] != [[]]:
            ctx.nontrivial += 1
        with ctx.guard('select', case):
            _compare(ctx, case, k, fallback)
        if ctx.abort:
            return True
        if k % 50021 == 1:
            ctx.sample(case)
    path.unlink()
    if k != n:
        raise MachineryError('replayed %d of %d cases' % (k, n))
    return False


def _random_and_validate(ctx, fallback):
    recs = []
    with ctx.guard('trace', None, seconds=300):
        recs = _random_records(ctx, 300 if ctx.quick else 3000)
    if ctx.abort or not recs:
        return
    for r in fallback[:5000]:
        r['id'] = len(recs) + 1
        recs.append(r)
    recs += _model_records(ctx, 60 if ctx.quick else 400, len(recs) + 1)
    if ctx.abort:
        return
    for chunk in [recs[a:a + 500] for a in range(0, len(recs), 500)]:
        for rid, clause in ctx.validate('Trace_Selector', 'Trace_Selector.cfg', chunk, timeout=3000):
            if clause == 'chunksKept':
                ctx.note('kept', 'recorded chunks_kept differs from the transcription')
                continue
            ctx.violation('trace', 'recorded selection rejected by the specification: clause %s'
                          % clause, dict(record=recs[rid - 1], clause=clause))
    ctx.sample(dict((a, recs[0][a]) for a in ('bounds', 'nkept', 'nreq', 'req', 'chunksKept', 'result')))
    ctx.sample(recs[-1])
    # U: the selections the repository's own tests make (times and bounds mapped to their ranks: only order
    # comparisons between them matter)
    up = ctx.upstream(('phylib/io/tests/test_array.py',), 'Selector')
    if up:
        for rid, clause in ctx.validate('Trace_Selector', 'Trace_Selector.cfg', up, timeout=3000,
                                        note='calls recorded from the repository\'s own tests'):
            if clause == 'chunksKept':
                ctx.note('kept', 'chunks_kept of a selector of the repository\'s tests differs from the transcription')
                continue
            ctx.violation('upstream', 'a selection made by %s is rejected by the specification: clause %s'
                          % (up[rid - 1].get('test'), clause), dict(record=up[rid - 1], clause=clause))


def replay(ctx, doc):
    c = doc['case']
    if 'case' in c:
        _compare(ctx, c['case'], c.get('seed', 1), [])
    print('replayed: %d violation(s)' % len(ctx.violations))
