# -*- coding: utf-8 -*-
"""C07 - spike-cluster index utilities partition the spikes. Spec: spec/Clusters.tla."""

from fractions import Fraction

import numpy as np

from ..core import MachineryError
from .. import tlc
from ..util import as_list

IMPORTS = ('phylib.io.array',)
DTYPES = (np.int32, np.int64, np.uint16, np.uint32)
UPSTREAM_TESTS = ('phylib/io/tests/test_array.py', 'phylib/io/tests/test_traces.py', 'phylib/stats/tests/test_clusters.py')


def run_groups(v, ids, dtype):
    from phylib.io.array import _spikes_per_cluster
    vv = np.asarray(v, dtype=dtype)
    d = _spikes_per_cluster(vv, None if ids is None else np.asarray(ids, dtype=np.int64))
    # (the order of the dictionary's keys is not part of the statement: sorted by cluster id)
    return sorted([[int(k), as_list(s)] for k, s in d.items()]), d


def observe(v, ids, dtype, reqs, lookups, w, neg=()):
    from phylib.io import array as A
    vv = np.asarray(v, dtype=dtype)
    groups, d = run_groups(v, ids, dtype)
    out = dict(groups=groups, unique=as_list(A._unique(vv)))
    out['inClusters'] = [[rq, as_list(A._spikes_in_clusters(vv, rq))] for rq in reqs]
    out['lookups'] = [[lk, as_list(A._index_of(vv, lk))] for lk in lookups]
    out['lookupsNeg'] = [[lk, arr, as_list(A._index_of(np.asarray(arr, dtype=np.int64), lk))]
                         for lk, arr in neg]
    out['flat'] = as_list(A._flatten_per_cluster(d))
    m = A.grouped_mean(np.asarray(w, dtype=np.float64), vv)
    out['mean_float'] = as_list(m)
    return out


def _compare(ctx, case, dtype):
    reqs = [rq for rq, _ in case['inClusters']]
    lookups = [lk for lk, _ in case['lookups']]
    ids = case['ids'] if case['withIds'] else None
    obs = observe(case['v'], ids, dtype, reqs, lookups, case['w'],
                  [(lk, arr) for lk, arr, _ in case['lookupsNeg']])
    exp_mean = [s / c for s, c in case['mean']]
    ok = (obs['groups'] == case['groups'] and obs['unique'] == case['unique'] and
          obs['inClusters'] == case['inClusters'] and obs['lookups'] == case['lookups'] and obs['lookupsNeg'] == case['lookupsNeg'] and
          obs['flat'] == case['flat'] and obs['mean_float'] == exp_mean)
    ctx.traces += 1
    if not ok:
        ctx.violation('replay', 'cluster utilities differ from the specification for v=%r dtype=%s'
                      % (case['v'], np.dtype(dtype).name),
                      dict(case=case, dtype=np.dtype(dtype).name, observed=obs))


def _random_records(ctx, count, nmax):
    from phylib.io import array as A
    rng = np.random.RandomState(ctx.seed + 7)
    recs, flat_recs = [], []
    for rid in range(1, count + 1):
        n = int(rng.randint(1, nmax + 1)) if rid % 4 else int(rng.randint(5, 80))
        if rid % 7 == 3:
            n = int(rng.randint(5, 60))           # (the single-precision mean records below)
        nid = int(rng.choice([2, 5, 40, 300]))
        pool = np.sort(rng.choice(np.arange(0, 2 * nid + 5), size=nid, replace=False))
        dtype = DTYPES[rid % 4]
        if rid % 8 == 2:
            pool[-1] = 65535                  # uint16 vectors whose largest id is the largest uint16
        v = as_list(pool[rng.randint(0, nid, size=n)])
        with_ids = bool(rid % 3 == 0)
        ids = as_list(np.cumsum(rng.randint(1, 4, size=n))) if with_ids else list(range(n))
        if rid % 4 == 0:
            # a LONG request list over a wide id range (most of the ids present, several absent ones)
            cand = np.unique(np.r_[pool, rng.randint(0, 20 * nid + 50, size=30)])
            req = as_list(rng.permutation(cand)[:int(rng.randint(10, min(len(cand), 60) + 1))])
        else:
            req = as_list(rng.permutation(np.r_[pool[:6], [2 * nid + 7]])[:int(rng.randint(0, 6))])
        if rid % 8 == 6 and len(v):
            req = req + [65536 + int(v[0])]   # uint16 vectors: an absent id that does not fit the dtype of the vector
        lookup = as_list(rng.permutation(np.unique(np.r_[v, pool[:3]])))
        w = as_list(rng.randint(-20, 20, size=n))
        vv = np.asarray(v, dtype=dtype)
        groups, d = run_groups(v, ids if with_ids else None, dtype)
        vneg = np.asarray(v, dtype=np.int64)
        vneg[rng.rand(n) < 0.2] = -1
        wdt = np.float64
        if rid % 7 == 3 and n <= 60:
            # single-precision data whose sums are NOT exact in single precision (the mean is a mean of the values)
            w[0] = 2 ** 24
            wdt = np.float32
        mean = A.grouped_mean(np.asarray(w, dtype=wdt), vv)
        fr = [Fraction(float(x)).limit_denominator(100000) for x in mean]
        recs.append(dict(
            id=rid, kind='utils', v=v, ids=ids, groups=groups, unique=as_list(A._unique(vv)), req=req,
            inClusters=as_list(A._spikes_in_clusters(vv, req)), flat=as_list(A._flatten_per_cluster(d)),
            lookup=lookup, indexOf=as_list(A._index_of(vneg, lookup)), vneg=as_list(vneg), w=w,
            mean=[[f.numerator, f.denominator] for f in fr]))
        if rid % 5 == 0:
            # flatten is a set union: groups that SHARE spikes (e.g. groups of the cluster vector and of the
            # template vector in one dictionary), unsorted, with an empty group
            pool2 = rng.randint(0, 30, size=12)
            g = {int(a): [int(x) for x in rng.permutation(pool2)[:int(rng.randint(0, 8))]] for a in range(int(rng.randint(1, 5)))}
            flat_recs.append(dict(kind='call_flatten', groups=[[a, b] for a, b in sorted(g.items())],
                                  out=as_list(A._flatten_per_cluster({a: np.asarray(b, dtype=np.int64) for a, b in g.items()}))))
    for r in flat_recs:
        r['id'] = len(recs) + 1
        recs.append(r)
    return recs


def _model_records(ctx, count, rid0):
    """The TemplateModel queries built on the utilities, on generated datasets."""
    from .. import datasets as D
    from ..util import tmp_dir
    from .c08 import random_history
    import shutil
    rng = np.random.RandomState(ctx.seed + 77)
    recs = []
    with tmp_dir(ctx) as d:
        for k in range(count):
            st, sc = random_history(rng, int(rng.randint(3, 40)), int(rng.randint(1, 6)), int(rng.randint(0, 6)))
            nt = max(2, int(st.max()) + 1 + int(rng.randint(0, 2)))
            ds = D.random_dense(rng, ns=len(st), nt=nt, nc=3, nsw=2)
            ds['st'], ds['sc'] = st, sc
            if k % 8 == 0:
                # no cluster file (the loader copies the templates), int32 ids: curation then happens in memory only
                ds['sc'] = None
                sc = np.array(st)
            shutil.rmtree(d / 'm', ignore_errors=True)
            p = D.write_dataset(d / 'm', ds, id_dtype=[np.int32, np.uint32, np.int64, np.uint16][k % 4])
            with ctx.guard('model', dict(st=as_list(st), sc=as_list(sc))):
                m = D.load(p)
                try:
                    def record(sc_now):
                        cl = sorted(set(as_list(sc_now))) + [int(sc_now.max()) + 1]
                        recs.append(dict(
                            id=rid0 + len(recs), kind='model', st=as_list(st), sc=as_list(sc_now), nt=nt,
                            cluster_spikes=[[c, as_list(m.get_cluster_spikes(c))] for c in cl],
                            template_spikes=[[t, as_list(m.get_template_spikes(t))] for t in range(nt)],
                            template_counts=[[c, as_list(m.get_template_counts(c))] for c in cl]))
                    record(sc)
                    if k % 2 or k % 8 == 0:
                        # the model keeps spike_clusters as an in-memory copy "so that we can update this array
                        # during manual clustering": a merge and a split written into it (new ids max+1, max+2);
                        # the queries follow the current assignment
                        sc2 = np.array(sc)
                        ids = np.unique(sc2)
                        new = int(sc2.max()) + 1
                        sc2[np.isin(sc2, ids[:2])] = new
                        idx = np.nonzero(sc2 == ids[-1])[0]
                        sc2[idx[::2]] = new + 1
                        m.spike_clusters[:] = sc2
                        record(sc2)
                finally:
                    m.close()
            if ctx.abort:
                break
    return recs


def run(ctx):
    sfx = '' if ctx.quick else '_thorough'
    ctx.rule = ('S->C: every cluster vector up to the length bound over the gapped alphabet '
                '{0,2,3,7}, with and without a supplied spike-id vector, replayed on int32/int64/'
                'uint16/uint32 against every requested-cluster list of length <= 2 over {0,2,5,7} '
                'and three lookup orders; non-trivial = at least two distinct ids. C->S: random '
                'vectors up to length 1000 (ids up to 600) judged by the declarative P-layer.')
    ctx.assumptions += ['uint32 modular subtraction is not representable in TLC (32-bit integers): '
                        'the model covers signed and 16-bit unsigned differences, the replay covers uint32']
    ctx.model_check('Clusters', 'MC_Clusters%s.cfg' % sfx, expect_actions=('Pick', 'Compute'),
                    timeout=2400, note='transcriptions satisfy the set-theoretic definitions')
    res, path, n = ctx.generate('Clusters', 'Gen_Clusters%s.cfg' % sfx, timeout=2400)
    k = 0
    for case in tlc.read_cases(path):
        k += 1
        ctx.evaluations += 1
        if len(set(case['v'])) >= 2:
            ctx.nontrivial += 1
        for dtype in DTYPES:
            with ctx.guard('replay', case):
                _compare(ctx, case, dtype)
        if ctx.abort:
            return
        if k % 700 == 1:
            ctx.sample(dict((a, case[a]) for a in ('v', 'withIds', 'groups', 'unique', 'mean')))
    path.unlink()
    if k != n:
        raise MachineryError('replayed %d of %d cases' % (k, n))
    recs = []
    with ctx.guard('trace', None, seconds=300):
        recs = _random_records(ctx, 120 if ctx.quick else 800, 1000)
    if ctx.abort or not recs:
        return
    recs += _model_records(ctx, 60 if ctx.quick else 600, len(recs) + 1)
    if ctx.abort:
        return
    for chunk in [recs[a:a + 100] for a in range(0, len(recs), 100)]:
        for rid, clause in ctx.validate('Trace_Clusters', 'Trace_Clusters.cfg', chunk, timeout=2400):
            r = recs[rid - 1]
            ctx.violation('trace', 'recorded %s output rejected by the specification: clause %s (n=%d)'
                          % (r.get('kind'), clause, len(r.get('v') or r.get('sc') or r.get('out') or [])),
                          dict(record=r, clause=clause))
    # U: the calls the repository's own tests make into the utilities, judged by the same predicates
    up = ctx.upstream(UPSTREAM_TESTS, 'Clusters')
    if up:
        for rid, clause in ctx.validate('Trace_Clusters', 'Trace_Clusters.cfg', up, timeout=2400,
                                        note='calls recorded from the repository\'s own tests'):
            r = up[rid - 1]
            ctx.violation('upstream', 'a call made by %s is rejected by the specification: clause %s'
                          % (r.get('test'), clause), dict(record=r, clause=clause))


def replay(ctx, doc):
    c = doc['case']
    if 'case' in c:
        _compare(ctx, c['case'], np.dtype(c['dtype']).type)
    print('replayed: %d violation(s)' % len(ctx.violations))
