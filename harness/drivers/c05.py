# -*- coding: utf-8 -*-
"""C05 - template records are aligned with their channel list (dense and sparse storage).
Spec: spec/Templates.tla (I-layer with nondeterministic tie-breaking |= relational P-layer);
conformance: records of the real get_template validated by Trace_Templates."""

import numpy as np

from ..core import MachineryError
from ..util import as_list, tmp_dir
from .. import datasets as D

IMPORTS = ('phylib.io.model',)


class ObservationError(Exception):
    """A value observed from the code under test is not representable in the exact (scaled integer) arithmetic
    the generated inputs guarantee for a correct implementation: reported as a violation by ctx.guard."""


def ints(x, scale=1):
    a = np.asarray(x, dtype=np.float64) * scale
    r = np.rint(a)
    if not np.array_equal(a, r):
        raise ObservationError('an observed value is not a multiple of 1/%s although all inputs are: %r' % (
            scale, a.ravel()[:12]))
    return as_list(r.astype(np.int64))


def dense_records(ctx, d, rng, rid0, n_datasets):
    recs = []
    for k in range(n_datasets):
        nc = int(rng.randint(3, 9))
        ds = D.random_dense(rng, ns=12, nt=int(rng.randint(2, 5)), nc=nc, nsw=int(rng.randint(2, 5)),
                            whitening=['none', 'monomial', 'triangular'][k % 3], shanks=bool(k % 2),
                            geometry=['grid', 'line', 'scatter'][k % 3],
                            tmax=[1, 3][k % 2])     # tmax = 1: many amplitude ties
        p = D.write_dataset(d / ('dense%d' % k), ds)
        m = D.load(p)
        try:
            wmi4 = ints(ds['wmi_eff'], 4)
            pos = ints(ds['pos'])
            shank = ints(ds['shanks'] if ds['shanks'] is not None else np.zeros(nc))
            for ncl in sorted(set([2, 3, nc - 1, 12])):
                m.n_closest_channels = ncl
                for t in range(ds['T'].shape[0]):
                    for thr in ([0, 1], [1, 2], [1, 1]):
                        for unw in (True, False):
                            for explicit in (None, rng.permutation(nc)[:int(rng.randint(1, nc + 1))]):
                                if explicit is not None and thr != [0, 1]:
                                    continue
                                inp = dict(template=t, thr=thr, unw=unw, nclosest=ncl)
                                with ctx.guard('dense', inp):
                                    # the model is configured with ANOTHER threshold: the explicit argument
                                    # (also an explicit 0) takes precedence
                                    m.amplitude_threshold = 0.5 if thr != [1, 2] else 1.0
                                    b = m.get_template(t, channel_ids=explicit,
                                                       amplitude_threshold=thr[0] / thr[1], unwhiten=unw)
                                    if explicit is None:
                                        m.amplitude_threshold = thr[0] / thr[1]
                                        ch2 = m.get_template_channels(t) if unw else b.channel_ids
                                        w2 = m.get_template_waveforms(t) if unw else b.template
                                        m.amplitude_threshold = 0
                                    else:
                                        ch2, w2 = b.channel_ids, b.template
                                    recs.append(dict(
                                        id=rid0 + len(recs), kind='dense', T=ints(ds['T'][t]), wmi4=wmi4,
                                        unw=unw, pos=pos, shank=shank, nclosest=ncl, thr=thr,
                                        explicit=[] if explicit is None else [int(c) + 1 for c in explicit],
                                        ch=[int(c) + 1 for c in b.channel_ids],
                                        tmpl=ints(b.template, 4), amp=ints(b.amplitude, 4),
                                        best=int(b.best_channel) + 1,
                                        ch2=[int(c) + 1 for c in ch2], tmpl2=ints(w2, 4)))
                                if ctx.abort:
                                    return recs
        finally:
            m.close()
    return recs


def sparse_records(ctx, d, rng, rid0, n_datasets):
    recs = []
    for k in range(n_datasets):
        nc = int(rng.randint(3, 9))
        nloc = int(rng.randint(2, nc + 1))
        if k % 6 == 2:
            nloc = nc
        nt = int(rng.randint(2, 5))
        ds = D.random_dense(rng, ns=10, nt=nt, nc=nc, nsw=int(rng.randint(2, 5)),
                            whitening=['monomial', 'none', 'triangular'][k % 3])
        Tind = np.asarray([rng.permutation(nc)[:nloc] for _ in range(nt)])
        Ts = rng.randint(-3, 4, size=(nt, ds['T'].shape[1], nloc)).astype(float)
        for t in range(nt):
            # (every third dataset keeps ALL its columns: with nloc = nc the stored list is as long as the probe,
            # in an order that is not ascending)
            if nloc > 1 and k % 3 != 2:
                Tind[t, rng.randint(nloc)] = -1 if rng.rand() < 0.5 else Tind[t, 0]   # unused marker
                Ts[t, :, rng.randint(nloc)] = 0                                         # signal-free column
            # distinct stored channels (apart from -1)
            seen, row = set(), []
            for c in Tind[t]:
                row.append(-1 if (c in seen and c != -1) else int(c))
                seen.add(c)
            Tind[t] = row
            if not np.any(np.abs(Ts[t][:, Tind[t] != -1]).sum(axis=0) > 0):
                j = int(np.nonzero(Tind[t] != -1)[0][0]) if np.any(Tind[t] != -1) else 0
                if Tind[t, j] == -1:
                    Tind[t, j] = 0
                Ts[t, 0, j] = 2
        ds['T'], ds['Tind'] = Ts, Tind
        p = D.write_dataset(d / ('sparse%d' % k), ds)
        m = D.load(p)
        try:
            wmi4 = ints(ds['wmi_eff'], 4)
            for t in range(nt):
                for unw in (True, False):
                    with ctx.guard('sparse', dict(template=t, unw=unw)):
                        b = m.get_template(t, unwhiten=unw)
                        recs.append(dict(
                            id=rid0 + len(recs), kind='sparse', Ts=ints(Ts[t]),
                            cols=[int(c) + 1 for c in Tind[t]], wmi4=wmi4, unw=unw,
                            ch=[int(c) + 1 for c in b.channel_ids], tmpl=ints(b.template, 4),
                            amp=ints(b.amplitude, 4), best=int(b.best_channel) + 1))
                    if ctx.abort:
                        return recs
        finally:
            m.close()
    return recs


def run(ctx):
    ctx.rule = ('M: 2 samples x 3 channels templates over {0,1,2}, 3 whitening inverses (identity, '
                'monomial, unit-triangular), 2 geometries with distance ties, 2 shank layouts, thresholds '
                '{0, 1/2, 1}, neighbourhood sizes 1..3: every outcome of the transcription (ties resolved '
                'nondeterministically) satisfies ValidDense. C->S: records of the real get_template / '
                'get_template_channels / get_template_waveforms on random dense and sparse datasets '
                '(3..8 channels, neighbourhood sizes 2, 3, nc-1, 12, multi-shank, three whitening kinds, '
                'thresholds, whitened and unwhitened, explicit lists, sparse tables with -1 and all-zero '
                'columns) validated by the relational P-layer; non-trivial = more than one channel kept.')
    ctx.assumptions += ['whitening inverses are monomial or unit-triangular with entries that are '
                        'multiples of 1/4 (exact unwhitening); templates are small integers',
                        'with an explicit channel list only column alignment and the returned list are '
                        'claimed (the amplitude ordering clause cannot apply to a caller-chosen order)']
    ctx.model_check('Templates', 'MC_Templates.cfg', expect_actions=('Pick', 'Pick2', 'FindBest'),
                    timeout=3000, note='I-layer (nondeterministic ties) |= ValidDense')
    rng = np.random.RandomState(ctx.seed + 5)
    with tmp_dir(ctx) as d:
        recs = dense_records(ctx, d, rng, 1, 40 if ctx.quick else 2000)
        if not ctx.abort:
            recs += sparse_records(ctx, d, rng, len(recs) + 1, 120 if ctx.quick else 6000)
    if ctx.abort:
        return
    ctx.evaluations = len(recs)
    ctx.nontrivial = sum(1 for r in recs if len(r['ch']) > 1)
    ctx.exhaustive = False
    for chunk in [recs[a:a + 800] for a in range(0, len(recs), 800)]:
        for rid, clause in ctx.validate('Trace_Templates', 'Trace_Templates.cfg', chunk, timeout=3000):
            r = recs[rid - 1]
            ctx.violation(r['kind'], 'recorded %s template record rejected by the specification: clause %s'
                          % (r['kind'], clause), dict(record=r, clause=clause))
    ctx.sample(recs[0])
    ctx.sample(recs[-1])


def replay(ctx, doc):
    print('replay: the failing record is self-contained: %r' % doc['case'].get('record'))
