#!/bin/sh
# Flakiness sweep: every quick check under several seeds on the unchanged tree; any non-zero exit is a defect of the machinery.
cd "$(dirname "$0")"
seeds="${*:-2 3 4 5}"
for s in $seeds; do
  for i in 01 02 03 04 05 06 07 08 09 10 11 12 13 14 15 16 17 18 19 20; do
    t0=$(date +%s)
    out=$(VERIF_SEED=$s ./check C$i --tier quick 2>&1); rc=$?
    echo "seed=$s C$i exit=$rc $(( $(date +%s) - t0 ))s $(echo "$out" | grep -c VIOLATION) violation line(s)"
    [ $rc -ne 0 ] && echo "$out" | grep -E "VIOLATION|Error|error" | head -5
  done
done
git checkout -- evidence 2>/dev/null
