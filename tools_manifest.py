#!/venv/bin/python
"""Regenerate MANIFEST.json from harness/registry.py (kept valid at all times)."""
import json, sys
sys.path.insert(0, '.')
from harness.registry import CHECKS, NOT_APPLICABLE, ENGINES
props = [json.loads(l)['id'] for l in open('properties.jsonl')]
checks = []
for pid in props:
    if pid not in CHECKS:
        continue
    c = CHECKS[pid]
    checks.append(dict(
        property_id=pid,
        quick_cmd='./check %s --tier quick' % pid,
        thorough_cmd='./check %s --tier thorough' % pid,
        evidence_file='/verif/evidence/%s.json' % pid,
        replay_cmd_template='./check %s --replay {path}' % pid,
        engine='tlc+conformance',
        level_claimed=dict(category='model_checking', text=c['text'], design_ref=c['design_ref']),
        level_note=c['note'],
        technique=c['technique']))
na = [dict(property_id=p, reason=NOT_APPLICABLE.get(p, 'check not built yet in this round; see DESIGN.md section 4 for the plan'))
      for p in props if p not in CHECKS]
m = dict(
    version=1,
    setup_cmd='./setup.sh',
    hooks=dict(guard='PHYLIB_VERIF',
               enable='no repository hooks: checks import phylib from /repo\'s working tree in a fresh interpreter and observe internal steps with wrappers installed in the harness process; PHYLIB_VERIF=1 is exported by ./check and reserved',
               baseline_off_cmd='cd /repo && env -u PHYLIB_VERIF /venv/bin/python -m pytest -ra -q -p no:cacheprovider --timeout=900 --continue-on-collection-errors',
               source_commits=[], add_only=True),
    engines=ENGINES,
    checks=checks,
    notes='Model-based verification with explicit TLA+ specifications (spec/*.tla): TLC model-checks the implementation-shaped layer against the property layer (M), emits every case of the small scope for replay into the real code (G, S->C) and validates traces recorded from the real code (V, C->S). See DESIGN.md.',
    not_applicable=na)
json.dump(m, open('MANIFEST.json', 'w'), indent=1)
print('MANIFEST.json: %d checks, %d not claimed' % (len(checks), len(na)))
