#!/bin/sh
# run thorough checks once, sequentially (all, or the ids given); print one line per check
ids="${*:-C16 C20 C19 C15 C07 C17 C01 C02 C03 C18 C05 C09 C08 C06 C04 C11 C12 C13 C14 C10}"
for id in $ids; do
  t0=$(date +%s)
  ./check $id --tier thorough > thorough_$id.log 2>&1
  rc=$?
  echo "$id exit=$rc $(( $(date +%s) - t0 ))s $(tail -1 thorough_$id.log | cut -c1-160)"
done
