---- MODULE Trace_Merge ----
(* V: real Merger runs, one record per merge:
   {id, probes: [{times, sc, st, amps, nch, ntm, chmap, pcind, tfind, posx, posy, T, wm, wmi, sim, tsv,
                  rate, ncdat}], steps, out: {times, sc, st, amps, cprobes, chmap, chprobe, posx, posy, T,
                  pcind, tfind, wm, wmi, sim, tsv, rate, ncdat}, inputsUnchanged, modelOk}
   The machine of Merge is run on the logged probes (one action per write_* step); at the end the
   logged output directory is compared with the machine's arrays (the I clauses) and judged by the
   P-layer (the C11 and C12 clauses).                                                            *)
EXTENDS Merge
VARIABLE i
Trace == ndJsonDeserialize(TraceFile)
Reset(r) == /\ probes' = r.probes /\ pc' = "times" /\ spikeOrder' = <<>> /\ outTimes' = <<>> /\ outClu' = <<>>
            /\ outTmp' = <<>> /\ cluOff' = <<>> /\ tmpOff' = <<>> /\ chanOff' = <<>> /\ outChanMap' = <<>>
            /\ outChanProbe' = <<>> /\ outTemplates' = <<>> /\ outPcInd' = <<>> /\ outTfInd' = <<>>
TInit == /\ i = 1 /\ RejectInit /\ TLCSet(2, 0)
         /\ probes = Trace[1].probes /\ pc = "times" /\ spikeOrder = <<>> /\ outTimes = <<>> /\ outClu = <<>>
         /\ outTmp = <<>> /\ cluOff = <<>> /\ tmpOff = <<>> /\ chanOff = <<>> /\ outChanMap = <<>>
         /\ outChanProbe = <<>> /\ outTemplates = <<>> /\ outPcInd = <<>> /\ outTfInd = <<>>
AllHave(f) == \A k \in 1..NP : probes[k][f] # <<>>
TsvNames == {"Amplitude", "ContamPct", "KSLabel"}
Check1(r) ==
  LET o == r.out IN
  \* ---- C11
  /\ Clause(r.id, "C11.I.times", outTimes = o.times)
  /\ Clause(r.id, "C11.I.clusters", outClu = o.sc)
  /\ Clause(r.id, "C11.I.templates", outTmp = o.st)
  /\ Clause(r.id, "C11.amplitudes", o.amps = [q \in 1..Len(spikeOrder) |-> probes[spikeOrder[q][1]].amps[spikeOrder[q][2]]])
  /\ Clause(r.id, "C11.Conservation", Conservation)
  /\ Clause(r.id, "C11.OrderedByTimeProbeIndex", OrderedByTimeProbeIndex)
  /\ Clause(r.id, "C11.IdsShifted", IdsShifted)
  /\ Clause(r.id, "C11.IdsDisjoint", IdsDisjoint)
  /\ Clause(r.id, "C11.cluster_probes", ClusterProbesOk(o.cprobes))
  /\ Clause(r.id, "C11.metadata", \A nm \in TsvNames : SeqSet(o.tsv[nm]) = MergedTsv(nm) /\ Len(o.tsv[nm]) = Cardinality(MergedTsv(nm)))
  /\ Clause(r.id, "C11.inputs_unchanged", r.inputsUnchanged)
  /\ Clause(r.id, "C11.steps", r.steps = <<"write_params", "write_probe_desc", "write_spike_times", "write_spike_data",
                                          "write_spike_clusters", "write_cluster_data", "write_channel_data",
                                          "write_channel_positions", "write_templates", "write_template_data", "write_misc">>)
  \* ---- C12
  /\ Clause(r.id, "C12.I.channel_map", outChanMap = o.chmap)
  /\ Clause(r.id, "C12.ChannelBlocks", outChanProbe = o.chprobe /\ ChannelBlocks)
  /\ Clause(r.id, "C12.geometry", GeometryOk(o.posx, o.posy))
  /\ Clause(r.id, "C12.TemplateBlocks", o.T = ExpectedTemplates)
  /\ Clause(r.id, "C12.SpikeTemplateOnOwnBlock", SpikeTemplateOnOwnBlock)
  /\ Clause(r.id, "C12.PcIndShifted", outPcInd = o.pcind /\ PcIndShifted)
  /\ Clause(r.id, "C12.TfIndShifted", outTfInd = o.tfind /\ TfIndShifted)
  /\ Clause(r.id, "C12.whitening", o.wm = (IF AllHave("wm") THEN BlockDiag([k \in 1..NP |-> probes[k].wm]) ELSE <<>>))
  /\ Clause(r.id, "C12.whitening_inv", o.wmi = (IF AllHave("wmi") THEN BlockDiag([k \in 1..NP |-> probes[k].wmi]) ELSE <<>>))
  /\ Clause(r.id, "C12.similarity", o.sim = (IF AllHave("sim") THEN BlockDiag([k \in 1..NP |-> probes[k].sim]) ELSE <<>>))
  /\ Clause(r.id, "C12.params", o.rate = probes[1].rate /\ o.ncdat = SumSeq([k \in 1..NP |-> probes[k].ncdat]))
  /\ Clause(r.id, "C12.model", r.modelOk)
Step == pc \notin {"done", "pick"} /\ Next /\ i' = i
Consume == /\ pc = "done" /\ i <= Len(Trace)
           /\ Check1(Trace[i]) /\ TLCSet(2, i) /\ i' = i + 1
           /\ IF i < Len(Trace) THEN Reset(Trace[i + 1]) ELSE UNCHANGED vars
TNext == Step \/ Consume
TSpec == TInit /\ [][TNext]_<<vars, i>>
Accepted == Verdict(TLCGet(2)) /\ TLCGet(2) = Len(Trace)
====
