---- MODULE Trace_Merge ----
(* V: real Merger runs, one record per merge:
   {id, probes: [{times, sc, st, amps, nch, ntm, chmap, pcind, tfind, posx, posy, T, wm, wmi, sim, tsv,
                  rate, ncdat}], steps, out: {times, sc, st, amps, cprobes, chmap, chprobe, posx, posy, T,
                  pcind, tfind, wm, wmi, sim, tsv, rate, ncdat}, inputsUnchanged, modelOk}
   The machine of Merge is run on the logged probes (one action per write_* step); at the end the
   logged output directory is compared with the machine's arrays (the I clauses) and judged by the
   P-layer (the C11 and C12 clauses).                                                            *)
EXTENDS Merge
VARIABLE i
Trace == ndJsonDeserialize(TraceFile)
Reset(r) == /\ probes' = r.probes /\ pc' = "times" /\ spikeOrder' = <<>> /\ outTimes' = <<>> /\ outClu' = <<>>
            /\ outTmp' = <<>> /\ cluOff' = <<>> /\ tmpOff' = <<>> /\ chanOff' = <<>> /\ outChanMap' = <<>>
            /\ outChanProbe' = <<>> /\ outTemplates' = <<>> /\ outPcInd' = <<>> /\ outTfInd' = <<>>
TInit == /\ i = 1 /\ RejectInit /\ TLCSet(2, 0)
         /\ probes = Trace[1].probes /\ pc = "times" /\ spikeOrder = <<>> /\ outTimes = <<>> /\ outClu = <<>>
         /\ outTmp = <<>> /\ cluOff = <<>> /\ tmpOff = <<>> /\ chanOff = <<>> /\ outChanMap = <<>>
         /\ outChanProbe = <<>> /\ outTemplates = <<>> /\ outPcInd = <<>> /\ outTfInd = <<>>
AllHave(f) == \A k \in 1..NP : probes[k][f] # <<>>
TsvNames == {"Amplitude", "ContamPct", "KSLabel"}
\* ---- relational P-layer on the LOGGED output: the statement does not fix the VALUE of the per-probe
\* offsets, only that there is one per probe and that ids of different probes never collide. The order of
\* the merged spikes, on the other hand, is fixed by the statement (time, then probe, then original order),
\* so the machine's spikeOrder is the P-layer order.
SpikesOf(k) == {q \in 1..Len(spikeOrder) : spikeOrder[q][1] = k}
COff(o, k) == LET q == CHOOSE x \in SpikesOf(k) : TRUE IN o.sc[q] - probes[k].sc[spikeOrder[q][2]]
TOff(o, k) == LET q == CHOOSE x \in SpikesOf(k) : TRUE IN o.st[q] - probes[k].st[spikeOrder[q][2]]
IdsOk(o) ==
   /\ Len(o.sc) = Len(spikeOrder) /\ Len(o.st) = Len(spikeOrder)
   /\ \A k \in 1..NP : \A q \in SpikesOf(k) :
         /\ o.sc[q] - probes[k].sc[spikeOrder[q][2]] = COff(o, k)
         /\ o.st[q] - probes[k].st[spikeOrder[q][2]] = TOff(o, k)
   /\ \A k1 \in 1..NP, k2 \in 1..NP : k1 # k2 =>
         /\ {x + COff(o, k1) : x \in SeqSet(probes[k1].sc)} \cap {x + COff(o, k2) : x \in SeqSet(probes[k2].sc)} = {}
         /\ {x + TOff(o, k1) : x \in 0..(probes[k1].ntm - 1)} \cap {x + TOff(o, k2) : x \in 0..(probes[k2].ntm - 1)} = {}
\* (every id that carries spikes OR a metadata row - an id emptied by curation may still have its row)
ClusterProbesP(o) == \A k \in 1..NP : \A x \in SeqSet(probes[k].sc) \cup UNION {{e[1] : e \in SeqSet(probes[k].tsv[nm])} : nm \in TsvNames} :
   x + COff(o, k) + 1 \in 1..Len(o.cprobes) /\ o.cprobes[x + COff(o, k) + 1] = k - 1
MetadataP(o) == \A nm \in TsvNames :
   /\ SeqSet(o.tsv[nm]) = UNION {{<<e[1] + COff(o, k), e[2]>> : e \in SeqSet(probes[k].tsv[nm])} : k \in 1..NP}
   /\ Len(o.tsv[nm]) = SumSeq([k \in 1..NP |-> Len(probes[k].tsv[nm])])
\* template t of probe k sits at row TOff(k) + t, on block k, zeros elsewhere
TemplateRowsP(o) == \A k \in 1..NP : \A t \in 1..probes[k].ntm :
   TOff(o, k) + t \in 1..Len(o.T) /\ o.T[TOff(o, k) + t] = ExpectedTemplate(k, t)
PcIndP(o) == \A k \in 1..NP : \A t \in 1..probes[k].ntm :
   /\ TOff(o, k) + t \in 1..Len(o.pcind)
   /\ o.pcind[TOff(o, k) + t] = [j \in 1..Len(probes[k].pcind[t]) |-> probes[k].pcind[t][j] + NchBefore(k)]
TfIndP(o) == \A k \in 1..NP : \A t \in 1..probes[k].ntm :
   /\ TOff(o, k) + t \in 1..Len(o.tfind)
   /\ o.tfind[TOff(o, k) + t] = [j \in 1..Len(probes[k].tfind[t]) |-> probes[k].tfind[t][j] + TOff(o, k)]
Check1(r) ==
  LET o == r.out IN
  \* ---- C11 (P-layer)
  /\ Clause(r.id, "C11.times", outTimes = o.times)
  /\ Clause(r.id, "C11.amplitudes", o.amps = [q \in 1..Len(spikeOrder) |-> probes[spikeOrder[q][1]].amps[spikeOrder[q][2]]])
  /\ Clause(r.id, "C11.Conservation", Conservation)
  /\ Clause(r.id, "C11.OrderedByTimeProbeIndex", OrderedByTimeProbeIndex)
  /\ Clause(r.id, "C11.ids", IdsOk(o))
  /\ IdsOk(o) => /\ Clause(r.id, "C11.cluster_probes", ClusterProbesP(o))
                 /\ Clause(r.id, "C11.metadata", MetadataP(o))
  /\ Clause(r.id, "C11.inputs_unchanged", r.inputsUnchanged)
  \* ---- C11 (agreement with the transcription: informational)
  /\ Clause(r.id, "I.clusters", outClu = o.sc)
  /\ Clause(r.id, "I.templates", outTmp = o.st)
  /\ Clause(r.id, "I.cluster_probes", ClusterProbesOk(o.cprobes))
  /\ Clause(r.id, "I.steps", r.steps = <<"write_params", "write_probe_desc", "write_spike_times", "write_spike_data",
                                        "write_spike_clusters", "write_cluster_data", "write_channel_data",
                                        "write_channel_positions", "write_templates", "write_template_data", "write_misc">>)
  /\ Clause(r.id, "I.channel_map", outChanMap = o.chmap)
  \* ---- C12 (P-layer)
  /\ Clause(r.id, "C12.ChannelBlocks", outChanProbe = o.chprobe /\ ChannelBlocks)
  /\ Clause(r.id, "C12.geometry", GeometryOk(o.posx, o.posy))
  /\ Len(o.st) = Len(spikeOrder) =>
        /\ Clause(r.id, "C12.TemplateBlocks", Len(o.T) = SumSeq([k \in 1..NP |-> probes[k].ntm]) /\ TemplateRowsP(o))
        /\ Clause(r.id, "C12.PcIndShifted", PcIndP(o))
        /\ Clause(r.id, "C12.TfIndShifted", TfIndP(o))
  /\ Clause(r.id, "C12.whitening", o.wm = (IF AllHave("wm") THEN BlockDiag([k \in 1..NP |-> probes[k].wm]) ELSE <<>>))
  /\ Clause(r.id, "C12.whitening_inv", o.wmi = (IF AllHave("wmi") THEN BlockDiag([k \in 1..NP |-> probes[k].wmi]) ELSE <<>>))
  /\ Clause(r.id, "C12.similarity", o.sim = (IF AllHave("sim") THEN BlockDiag([k \in 1..NP |-> probes[k].sim]) ELSE <<>>))
  /\ Clause(r.id, "C12.params", o.rate = probes[1].rate /\ o.ncdat = SumSeq([k \in 1..NP |-> probes[k].ncdat]))
  /\ Clause(r.id, "C12.model", r.modelOk)
Step == pc \notin {"done", "pick"} /\ Next /\ i' = i
Consume == /\ pc = "done" /\ i <= Len(Trace)
           /\ Check1(Trace[i]) /\ TLCSet(2, i) /\ i' = i + 1
           /\ IF i < Len(Trace) THEN Reset(Trace[i + 1]) ELSE UNCHANGED vars
TNext == Step \/ Consume
TSpec == TInit /\ [][TNext]_<<vars, i>>
Accepted == Verdict(TLCGet(2)) /\ TLCGet(2) = Len(Trace)
====
