SPECIFICATION Spec
CONSTANTS
  MaxScript = 5
  Flaky = TRUE
INVARIANT EmitCase
