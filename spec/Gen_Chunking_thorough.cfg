SPECIFICATION Spec
CONSTANTS
  Modes = {"gen", "bounds", "cbin", "exc"}
  MaxN = 60
  MaxCS = 20
  MaxFiles = 4
  MaxTotal = 14
  MaxChunk = 16
  MaxChunks = 16
  MaxThreads = 8
  MaxEN = 40
  MaxNE = 8
  MaxES = 8
INVARIANT EmitCase
