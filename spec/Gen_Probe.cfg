SPECIFICATION PSpec
CONSTANTS
  Depth = 2
INVARIANT EmitCase
