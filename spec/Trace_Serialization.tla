---- MODULE Trace_Serialization ----
(* V: random values / tables pushed through the real save_json+load_json and write_tsv+read_tsv:
   {id, mode: "json", key, value, outKey, out}  |  {id, mode: "tsv", first, rows, header, out}
   (rows / out as sequences of sets of <<field, cell>> pairs). The P-layer (Norm, RowNorm, header
   order) is evaluated on the logged inputs and outputs; the I-layer Dec(Enc(.)) must agree too. *)
EXTENDS Serialization
VARIABLE i
Trace == ndJsonDeserialize(TraceFile)
TInit == Init /\ i = 1 /\ RejectInit /\ TLCSet(2, 0)
AsRow(ps) == [f \in {ps[q][1] : q \in 1..Len(ps)} |-> ps[CHOOSE q \in 1..Len(ps) : ps[q][1] = f][2]]   \* pairs arrive as JSON arrays
Check1(r) ==
  IF r.mode = "json"
  THEN /\ Clause(r.id, "key", r.outKey = r.key)
       /\ Clause(r.id, "RoundTrip", r.out = Norm(r.value))
       /\ Clause(r.id, "DecEnc", Dec(Enc(r.value)) = r.out)
  ELSE LET rows == [q \in 1..Len(r.rows) |-> AsRow(r.rows[q])]
           out == [q \in 1..Len(r.out) |-> AsRow(r.out[q])]
           F == UNION {DOMAIN rows[q] : q \in 1..Len(rows)} IN
       /\ Clause(r.id, "TableRoundTrip", out = [q \in 1..Len(rows) |-> RowNorm(rows[q])])
       /\ Clause(r.id, "header", r.header = HeaderOf(F, r.first))
       /\ Clause(r.id, "ReadWrite", ReadTsv(WriteTsv(rows, r.first)) = out)
TNext == /\ i <= Len(Trace) /\ Check1(Trace[i]) /\ TLCSet(2, i) /\ i' = i + 1 /\ UNCHANGED vars
TSpec == TInit /\ [][TNext]_<<vars, i>>
Accepted == Verdict(TLCGet(2)) /\ TLCGet(2) = Len(Trace)
====
