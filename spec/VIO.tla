---- MODULE VIO ----
(* Shared I/O idioms (DESIGN.md 2.2).
   G runs: Emit(rec) appends one JSON line to IOEnv.OUT_FILE; it is evaluated from an INVARIANT,
           so exactly once per distinct state (TLC evaluates invariants on new states only).
   V runs: TraceFile is the ndjson file recorded from the implementation.                      *)
EXTENDS TLC, Json, IOUtils, CSV, Sequences, Integers

Emit(rec) == CSVWrite("%1$s", <<ToJson(rec)>>, IOEnv.OUT_FILE)

TraceFile == IOEnv.TRACE_FILE

\* The verdict register: a set of <<id, clause>> pairs naming every failed predicate.
RejectInit == TLCSet(1, {})
Reject(id, clause) == TLCSet(1, TLCGet(1) \cup {<<id, clause>>})
\* Check one named clause of one record; always TRUE (total verdict), records failures.
Clause(id, name, ok) == IF ok THEN TRUE ELSE Reject(id, name)
Verdict(consumed) == PrintT(<<"VERDICT", consumed, TLCGet(1)>>)

\* Small arithmetic helpers shared by all modules (names chosen not to clash with
\* CommunityModules' Min/Max/SetToSeq).
Min2(a, b) == IF a < b THEN a ELSE b
Max2(a, b) == IF a > b THEN a ELSE b
CeilDiv(a, b) == (a + b - 1) \div b
RECURSIVE SumSeq(_)
SumSeq(s) == IF s = <<>> THEN 0 ELSE Head(s) + SumSeq(Tail(s))
SeqSet(s) == {s[k] : k \in 1..Len(s)}
\* Python's range(a, b, step) for step > 0, as a sequence
RangeSeq(a, b, step) == [i \in 1..(IF b > a THEN ((b - a - 1) \div step) + 1 ELSE 0) |-> a + (i - 1) * step]
\* 0-based half-open interval of integers as a sequence a, a+1, ..., b-1
Iota(a, b) == [i \in 1..(IF b > a THEN b - a ELSE 0) |-> a + i - 1]
RECURSIVE Compositions(_, _)
Compositions(total, k) == IF k = 1 THEN {<<total>>}
                          ELSE UNION {{<<f>> \o r : r \in Compositions(total - f, k - 1)} : f \in 1..(total - k + 1)}
AllCompositions(total, maxk) == UNION {Compositions(total, k) : k \in 1..Min2(maxk, total)}
====
