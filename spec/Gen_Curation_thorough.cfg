SPECIFICATION Spec
CONSTANTS
  NSpikes = 5
  NTemplates = 3
  Depth = 2
  MaxId = 7
INVARIANT EmitCase
