SPECIFICATION FairSpec
CONSTANTS
  MaxScript = 5
  Flaky = TRUE
INVARIANT ReturnedImpliesValid
INVARIANT AtMostTwoGets
INVARIANT NoRedundantGet
INVARIANT FaultsRaise
PROPERTY ExactlyOneRetry
PROPERTY Terminates
