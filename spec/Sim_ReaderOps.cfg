SPECIFICATION Spec
CONSTANTS
  MaxReaders = 9
  OpSet <- FullOps
  ChainOnly = FALSE
  Aliasing = FALSE
INVARIANT EmitCase
