---- MODULE Probe ----
(* Growth beyond the listed properties: electrode/mea.py - the MEA object over a PRB probe description.

   State: the probe description (picked once), the current channel group, and what the object shows.
     Pick          choose a probe: two channel groups over channels 0..3, each with an ORDERED channel list
                   (the order is kept, it need not be increasing), a position per channel, and a graph (edges)
     Construct     MEA(probe=...) selects the FIRST group in sorted key order and builds the adjacency of the
                   WHOLE probe (edges of all groups, both directions; channels without an edge do not appear)
     Change(g)     change_channel_group(g): channels and positions switch, the adjacency does not
   Pure helpers: _adjacency_subset (keys and neighbours restricted to a subset) and _remap_adjacency.
   P-layer: ShownIsGroup (channels = the group's list in its order, positions aligned with it),
   AdjacencyIsSymmetricClosure, AdjacencyStable, SubsetOk, RemapOk.                                     *)
EXTENDS VIO, FiniteSets
CONSTANTS Depth

Chans == 0..3
Groups == {1, 2}
\* ordered channel lists of the two groups: a split of a permutation of the channels
Perms == {p \in [1..4 -> Chans] : \A i, j \in 1..4 : i # j => p[i] # p[j]}
Splits == {<<SubSeq(p, 1, k), SubSeq(p, k + 1, 4)>> : p \in Perms, k \in 1..3}
\* graphs: any set of edges between channels of the same group (given as ordered pairs, as in a PRB file)
EdgesOf(chs) == {<<a, b>> : a \in SeqSet(chs), b \in SeqSet(chs)} \ {<<a, a>> : a \in SeqSet(chs)}
PosOf(c) == <<10 * (c % 2), 20 * c>>

VARIABLES split, graph, group, shown, pc, hist
pvars == <<split, graph, group, shown, pc, hist>>
PInit == split = <<>> /\ graph = <<>> /\ group = 0 /\ shown = <<>> /\ pc = "pick" /\ hist = <<>>

\* ---------------------------------------------------------------------------- I-layer
Adj(gr) == LET E == gr[1] \cup gr[2]
               nodes == {e[1] : e \in E} \cup {e[2] : e \in E}
           IN [n \in nodes |-> {e[2] : e \in {x \in E : x[1] = n}} \cup {e[1] : e \in {x \in E : x[2] = n}}]
View(sp, gr, g) == [channels |-> sp[g], positions |-> [i \in 1..Len(sp[g]) |-> PosOf(sp[g][i])], adjacency |-> Adj(gr)]
Pick == /\ pc = "pick"
        /\ split' \in Splits
        /\ pc' = "graph" /\ UNCHANGED <<graph, group, shown, hist>>
\* (second stage so that TLC's workers share the enumeration) at most two edges per group
PickGraph == /\ pc = "graph"
             /\ \E g1 \in {s \in SUBSET EdgesOf(split[1]) : Cardinality(s) <= 2},
                   g2 \in {s \in SUBSET EdgesOf(split[2]) : Cardinality(s) <= 1} : graph' = <<g1, g2>>
             /\ pc' = "construct" /\ UNCHANGED <<split, group, shown, hist>>
Construct == /\ pc = "construct"
             /\ group' = 1 /\ shown' = View(split, graph, 1)
             /\ pc' = "run" /\ UNCHANGED <<split, graph, hist>>
Change(g) == /\ pc = "run" /\ Len(hist) < Depth
             /\ group' = g /\ shown' = [shown EXCEPT !.channels = split[g],
                                                      !.positions = [i \in 1..Len(split[g]) |-> PosOf(split[g][i])]]
             /\ hist' = Append(hist, g)
             /\ UNCHANGED <<split, graph, pc>>
PNext == Pick \/ PickGraph \/ Construct \/ \E g \in Groups : Change(g)
PSpec == PInit /\ [][PNext]_pvars

AdjSubset(adj, S) == [c \in DOMAIN adj \cap S |-> adj[c] \cap S]
Remap(adj, mp) == [k \in {mp[c] : c \in DOMAIN adj} |-> UNION {{mp[i] : i \in adj[c]} : c \in {x \in DOMAIN adj : mp[x] = k}}]

\* ---------------------------------------------------------------------------- P-layer
Running == pc = "run"
ShownIsGroup == Running => /\ shown.channels = split[group]
                           /\ Len(shown.positions) = Len(shown.channels)
                           /\ \A i \in 1..Len(shown.channels) : shown.positions[i] = PosOf(shown.channels[i])
AdjacencyIsSymmetricClosure == Running =>
   LET a == shown.adjacency IN
   /\ \A x \in DOMAIN a : \A y \in a[x] : y \in DOMAIN a /\ x \in a[y]
   /\ \A x \in Chans, y \in Chans : (<<x, y>> \in graph[1] \cup graph[2]) => (x \in DOMAIN a /\ y \in a[x])
   /\ \A x \in DOMAIN a : \A y \in a[x] : <<x, y>> \in graph[1] \cup graph[2] \/ <<y, x>> \in graph[1] \cup graph[2]
AdjacencyStable == [][(pc = "run" /\ pc' = "run") => shown'.adjacency = shown.adjacency]_pvars
SubsetOk == Running => \A S \in SUBSET Chans :
   LET r == AdjSubset(shown.adjacency, S) IN
   /\ DOMAIN r \subseteq S /\ \A c \in DOMAIN r : r[c] \subseteq S /\ r[c] = shown.adjacency[c] \cap S
RemapOk == Running => \A sh \in {1, 5} :
   LET mp == [c \in Chans |-> c + sh] r == Remap(shown.adjacency, mp) IN
   \A c \in DOMAIN shown.adjacency : r[c + sh] = {y + sh : y \in shown.adjacency[c]}

\* ---------------------------------------------------------------------------- G
AsSeq(S) == [r \in 1..Cardinality(S) |-> CHOOSE x \in S : Cardinality({y \in S : y < x}) = r - 1]
EdgeSeq(E) == [r \in 1..Cardinality(E) |-> CHOOSE e \in E : Cardinality({f \in E : f[1] < e[1] \/ (f[1] = e[1] /\ f[2] < e[2])}) = r - 1]
CaseRecord == [split |-> split, graph |-> <<EdgeSeq(graph[1]), EdgeSeq(graph[2])>>, changes |-> hist,
               channels |-> shown.channels, positions |-> shown.positions,
               adjacency |-> [k \in 1..Cardinality(DOMAIN shown.adjacency) |->
                                 <<AsSeq(DOMAIN shown.adjacency)[k], AsSeq(shown.adjacency[AsSeq(DOMAIN shown.adjacency)[k]])>>],
               subsets |-> [k \in 1..3 |-> LET S == {{0, 1}, {1, 2, 3}, {}}  IN
                    LET T == CHOOSE t \in S : Cardinality({u \in S : Cardinality(u) < Cardinality(t)}) = k - 1 IN
                    LET r == AdjSubset(shown.adjacency, T) IN
                    <<AsSeq(T), [j \in 1..Cardinality(DOMAIN r) |-> <<AsSeq(DOMAIN r)[j], AsSeq(r[AsSeq(DOMAIN r)[j]])>>]>>]]
EmitCase == (pc = "run" /\ Len(hist) = Depth) => Emit(CaseRecord)
====
