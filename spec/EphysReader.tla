---- MODULE EphysReader ----
(* C01 - raw-data reader indexing equals NumPy indexing of the concatenated recording.

   I-layer: io/traces.py BaseEphysReader.__getitem__ and _get_subitems, one action per step
     Request   the caller's item (int / unit-step slice / strictly increasing list) and optional
               column selector
     Split     _get_subitems: `start or bounds[0]`, `% bounds[-1]` for negative bounds,
               min(., bounds[-1]), _find_chunks = searchsorted(bounds, x, 'right') - 1, per-part
               clipping; list branch: np.unique of the part indices and the mask i0 <= item < i1;
               int branch: negative index modulo the total length
     ReadPart  one _get_part per sub-item (in order)
     Stack     vstack of the parts read
     Cols      the deferred 'cols' operation applied to the stacked rows
   A row is its global index 0..n-1, a column its index 0..NCh-1: the spec reasons about WHICH
   cell ends up WHERE, whatever the sample type.
   P-layer: NumpyRows / NumpyCols - NumPy's own indexing semantics on the concatenated array.   *)
EXTENDS VIO, FiniteSets
CONSTANTS MaxN, NCh, MaxParts
None == 99   \* sentinel for an absent slice bound

\* ---------------------------------------------------------------------------- P-layer
NormBound(b, n, dflt) == IF b = None THEN dflt
                         ELSE IF b < 0 THEN (IF b + n < 0 THEN 0 ELSE b + n)
                         ELSE (IF b > n THEN n ELSE b)
NumpySlice(n, a, b) == LET s == NormBound(a, n, 0)  e == NormBound(b, n, n) IN Iota(s, e)
NumpyRows(n, rq) == IF rq.k = "int" THEN <<IF rq.a < 0 THEN rq.a + n ELSE rq.a>>
                    ELSE IF rq.k = "list" THEN rq.idx
                    ELSE NumpySlice(n, rq.a, rq.b)
\* column selectors: none | slice 1:NCh | reversed ::-1 | list [0, NCh-1] | permutation (rotation)
ColKinds == {"none", "slice", "rev", "list", "perm"}
NumpyCols(nc, k) == IF k = "none" THEN Iota(0, nc)
                    ELSE IF k = "slice" THEN Iota(1, nc)
                    ELSE IF k = "rev" THEN [j \in 1..nc |-> nc - j]
                    ELSE IF k = "list" THEN (IF nc > 1 THEN <<0, nc - 1>> ELSE <<0>>)
                    ELSE [j \in 1..nc |-> (j + 1) % nc]          \* 2, 3, .., 0 .. rotated

\* ---------------------------------------------------------------------------- helpers
RECURSIVE Cumsum(_, _)
Cumsum(s, acc) == IF s = <<>> THEN <<>> ELSE <<acc + Head(s)>> \o Cumsum(Tail(s), acc + Head(s))
Bounds(p) == <<0>> \o Cumsum(p, 0)
Total(p) == SumSeq(p)
FindChunk(bounds, x) == Cardinality({k \in 1..Len(bounds) : bounds[k] <= x}) - 1   \* searchsorted 'right' - 1
PyOr(x, d) == IF x = None \/ x = 0 THEN d ELSE x      \* Python's `x or d`: 0 is falsy too
AscSeq(S) == [r \in 1..Cardinality(S) |-> CHOOSE x \in S : Cardinality({y \in S : y < x}) = r - 1]

\* ---------------------------------------------------------------------------- I-layer operators
\* sub-items are records [part, lo, hi] (slice) or [part, idx] (list)
SplitSlice(bounds, a, b) ==
  LET last == bounds[Len(bounds)]
      s0 == PyOr(a, bounds[1])
      e0 == PyOr(b, last)
      s1 == IF s0 < 0 THEN s0 % last ELSE s0
      s  == Min2(s1, last)
      e1 == IF e0 < 0 THEN e0 % last ELSE e0
      e  == Min2(e1, last)
      fc == FindChunk(bounds, s)
      lc == FindChunk(bounds, e - 1)
  IN [k \in 1..(IF lc >= fc THEN lc - fc + 1 ELSE 0) |->
        LET ch == fc + k - 1   i0 == bounds[ch + 1]   i1 == bounds[ch + 2]
        IN [part |-> ch, lo |-> Max2(0, s - i0), hi |-> Min2(i1 - i0, e - i0)]]
SplitInt(bounds, i) ==
  LET last == bounds[Len(bounds)]
      j == IF i < 0 THEN i % last ELSE i
      ch == FindChunk(bounds, j)
  IN <<[part |-> ch, lo |-> j - bounds[ch + 1], hi |-> j - bounds[ch + 1] + 1]>>
SplitList(bounds, item) ==
  LET us == AscSeq({FindChunk(bounds, item[i]) : i \in 1..Len(item)})        \* np.unique(chunks)
  IN [k \in 1..Len(us) |-> LET ch == us[k]  i0 == bounds[ch + 1]  i1 == bounds[ch + 2]
                                sel == SelectSeq(item, LAMBDA x : i0 <= x /\ x < i1)
                            IN [part |-> ch, idx |-> [j \in 1..Len(sel) |-> sel[j] - i0]]]
SplitOf(bounds, rq) == IF rq.k = "int" THEN SplitInt(bounds, rq.a)
                       ELSE IF rq.k = "list" THEN SplitList(bounds, rq.idx)
                       ELSE SplitSlice(bounds, rq.a, rq.b)
\* global rows delivered by one _get_part call
PartRows(bounds, si, isList) == IF isList THEN [j \in 1..Len(si.idx) |-> bounds[si.part + 1] + si.idx[j]]
                                ELSE [j \in 1..(IF si.hi > si.lo THEN si.hi - si.lo ELSE 0) |-> bounds[si.part + 1] + si.lo + j - 1]

\* ---------------------------------------------------------------------------- the machine
VARIABLES parts, req, cols, sub, reads, out, colsOut, pc
vars == <<parts, req, cols, sub, reads, out, colsOut, pc>>
Init == parts = <<>> /\ req = [k |-> "none"] /\ cols = "none" /\ sub = <<>> /\ reads = <<>> /\ out = <<>>
        /\ colsOut = <<>> /\ pc = "open"
Open == /\ pc = "open" /\ \E n \in 1..MaxN : parts' \in AllCompositions(n, MaxParts)
        /\ pc' = "idle" /\ UNCHANGED <<req, cols, sub, reads, out, colsOut>>
BoundVals(n) == ((-n)..n) \cup {None}
Request == /\ pc = "idle"
           /\ LET n == Total(parts) IN
              \/ \E i \in (-n)..(n - 1) : req' = [k |-> "int", a |-> i]
              \/ \E a \in BoundVals(n), b \in BoundVals(n) :
                    NumpySlice(n, a, b) # <<>> /\ req' = [k |-> "slice", a |-> a, b |-> b]
              \/ \E S \in (SUBSET (0..(n - 1))) \ {{}} : req' = [k |-> "list", idx |-> AscSeq(S)]
           /\ cols' \in ColKinds
           /\ pc' = "req" /\ UNCHANGED <<parts, sub, reads, out, colsOut>>
Split == /\ pc = "req" /\ sub' = SplitOf(Bounds(parts), req)
         /\ pc' = "read" /\ UNCHANGED <<parts, req, cols, reads, out, colsOut>>
ReadPart == /\ pc = "read" /\ Len(reads) < Len(sub)
            /\ LET si == sub[Len(reads) + 1] IN
               reads' = Append(reads, PartRows(Bounds(parts), si, req.k = "list"))
            /\ UNCHANGED <<parts, req, cols, sub, out, colsOut, pc>>
RECURSIVE Concat(_)
Concat(ss) == IF ss = <<>> THEN <<>> ELSE Head(ss) \o Concat(Tail(ss))
Stack == /\ pc = "read" /\ Len(reads) = Len(sub)
         /\ out' = Concat(reads) /\ pc' = "cols" /\ UNCHANGED <<parts, req, cols, sub, reads, colsOut>>
Cols == /\ pc = "cols" /\ colsOut' = NumpyCols(NCh, cols)
        /\ pc' = "done" /\ UNCHANGED <<parts, req, cols, sub, reads, out>>
Next == Open \/ Request \/ Split \/ ReadPart \/ Stack \/ Cols
Spec == Init /\ [][Next]_vars

\* ---------------------------------------------------------------------------- properties
SubitemsWellFormedOf(p, rq, sb) ==
   /\ sb # <<>>
   /\ \A q \in 1..(Len(sb) - 1) : sb[q].part < sb[q + 1].part
   /\ \A q \in 1..Len(sb) : /\ 0 <= sb[q].part /\ sb[q].part < Len(p)
                            /\ IF rq.k = "list"
                               THEN sb[q].idx # <<>> /\ \A j \in 1..Len(sb[q].idx) : 0 <= sb[q].idx[j] /\ sb[q].idx[j] < p[sb[q].part + 1]
                               ELSE 0 <= sb[q].lo /\ sb[q].lo < sb[q].hi /\ sb[q].hi <= p[sb[q].part + 1]
SplitCorrect == pc \in {"cols", "done"} => out = NumpyRows(Total(parts), req)
SubitemsWellFormed == pc \in {"read", "cols", "done"} => SubitemsWellFormedOf(parts, req, sub)
ColsCorrect == pc = "done" => colsOut = NumpyCols(NCh, cols)

\* ---------------------------------------------------------------------------- G
CaseRecord == [parts |-> parts, n |-> Total(parts), bounds |-> Bounds(parts), req |-> req, cols |-> cols, sub |-> sub,
               nreads |-> [q \in 1..Len(reads) |-> Len(reads[q])], rows |-> out, colsOut |-> colsOut]
EmitCase == pc = "done" => Emit(CaseRecord)
====
