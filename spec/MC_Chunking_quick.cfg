SPECIFICATION FairSpec
CONSTANTS
  Modes = {"gen", "bounds", "cbin", "exc"}
  MaxN = 30
  MaxCS = 12
  MaxFiles = 3
  MaxTotal = 9
  MaxChunk = 11
  MaxChunks = 8
  MaxThreads = 4
  MaxEN = 24
  MaxNE = 6
  MaxES = 6
INVARIANT Tiles
INVARIANT TilesEquiv
INVARIANT Inside
INVARIANT Size
INVARIANT BoundsValid
INVARIANT BaseIterTiles
INVARIANT IterTiles
INVARIANT ExcerptsValid
INVARIANT GetExcerptsValid
PROPERTY Terminates
PROPERTY DoneIsFinal
