SPECIFICATION Spec
CONSTANTS
  MaxV = 2
  Depth = 5
  KeepHist = TRUE
INVARIANT EmitCase
