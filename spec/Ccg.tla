---- MODULE Ccg ----
(* C15 - correlograms count exactly the spike pairs in each lag bin.

   I-layer: stats/ccg.py correlograms(): the shift loop with its shrinking mask
     Shift       one iteration of `while mask[:-shift].any()`: differences at distance `shift`,
                 binarised with floor division, spikes whose bin exceeds the half window are
                 masked for good, the remaining ones increment counts[ci[a]][ci[b]][d]
     Stop        loop exit
     Symmetrize  _symmetrize_correlograms: max at lag 0 (in place), mirrored transposed negative lags
   P-layer: PairCount (brute force over all pairs a < b), SymOk, FiringRate, termination.
   Times are in samples (integers); the harness divides by a power-of-two rate so that
   time * rate is exact, as the statement requires.                                            *)
EXTENDS VIO, FiniteSets
CONSTANTS MaxLen, MaxT, IdLists, WideLen, Bins, MaxHalf
VARIABLES t, c, ids, bin, half, shift, mask, counts, sym, pc
vars == <<t, c, ids, bin, half, shift, mask, counts, sym, pc>>

NCof(l) == Len(l)
IndexIn(l, x) == CHOOSE i \in 1..Len(l) : l[i] = x          \* _index_of on the caller's order
RECURSIVE NonDecr(_, _)
NonDecr(len, lo) == IF len = 0 THEN {<<>>} ELSE UNION {{<<v>> \o r : r \in NonDecr(len - 1, v)} : v \in lo..MaxT}
ZeroCounts(nc, h) == [i \in 1..nc |-> [j \in 1..nc |-> [k \in 0..h |-> 0]]]

Init == /\ \E len \in 1..MaxLen : /\ t \in NonDecr(len, 0)
                                  /\ ids \in {l \in IdLists : Len(l) < 4 \/ len <= WideLen}
                                  /\ c \in [1..len -> SeqSet(ids)]
        /\ bin \in Bins /\ half \in 0..MaxHalf
        /\ shift = 1 /\ mask = [i \in 1..Len(t) |-> TRUE] /\ pc = "loop"
        /\ counts = ZeroCounts(Len(ids), half) /\ sym = <<>>
n == Len(t)
NC == Len(ids)
CI(i) == IndexIn(ids, c[i])
Live == \E i \in 1..(n - shift) : mask[i]
Diff(i) == (t[i + shift] - t[i]) \div bin
Shift == /\ pc = "loop" /\ Live
         /\ LET mask1 == [i \in 1..n |-> IF i <= n - shift /\ Diff(i) > half THEN FALSE ELSE mask[i]]
                sel == {i \in 1..(n - shift) : mask1[i]}
            IN /\ mask' = mask1
               /\ counts' = [a \in 1..NC |-> [b \in 1..NC |-> [k \in 0..half |->
                      counts[a][b][k] + Cardinality({i \in sel : CI(i) = a /\ CI(i + shift) = b /\ Diff(i) = k})]]]
         /\ shift' = shift + 1 /\ UNCHANGED <<t, c, ids, bin, half, sym, pc>>
Stop == /\ pc = "loop" /\ ~Live /\ pc' = "sym" /\ UNCHANGED <<t, c, ids, bin, half, shift, mask, counts, sym>>
\* bins of the symmetrised array are numbered 1..2*half+1, lag = index - 1 - half
Symmetrize == /\ pc = "sym"
              /\ LET c0(i, j) == Max2(counts[i][j][0], counts[j][i][0]) IN
                 sym' = [i \in 1..NC |-> [j \in 1..NC |->
                           [k \in 1..half |-> counts[j][i][half - k + 1]]      \* reversed, transposed
                           \o <<c0(i, j)>>
                           \o [k \in 1..half |-> counts[i][j][k]]]]
              /\ pc' = "done" /\ UNCHANGED <<t, c, ids, bin, half, shift, mask, counts>>
Next == Shift \/ Stop \/ Symmetrize
Spec == Init /\ [][Next]_vars
FairSpec == Spec /\ WF_vars(Next)

\* ---------------------------------------------------------------------------- P-layer
\* parameterised by the inputs so that the trace specification can evaluate it on logged runs
PairCountOf(tt, cc, l, b, a1, a2, k) ==
   Cardinality({p \in (1..Len(tt)) \X (1..Len(tt)) :
                  /\ p[1] < p[2] /\ cc[p[1]] = l[a1] /\ cc[p[2]] = l[a2]
                  /\ (tt[p[2]] - tt[p[1]]) \div b = k})
CorrectOf(tt, cc, l, b, h, cnt) ==
   \A a1 \in 1..Len(l), a2 \in 1..Len(l), k \in 0..h : cnt[a1][a2][k + 1] = PairCountOf(tt, cc, l, b, a1, a2, k)
SortedTimes(tt) == LET S == SeqSet(tt) IN
                   [r \in 1..Cardinality(S) |-> CHOOSE x \in S : Cardinality({y \in S : y < x}) = r - 1]
\* The same count for a LONG DENSE train given as a bag: tv = the distinct times (increasing), nn[u][a] = number of
\* spikes of cluster l[a] at time tv[u]; spikes sharing a time are ordered by the position of their cluster in l.
\* (Grouping equal spikes: pairs at different times multiply, pairs at one time are C(n, 2) within a cluster and
\* go to the (earlier, later) direction between two clusters.)
PairBagOf(tv, nn, b, a1, a2, k) ==
   SumSeq([u \in 1..Len(tv) |-> SumSeq([v \in 1..Len(tv) |->
              IF u < v /\ (tv[v] - tv[u]) \div b = k THEN nn[u][a1] * nn[v][a2] ELSE 0])])
   + (IF k = 0 THEN SumSeq([u \in 1..Len(tv) |->
              IF a1 = a2 THEN (nn[u][a1] * (nn[u][a1] - 1)) \div 2 ELSE IF a1 < a2 THEN nn[u][a1] * nn[u][a2] ELSE 0])
      ELSE 0)
CorrectBagOf(tv, nn, l, b, h, cnt) ==
   \A a1 \in 1..Len(l), a2 \in 1..Len(l), k \in 0..h : cnt[a1][a2][k + 1] = PairBagOf(tv, nn, b, a1, a2, k)
\* (the two formulations agree: checked by TLC on every small train, BagAgrees)
BagOfTrain(tt, cc, l) ==
   LET tvs == SortedTimes(tt) IN
   [tv |-> tvs, nn |-> [u \in 1..Len(tvs) |-> [a \in 1..Len(l) |->
                          Cardinality({i \in 1..Len(tt) : tt[i] = tvs[u] /\ cc[i] = l[a]})]]]
\* cnt1 = one-sided result (bins 1..h+1 <-> lags 0..h), s = symmetrised (bins 1..2h+1 <-> lags -h..h)
SymOkOf(l, h, cnt1, s) ==
   \A i \in 1..Len(l), j \in 1..Len(l) :
      /\ Len(s[i][j]) = 2 * h + 1
      /\ \A k \in (-h)..h : s[i][j][k + h + 1] = s[j][i][-k + h + 1]
      /\ \A k \in 1..h : s[i][j][k + h + 1] = cnt1[i][j][k + 1]
      /\ s[i][j][h + 1] = Max2(cnt1[i][j][1], cnt1[j][i][1])
AsSeqs(cnt, h) == [i \in 1..Len(cnt) |-> [j \in 1..Len(cnt) |-> [k \in 1..(h + 1) |-> cnt[i][j][k - 1]]]]
\* a train whose equal-time spikes are ordered by cluster position
BlockOrdered(tt, cc, l) == \A i \in 1..(Len(tt) - 1) : tt[i] = tt[i + 1] => IndexIn(l, cc[i]) <= IndexIn(l, cc[i + 1])
BagAgrees == (pc = "loop" /\ shift = 1 /\ BlockOrdered(t, c, ids)) =>
                \A bg \in {BagOfTrain(t, c, ids)} :
                \A a1 \in 1..Len(ids), a2 \in 1..Len(ids), k \in 0..half :
                   PairBagOf(bg.tv, bg.nn, bin, a1, a2, k) = PairCountOf(t, c, ids, bin, a1, a2, k)
Correct == pc \in {"sym", "done"} => CorrectOf(t, c, ids, bin, half, AsSeqs(counts, half))
SymOk == pc = "done" => SymOkOf(ids, half, AsSeqs(counts, half), sym)
Terminates == <>(pc = "done")
\* firing_rate: outer product of the per-cluster spike counts (times bin/duration, applied by the harness
\* as an exact dyadic factor); zero rows/columns for clusters without spikes
CountOf(cc, x) == Cardinality({i \in 1..Len(cc) : cc[i] = x})
RateNum(cc, l) == [i \in 1..Len(l) |-> [j \in 1..Len(l) |-> CountOf(cc, l[i]) * CountOf(cc, l[j])]]
SortedIds(cc) == LET S == SeqSet(cc) IN
                 [r \in 1..Cardinality(S) |-> CHOOSE x \in S : Cardinality({y \in S : y < x}) = r - 1]

\* ---------------------------------------------------------------------------- G
CaseRecord == [t |-> t, c |-> c, ids |-> ids, bin |-> bin, half |-> half,
               counts |-> AsSeqs(counts, half), sym |-> sym, shifts |-> shift - 1,
               rate |-> RateNum(c, ids), sorted |-> SortedIds(c), rateSorted |-> RateNum(c, SortedIds(c))]
EmitCase == pc = "done" => Emit(CaseRecord)

L1 == <<3>>
L2 == <<5, 0>>
L3 == <<5, 0, 2>>
L3b == <<0, 2, 5>>
L4 == <<2, 7, 0, 5>>
L2p == <<1, 0>>          \* permutations of the dense range 0..n-1 (a lookup that is 'almost the identity')
L3p == <<2, 0, 1>>
IdListsQ == {L1, L2, L2p, L3, L3p, L4}
IdListsT == {L1, L2, L2p, L3, L3b, L3p, L4}
====
