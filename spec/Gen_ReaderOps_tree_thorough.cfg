SPECIFICATION Spec
CONSTANTS
  MaxReaders = 5
  OpSet <- SmallOps
  ChainOnly = FALSE
  Aliasing = FALSE
INVARIANT EmitCase
