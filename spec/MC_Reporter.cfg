SPECIFICATION Spec
CONSTANTS
  MaxV = 3
  Depth = 0
  KeepHist = FALSE
INVARIANT FlagIsArmed
PROPERTY AnnounceIffArmed
PROPERTY OnlyUpdatesAnnounce
