SPECIFICATION ASpec
CONSTANTS
  Labels = {"", "probe00", "a"}
INVARIANT Labelled
INVARIANT SourceFrame
INVARIANT TargetComplete
