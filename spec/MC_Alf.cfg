SPECIFICATION ASpec
CONSTANTS
  Labels = {"", "probe00", "s"}
INVARIANT Labelled
INVARIANT SourceFrame
INVARIANT TargetComplete
