SPECIFICATION ASpec
CONSTANTS
  Labels = {"", "probe00"}
INVARIANT Labelled
INVARIANT SourceFrame
INVARIANT TargetComplete
