SPECIFICATION Spec
CONSTANTS
  MaxScript = 3
  Flaky = TRUE
INVARIANT EmitCase
