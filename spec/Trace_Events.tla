---- MODULE Trace_Events ----
(* V: histories recorded from a real EventEmitter, one record per call:
   {id, op, ..., cbs: projected _callbacks after the call, silent: is_silent after the call}
   op = "begin" starts a new history on a fresh emitter. Each record is consumed by the matching
   action of Events with its logged arguments; the logged observation must equal the one the
   action produces, the logged state must equal the successor state, and the P-layer predicate
   EmitOkOf is evaluated on the logged calls / return kind.                                    *)
EXTENDS Events
VARIABLE i
Trace == ndJsonDeserialize(TraceFile)
TInit == Init /\ i = 1 /\ RejectInit /\ TLCSet(2, 0)
r == Trace[i]
StateOk == /\ Clause(r.id, "state.cbs", cbs' = r.cbs)
           /\ Clause(r.id, "state.silent", silent' = r.silent)
Begin == r.op = "begin" /\ cbs' = <<>> /\ silent' = FALSE /\ obs' = [op |-> "init"] /\ UNCHANGED hist
TConnect == r.op = "connect" /\ Connect(r.fn, r.ev, r.sender, r.last, r.style) /\ StateOk
TUnconnect == r.op = "unconnect" /\ Unconnect(r.x) /\ StateOk
TReset == r.op = "reset" /\ Reset /\ StateOk
TToggle == r.op = "toggle" /\ Toggle /\ StateOk
TSet == r.op = "set" /\ SetSilent(r.b) /\ StateOk
TEmit == /\ r.op = "emit" /\ Emit1(r.ev, r.sender, r.single) /\ StateOk
         /\ Clause(r.id, "calls", obs'.calls = r.calls)
         /\ Clause(r.id, "ret", obs'.ret = r.ret)
         /\ Clause(r.id, "passthrough", r.passthrough)
         /\ Clause(r.id, "EmitOk", EmitOkOf(cbs, silent, r))
TNext == /\ i <= Len(Trace) /\ i' = i + 1 /\ TLCSet(2, i)
         /\ (Begin \/ TConnect \/ TUnconnect \/ TReset \/ TToggle \/ TSet \/ TEmit)
TSpec == TInit /\ [][TNext]_<<vars, i>>
Accepted == Verdict(TLCGet(2)) /\ TLCGet(2) = Len(Trace)
====
