---- MODULE Mat ----
(* Small integer matrix / geometry operators shared by Templates, Summaries, Curation, Alf.
   Matrices are 1-based sequences of rows. *)
EXTENDS VIO, FiniteSets
MatMul(A, B) == [r \in 1..Len(A) |-> [c \in 1..Len(B[1]) |-> SumSeq([k \in 1..Len(B) |-> A[r][k] * B[k][c]])]]
SeqMax(s) == CHOOSE x \in SeqSet(s) : \A y \in SeqSet(s) : y <= x
SeqMin(s) == CHOOSE x \in SeqSet(s) : \A y \in SeqSet(s) : y >= x
Col(M, c) == [r \in 1..Len(M) |-> M[r][c]]
Amp(U) == [c \in 1..Len(U[1]) |-> SeqMax(Col(U, c)) - SeqMin(Col(U, c))]
Dist2(pos, a, b) == (pos[a][1] - pos[b][1]) * (pos[a][1] - pos[b][1]) + (pos[a][2] - pos[b][2]) * (pos[a][2] - pos[b][2])
\* N is a valid set of the n nearest channels of p
ValidNearest(N, pos, p, n) == LET nc == Len(pos) IN
   /\ N \subseteq 1..nc /\ Cardinality(N) = Min2(n, nc)
   /\ \A a \in N, b \in (1..nc) \ N : Dist2(pos, a, p) <= Dist2(pos, b, p)
Cols(M, ch) == [r \in 1..Len(M) |-> [k \in 1..Len(ch) |-> M[r][ch[k]]]]
Distinct(s) == Cardinality(SeqSet(s)) = Len(s)
NonIncreasingAlong(amp, ch) == \A k \in 1..(Len(ch) - 1) : amp[ch[k]] >= amp[ch[k + 1]]
Perms(S) == {s \in [1..Cardinality(S) -> S] : Cardinality({s[k] : k \in 1..Cardinality(S)}) = Cardinality(S)}

====
