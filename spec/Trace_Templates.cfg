SPECIFICATION TSpec
CONSTANTS
  NS = 0
  NCH = 0
  Vals = {}
  Wmis = {}
  PosSets = {}
  ShankSets = {}
  Thrs = {}
  NClosests = {}
POSTCONDITION Accepted
