SPECIFICATION TSpec
CONSTANTS
  NS = 0
  NCH = 0
  Vals = {}
  Wmis = {}
  NT = 0
  NSpk = 0
  AmpVals = {}
POSTCONDITION Accepted
