SPECIFICATION TSpec
CONSTANTS
  Depth = 0
  ForeignKinds <- AllForeignKinds
  KeepHist = FALSE
POSTCONDITION Accepted
