SPECIFICATION TSpec
CONSTANTS
  Depth = 0
  KeepHist = FALSE
POSTCONDITION Accepted
