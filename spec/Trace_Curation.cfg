SPECIFICATION TSpec
CONSTANTS
  NSpikes = 0
  NTemplates = 0
  Depth = 0
  MaxId = 0
POSTCONDITION Accepted
