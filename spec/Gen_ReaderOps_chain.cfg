SPECIFICATION Spec
CONSTANTS
  MaxReaders = 3
  OpSet <- FullOps
  ChainOnly = TRUE
  Aliasing = FALSE
INVARIANT EmitCase
