SPECIFICATION FairSpec
CONSTANTS
  MaxLen = 5
  MaxT = 4
  WideLen = 4
  IdLists <- IdListsT
  Bins = {1, 2}
  MaxHalf = 2
INVARIANT Correct
INVARIANT SymOk
INVARIANT BagAgrees
PROPERTY Terminates
