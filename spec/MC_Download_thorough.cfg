SPECIFICATION FairSpec
CONSTANTS
  MaxScript = 5
  Flaky = FALSE
INVARIANT ReturnedImpliesValid
INVARIANT AtMostTwoGets
INVARIANT NoRedundantGet
INVARIANT FaultsRaise
PROPERTY ExactlyOneRetry
PROPERTY Terminates
