---- MODULE Serialization ----
(* C18 - JSON, TSV/CSV and parameter-file serialisation round-trips values and types.

   Values are tagged trees; every kind keeps its payload in its own field (TLC refuses to compare
   values of different kinds): [t: "int", i] [t: "float", f: token] [t: "str", s: token]
   [t: "none"] [t: "bool", b] [t: "list", l] [t: "dict", ks, vs] [t: "nps", dt, i]
   [t: "nd", dt, shape, layout, data]  (data = the elements in logical C order, small integers).
   Strings and floats are tokens from small alphabets; the harness owns the token -> value tables,
   the spec only needs their classes (IsDigits, IsNumericLiteral).
   I-layer: Encode (stringify integer keys; arrays: 1-D of <= 10 items -> list, else
   {__ndarray__, dtype, shape} over the C-order bytes; NumPy scalar -> Python scalar), Decode
   (object hook; intify top-level digit keys); WriteTsv / ReadTsv; WriteSimple / ReadSimple;
   WritePython / ReadPython.
   P-layer: RoundTrip(d) = Normalize(d); ReadTsv(WriteTsv(rows)) = rows (floats at the written
   precision); ReadSimple(WriteSimple(m)) = m; ReadPython(WritePython(d)) = d.                 *)
EXTENDS VIO, FiniteSets
CONSTANTS Modes, MaxRows, Cells

VInt(x) == [t |-> "int", i |-> x]
VFloat(x) == [t |-> "float", f |-> x]
VStr(x) == [t |-> "str", s |-> x]
VNone == [t |-> "none"]
VBool(x) == [t |-> "bool", b |-> x]
VList(x) == [t |-> "list", l |-> x]
VDict(ks, vs) == [t |-> "dict", ks |-> ks, vs |-> vs]
VNps(dt, x) == [t |-> "nps", dt |-> dt, i |-> x]
VNd(dt, shape, layout, data) == [t |-> "nd", dt |-> dt, shape |-> shape, layout |-> layout, data |-> data]
KInt(x) == [k |-> "int", i |-> x]
KStr(x) == [k |-> "str", s |-> x]

Dtypes == {"int16", "uint8", "int64", "float32", "float64", "bool"}
Shapes == { << <<3>>, <<1, 0, 1>> >>, << <<10>>, <<0,1,0,1,1,0,1,0,1,1>> >>, << <<11>>, <<0,1,0,1,1,0,1,0,1,1,0>> >>,
            << <<0>>, <<>> >>, << <<2, 2>>, <<1, 0, 0, 1>> >>, << <<>>, <<1>> >>, << <<11, 1>>, <<0,1,0,1,1,0,1,0,1,1,0>> >>,
            << <<2, 1, 3>>, <<1,0,0,1,1,1>> >>, << <<0, 3>>, <<>> >> }
Arrays == {VNd(dt, sh[1], lay, sh[2]) : dt \in Dtypes, lay \in {"C", "F", "strided"}, sh \in Shapes}
Scalars == {VInt(3), VInt(-2), VInt(0), VFloat("f05"), VFloat("fm25"), VStr("abc"), VStr("d12"), VStr(""),
            VNone, VBool(TRUE), VBool(FALSE), VNps("int32", 4), VNps("uint8", 200), VNps("float64", 2)}
Atoms == Scalars \cup Arrays
Small == {VInt(3), VStr("abc"), VNone, VNps("int32", 4), VNd("int16", <<3>>, "C", <<1, 0, 1>>),
          VNd("float32", <<2, 2>>, "F", <<1, 0, 0, 1>>)}
Nested == {VList(<<a, b>>) : a \in Small, b \in Small}
          \cup {VDict(<<KStr("x"), KStr("y")>>, <<a, b>>) : a \in Small, b \in Small}
          \cup {VList(<<>>), VDict(<<>>, <<>>), VList(<<VList(<<VInt(3)>>)>>)}
\* string keys are not digit strings; "plusnum" stands for the text " +1_0 " - not a digit string, although Python's
\* int() would accept it: it stays a string key
Keys == {KInt(7), KInt(0), KInt(-1), KStr("name"), KStr("n12x"), KStr("plusnum")}

\* ---------------------------------------------------------------------------- JSON I-layer
\* JSON tree: [j: "num" | "fnum" | "str" | "null" | "bool" | "arr" | "obj" | "ndobj"]
IsFloatDt(dt) == dt \in {"float32", "float64", ">f4"}      \* (">f4", ">i2": non-native byte order)
NumOf(dt, x) == IF IsFloatDt(dt) THEN [j |-> "fnum", i |-> x]
                ELSE IF dt = "bool" THEN [j |-> "bool", b |-> (x # 0)] ELSE [j |-> "num", i |-> x]
RECURSIVE Enc(_)
Enc(x) == CASE x.t = "int" -> [j |-> "num", i |-> x.i]
            [] x.t = "float" -> [j |-> "ftok", f |-> x.f]
            [] x.t = "str" -> [j |-> "str", s |-> x.s]
            [] x.t = "none" -> [j |-> "null"]
            [] x.t = "bool" -> [j |-> "bool", b |-> x.b]
            [] x.t = "nps" -> NumOf(x.dt, x.i)                               \* obj.item()
            [] x.t = "list" -> [j |-> "arr", a |-> [q \in 1..Len(x.l) |-> Enc(x.l[q])]]
            [] x.t = "dict" -> [j |-> "obj", ks |-> x.ks, vs |-> [q \in 1..Len(x.vs) |-> Enc(x.vs[q])]]
            [] x.t = "nd" -> IF Len(x.shape) = 1 /\ x.shape[1] <= 10
                             THEN [j |-> "arr", a |-> [q \in 1..Len(x.data) |-> NumOf(x.dt, x.data[q])]]   \* tolist()
                             ELSE [j |-> "ndobj", bytes |-> x.data, dtype |-> x.dt, shape |-> x.shape]     \* ascontiguousarray: C order
RECURSIVE Dec(_)
Dec(j) == CASE j.j = "num" -> VInt(j.i)
            [] j.j = "fnum" -> [t |-> "floatint", i |-> j.i]          \* a float holding an integer value
            [] j.j = "ftok" -> VFloat(j.f)
            [] j.j = "str" -> VStr(j.s)
            [] j.j = "null" -> VNone
            [] j.j = "bool" -> VBool(j.b)
            [] j.j = "arr" -> VList([q \in 1..Len(j.a) |-> Dec(j.a[q])])
            [] j.j = "obj" -> VDict(j.ks, [q \in 1..Len(j.vs) |-> Dec(j.vs[q])])
            [] j.j = "ndobj" -> VNd(j.dtype, j.shape, "C", j.bytes)
\* top-level keys: str(int) on save; digit strings (optionally signed) become ints on load
KeyOut(k) == IF k.k = "int" THEN [c |-> "digits", i |-> k.i] ELSE [c |-> "text", s |-> k.s]
KeyIn(q) == IF q.c = "digits" THEN KInt(q.i) ELSE KStr(q.s)

\* ---------------------------------------------------------------------------- JSON P-layer
RECURSIVE Norm(_)
Norm(x) == CASE x.t = "nps" -> (IF IsFloatDt(x.dt) THEN [t |-> "floatint", i |-> x.i]
                                ELSE IF x.dt = "bool" THEN VBool(x.i # 0) ELSE VInt(x.i))
             [] x.t = "nd" -> IF Len(x.shape) = 1 /\ x.shape[1] <= 10
                              THEN VList([q \in 1..Len(x.data) |->
                                     IF IsFloatDt(x.dt) THEN [t |-> "floatint", i |-> x.data[q]]
                                     ELSE IF x.dt = "bool" THEN VBool(x.data[q] # 0) ELSE VInt(x.data[q])])
                              ELSE VNd(x.dt, x.shape, "C", x.data)
             [] x.t = "list" -> VList([q \in 1..Len(x.l) |-> Norm(x.l[q])])
             [] x.t = "dict" -> VDict(x.ks, [q \in 1..Len(x.vs) |-> Norm(x.vs[q])])
             [] OTHER -> x

\* ---------------------------------------------------------------------------- tables
Fields == {"cluster_id", "amp", "group"}
\* cell tokens: ints as [c: "int", i]; floats as [c: "float", f: token]; strings [c: "str", s: token]
CInt(x) == [c |-> "int", i |-> x]
CFloat(x) == [c |-> "float", f |-> x]
CStr(x) == [c |-> "str", s |-> x]
\* an integer beyond 2^53 (token; TLC's integers are 32-bit): written as its digits, read back as the SAME integer -
\* text -> int() is exact at any size, text -> float() -> int() is not
CBig(x) == [c |-> "bigint", s |-> x]
CellsFull == {CBig("b53p1"), CInt(3), CInt(-2), CFloat("f15"), CFloat("f123456"), CStr("good"), CStr("has_comma"), CStr("has_tab"),
              CStr("has_quote"), CStr("has_space"), CStr("e5x")}
CellsSmall == {CInt(3), CFloat("f15"), CStr("has_comma"), CStr("e5x")}
\* sorted(fields) is alphabetical; TLC has no order on strings, so the order of the field alphabet
\* is stated here (and the harness uses exactly these names)
FieldRank == [amp |-> 1, cluster_id |-> 2, group |-> 3, absent_field |-> 0]
StrLess(a, b) == FieldRank[a] < FieldRank[b]
SortFields(F) == [r \in 1..Cardinality(F) |-> CHOOSE x \in F : Cardinality({y \in F : StrLess(y, x)}) = r - 1]
\* a row is a partial function Fields -> Cells, as a set of <<field, cell>> pairs
RowsOver(F) == UNION {[S -> Cells] : S \in SUBSET F}
\* written cell: absent -> empty text; float -> 4 decimals (token + "r4"); the reader skips empty
\* cells and types the rest with int() then float() then str
Written(row, f) == IF f \in DOMAIN row THEN
                      (IF row[f].c = "float" THEN [w |-> "f4", f |-> row[f].f]
                       ELSE IF row[f].c = "int" THEN [w |-> "digits", i |-> row[f].i]
                       ELSE IF row[f].c = "bigint" THEN [w |-> "bigdigits", s |-> row[f].s]
                       ELSE [w |-> "text", s |-> row[f].s])
                   ELSE [w |-> "empty"]
ReadCell(w) == IF w.w = "f4" THEN [c |-> "float4", f |-> w.f]       \* the float rounded to 4 decimals
               ELSE IF w.w = "digits" THEN CInt(w.i) ELSE IF w.w = "bigdigits" THEN CBig(w.s) ELSE CStr(w.s)
HeaderOf(F, first) == IF first \in F THEN <<first>> \o SortFields(F \ {first}) ELSE SortFields(F)
WriteTsv(rows, first) == LET F == UNION {DOMAIN rows[q] : q \in 1..Len(rows)} IN
   [header |-> HeaderOf(F, first),
    lines |-> [q \in 1..Len(rows) |-> [p \in 1..Cardinality(F) |-> Written(rows[q], HeaderOf(F, first)[p])]]]
ReadTsv(file) == [q \in 1..Len(file.lines) |->
   LET present == {p \in 1..Len(file.header) : file.lines[q][p].w # "empty"} IN
   [f \in {file.header[p] : p \in present} |-> ReadCell(file.lines[q][CHOOSE p \in present : file.header[p] = f])]]
\* P-layer: same rows, floats at the written precision
RowNorm(row) == [f \in DOMAIN row |-> IF row[f].c = "float" THEN [c |-> "float4", f |-> row[f].f] ELSE row[f]]

\* ---------------------------------------------------------------------------- the machine
VARIABLES mode, input, first, pc
vars == <<mode, input, first, pc>>
Init == mode = "none" /\ input = <<>> /\ first = "none" /\ pc = "pick"
PickJson == /\ "json" \in Modes /\ pc = "pick" /\ mode' = "json" /\ first' = "none"
            /\ \E k \in Keys, v \in Atoms \cup Nested : input' = <<k, v>>
            /\ pc' = "done"
PickTsv == /\ "tsv" \in Modes /\ pc = "pick" /\ mode' = "tsv"
           /\ first' \in {"cluster_id", "group", "absent_field"}
           /\ \E n \in 1..MaxRows : input' \in [1..n -> RowsOver(Fields)]
           /\ UNION {DOMAIN input'[q] : q \in 1..Len(input')} # {}
           /\ Cardinality(UNION {DOMAIN input'[q] : q \in 1..Len(input')}) >= 2
           /\ pc' = "done"
\* two-column cluster tables: cluster id -> value (ints, floats written with repr, strings)
SimpleIds == {0, 3, 41, 70000}
SimpleCells == {CBig("b53p1"), CInt(3), CInt(-2), CFloat("f3em5"), CStr("has_newline"), CFloat("f15"), CFloat("f123456"), CStr("good"), CStr("has_comma"), CStr("has_tab"), CStr("e5x")}
PickSimple == /\ "simple" \in Modes /\ pc = "pick" /\ mode' = "simple" /\ first' = "none"
              /\ \E S \in SUBSET SimpleIds : input' \in [S -> SimpleCells]
              /\ pc' = "done"
\* parameter files: lower-case identifiers -> int / float / bool / None / quote-free string / list
PyVals == {VInt(385), VInt(-1), VFloat("f05"), VBool(TRUE), VNone, VStr("abc"), VStr("has_space"), VStr(""),
           VList(<<VInt(1), VInt(2)>>), VList(<<>>), VList(<<VStr("abc"), VFloat("f05")>>)}
PyKeys == {"dat_path", "n_channels_dat", "offset", "_tag"}      \* (a name with a leading underscore is a name)
PickPython == /\ "python" \in Modes /\ pc = "pick" /\ mode' = "python" /\ first' = "none"
              /\ \E S \in SUBSET PyKeys : input' \in [S -> PyVals]
              /\ pc' = "done"
Next == PickJson \/ PickTsv \/ PickSimple \/ PickPython
Spec == Init /\ [][Next]_vars

RoundTrip == (pc = "done" /\ mode = "json") =>
                /\ KeyIn(KeyOut(input[1])) = input[1]
                /\ Dec(Enc(input[2])) = Norm(input[2])
TableRoundTrip == (pc = "done" /\ mode = "tsv") =>
                     /\ ReadTsv(WriteTsv(input, first)) = [q \in 1..Len(input) |-> RowNorm(input[q])]
                     /\ LET h == WriteTsv(input, first).header IN
                        /\ (first \in SeqSet(h) => h[1] = first)
                        /\ \A p \in 1..(Len(h) - 1) : (p > 1 \/ first \notin SeqSet(h)) => StrLess(h[p], h[p + 1])

\* ---------------------------------------------------------------------------- G
RowJson(row) == {<<f, row[f]>> : f \in DOMAIN row}
CaseRecord == IF mode \in {"simple", "python"}
              THEN [mode |-> mode, input |-> RowJson(input), expect |-> RowJson(input)]   \* the statement: reads back equal
              ELSE IF mode = "json"
              THEN [mode |-> mode, key |-> input[1], value |-> input[2], expect |-> Norm(input[2])]
              ELSE [mode |-> mode, first |-> first, rows |-> [q \in 1..Len(input) |-> RowJson(input[q])],
                    header |-> WriteTsv(input, first).header,
                    expect |-> [q \in 1..Len(input) |-> RowJson(RowNorm(input[q]))]]
EmitCase == pc = "done" => Emit(CaseRecord)
====
