---- MODULE Pipeline ----
(* Growth beyond the listed properties (DESIGN.md 7): the WORKFLOW of the library as one behaviour.
   Directories are the shared state; curation, probe merging, ALF export and loading are actions on them,
   in any order a user could run them:

     p1, p2   two sorted probes (KiloSort/phy layout), fixed small contents with a tie in time across probes
     mg       the directory the Merger writes (absent until Merge)
     a1, a2   ALF export targets (absent until an Export writes them)

   A dataset is abstracted to what the listed properties say survives every step: the spike times (samples),
   the spike templates, the spike clusters and the number of templates.
     Curate(d, v)    load d, save_spike_clusters(variant v of the current assignment)            (C10)
     Merge           Merger([p1, p2], mg).merge(): stable interleaving by (time, probe), template ids offset
                     by the template counts, cluster ids by max+1 of the CURRENT assignments       (C11)
     Export(s, t)    EphysAlfCreator(load(s)).convert(t)                                           (C13)
     Load(d)         load_model(d): the observation
   No single property speaks about histories such as curate -> merge -> curate the merged set -> export ->
   curate the export -> reload; the invariants below do: conservation of spikes through every route, the
   frame of every action (it changes its target directory only), and `what Load shows is what the last
   writer of that directory wrote'.                                                                      *)
EXTENDS VIO, FiniteSets
CONSTANTS Depth, KeepHist, ATargets, MaxId

Dirs == {"p1", "p2", "mg"} \cup ATargets
Sources == {"p1", "p2"}
Absent == [present |-> FALSE]
\* <<time, template>> per spike; p1 has 2 templates, p2 has 3; time 5 occurs in both probes (twice in p1)
P1 == << <<3, 0>>, <<5, 1>>, <<5, 0>>, <<9, 1>> >>
P2 == << <<2, 0>>, <<5, 1>>, <<7, 2>> >>
Fresh(sp, n, f) == [present |-> TRUE, fmt |-> f, times |-> [i \in 1..Len(sp) |-> sp[i][1]],
                    st |-> [i \in 1..Len(sp) |-> sp[i][2]], sc |-> [i \in 1..Len(sp) |-> sp[i][2]], nt |-> n]

VARIABLES dirs, obs, hist
vars == <<dirs, obs, hist>>
Init == /\ dirs = [d \in Dirs |-> IF d = "p1" THEN Fresh(P1, 2, "ks") ELSE IF d = "p2" THEN Fresh(P2, 3, "ks") ELSE Absent]
        /\ obs = [op |-> "init"] /\ hist = <<>>
Rec(o) == obs' = o /\ hist' = (IF KeepHist THEN Append(hist, o) ELSE hist)

MaxOf(s) == CHOOSE x \in SeqSet(s) : \A y \in SeqSet(s) : y <= x
\* curation variants, functions of the CURRENT assignment: "merge" = the two lowest ids present become one new
\* cluster; "split" = the first spike gets a new cluster of its own
Variants == {"merge", "split"}
Curated(sc, v) ==
   LET new == MaxOf(sc) + 1
       ids == SeqSet(sc)
       lo1 == CHOOSE x \in ids : \A y \in ids : x <= y
       rest == ids \ {lo1}
       lo2 == IF rest = {} THEN lo1 ELSE CHOOSE x \in rest : \A y \in rest : x <= y
   IN IF v = "merge" THEN [i \in 1..Len(sc) |-> IF sc[i] \in {lo1, lo2} THEN new ELSE sc[i]]
      ELSE [i \in 1..Len(sc) |-> IF i = 1 THEN new ELSE sc[i]]
Curate(d, v) == /\ dirs[d].present
                /\ dirs' = [dirs EXCEPT ![d].sc = Curated(dirs[d].sc, v)]
                /\ Rec([op |-> "curate", dir |-> d, v |-> v])

\* the merger: all spikes of both probes, ordered by (time, probe, index in the probe) - a stable sort of
\* the concatenation; ids shifted by the running offsets
Tagged == [k \in 1..(Len(dirs["p1"].times) + Len(dirs["p2"].times)) |->
             IF k <= Len(dirs["p1"].times) THEN [p |-> 1, i |-> k] ELSE [p |-> 2, i |-> k - Len(dirs["p1"].times)]]
SrcOf(e) == IF e.p = 1 THEN dirs["p1"] ELSE dirs["p2"]
Before(a, b) == \/ SrcOf(a).times[a.i] < SrcOf(b).times[b.i]
                \/ SrcOf(a).times[a.i] = SrcOf(b).times[b.i] /\ (a.p < b.p \/ (a.p = b.p /\ a.i < b.i))
Order == [r \in 1..Len(Tagged) |-> CHOOSE e \in SeqSet(Tagged) : Cardinality({f \in SeqSet(Tagged) : Before(f, e)}) = r - 1]
TOff(e) == IF e.p = 1 THEN 0 ELSE dirs["p1"].nt
COff(e) == IF e.p = 1 THEN 0 ELSE MaxOf(dirs["p1"].sc) + 1
Merged == [present |-> TRUE, fmt |-> "ks",
           times |-> [r \in 1..Len(Order) |-> SrcOf(Order[r]).times[Order[r].i]],
           st |-> [r \in 1..Len(Order) |-> SrcOf(Order[r]).st[Order[r].i] + TOff(Order[r])],
           sc |-> [r \in 1..Len(Order) |-> SrcOf(Order[r]).sc[Order[r].i] + COff(Order[r])],
           nt |-> dirs["p1"].nt + dirs["p2"].nt]
Merge == /\ ~dirs["mg"].present
         /\ dirs' = [dirs EXCEPT !["mg"] = Merged]
         /\ Rec([op |-> "merge"])

\* ALF export: the target holds the source's spikes, templates and CURRENT clusters
Export(s, t) == /\ dirs[s].present /\ dirs[s].fmt = "ks" /\ ~dirs[t].present
                /\ dirs' = [dirs EXCEPT ![t] = [dirs[s] EXCEPT !.fmt = "alf"]]
                /\ Rec([op |-> "export", src |-> s, dst |-> t])

Load(d) == /\ dirs[d].present
           /\ Rec([op |-> "load", dir |-> d, times |-> dirs[d].times, st |-> dirs[d].st, sc |-> dirs[d].sc,
                   nt |-> dirs[d].nt])
           /\ UNCHANGED dirs

Room == KeepHist => Len(hist) < Depth
CurateA == Room /\ \E d \in Dirs, v \in Variants : Curate(d, v)
MergeA == Room /\ Merge
ExportA == Room /\ \E s \in {"p1", "p2", "mg"}, t \in ATargets : Export(s, t)
LoadA == Room /\ \E d \in Dirs : Load(d)
Next == CurateA \/ MergeA \/ ExportA \/ LoadA
Spec == Init /\ [][Next]_vars
\* M runs bound the growth of cluster ids instead of the history
IdBound == \A d \in Dirs : dirs[d].present => MaxOf(dirs[d].sc) <= MaxId
ViewDirs == dirs

\* ---------------------------------------------------------------------------- P-layer
Bag(s) == [x \in SeqSet(s) |-> Cardinality({i \in 1..Len(s) : s[i] = x})]
NonDecreasing(s) == \A i \in 1..(Len(s) - 1) : s[i] <= s[i + 1]
\* every route conserves the spikes: the merged set (and anything exported from it) holds exactly the spikes of
\* both probes, in time order; an export holds exactly the spikes of its source
Conservation ==
   /\ dirs["mg"].present => /\ Bag(dirs["mg"].times) = Bag(dirs["p1"].times \o dirs["p2"].times)
                            /\ NonDecreasing(dirs["mg"].times)
   /\ \A t \in ATargets : dirs[t].present =>
         \E s \in {"p1", "p2", "mg"} : dirs[s].present /\ dirs[t].times = dirs[s].times /\ dirs[t].st = dirs[s].st
\* templates and times are never changed by anything after a directory was written; curation touches clusters only
Immutable == [][\A d \in Dirs : dirs[d].present =>
                  /\ dirs'[d].present /\ dirs'[d].times = dirs[d].times /\ dirs'[d].st = dirs[d].st
                  /\ dirs'[d].nt = dirs[d].nt]_vars
\* frame: an action changes at most ONE directory
Frame == [][Cardinality({d \in Dirs : dirs'[d] # dirs[d]}) <= 1]_vars
\* the merged ids of the two probes never collide, whatever was curated before the merge
MergedIdsDisjoint == [][(~dirs["mg"].present /\ dirs'["mg"].present) =>
      LET m == dirs'["mg"] IN
      \A i \in 1..Len(m.sc), j \in 1..Len(m.sc) :
         (m.st[i] < dirs["p1"].nt /\ m.st[j] >= dirs["p1"].nt) => m.sc[i] # m.sc[j] ]_vars
\* a template id below nt everywhere
TemplatesInRange == \A d \in Dirs : dirs[d].present => \A i \in 1..Len(dirs[d].st) : dirs[d].st[i] \in 0..(dirs[d].nt - 1)

\* ---------------------------------------------------------------------------- G
EmitCase == (KeepHist /\ Len(hist) = Depth /\ hist[Depth].op = "load") => Emit([hist |-> hist])
====
