SPECIFICATION Spec
CONSTANTS
  MaxSpikes = 4
  MaxT = 3
  CluIds = {0, 4}
  KeptSet = {1, 2, 3}
  NReqSet <- NReqDef
  ReqLists <- ReqT
INVARIANT KeptOk
INVARIANT ParityIsMembership
INVARIANT ResultOk
INVARIANT Complete
