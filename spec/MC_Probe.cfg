SPECIFICATION PSpec
CONSTANTS
  Depth = 2
INVARIANT ShownIsGroup
INVARIANT AdjacencyIsSymmetricClosure
INVARIANT SubsetOk
INVARIANT RemapOk
PROPERTY AdjacencyStable
