---- MODULE Curation ----
(* C08 - curated clusters get the right template provenance and waveforms.

   A history machine: st (spike -> template) is fixed, sc (spike -> cluster) evolves through the
   manual operations Merge (two clusters -> a new id, possibly skipping an id), Split (part of a
   cluster -> new ids) and Reassign (one spike -> any id). Vectors are 1-based sequences of
   0-based ids.
   I-layer (io/model.py): MergeMapI - get_merge_map: loop over the unique templates in increasing
   order, append the template to every cluster id carried by its spikes; NanIdxI; NClustersI - the
   _load_data branch (curated: max id + 1; otherwise the number of templates).
   P-layer: Provenance(c) = the set of templates of the spikes of c, for EVERY c in 0..max; Empty;
   ClusterWaveformOk - single-origin clusters carry the template unchanged, multi-origin clusters
   the count-weighted mean on the channels of a dominant template (relational on count ties).  *)
EXTENDS Mat
CONSTANTS NSpikes, NTemplates, Depth, MaxId
VARIABLES st, sc, steps
vars == <<st, sc, steps>>
Init == st = <<>> /\ sc = <<>> /\ steps = 0
Pick == /\ st = <<>> /\ st' \in [1..NSpikes -> 0..(NTemplates - 1)] /\ sc' = st' /\ steps' = 0
MaxOf(s) == CHOOSE x \in SeqSet(s) : \A y \in SeqSet(s) : y <= x
Used == SeqSet(sc)
Merge == \E a \in Used, b \in Used, new \in (MaxOf(sc) + 1)..(MaxOf(sc) + 2) :
            /\ a < b /\ new <= MaxId
            /\ sc' = [i \in 1..NSpikes |-> IF sc[i] = a \/ sc[i] = b THEN new ELSE sc[i]]
Split == \E a \in Used : LET S == {i \in 1..NSpikes : sc[i] = a} IN
            /\ Cardinality(S) >= 2 /\ MaxOf(sc) + 2 <= MaxId
            /\ \E P \in SUBSET S : /\ P # {} /\ P # S
                                  /\ sc' = [i \in 1..NSpikes |-> IF i \in P THEN MaxOf(sc) + 1
                                                               ELSE IF i \in S THEN MaxOf(sc) + 2 ELSE sc[i]]
Reassign == \E i \in 1..NSpikes, new \in 0..MaxId : new # sc[i] /\ sc' = [sc EXCEPT ![i] = new]
Next == \/ Pick
        \/ /\ st # <<>> /\ steps < Depth /\ steps' = steps + 1 /\ UNCHANGED st
           /\ (Merge \/ Split \/ Reassign)
Spec == Init /\ [][Next]_vars

\* ---------------------------------------------------------------------------- I-layer (on any st, sc)
SortSet(S) == [r \in 1..Cardinality(S) |-> CHOOSE x \in S : Cardinality({y \in S : y < x}) = r - 1]
RECURSIVE MM(_, _, _, _)
MM(tseq, acc, s, c) == IF tseq = <<>> THEN acc
                       ELSE LET t == Head(tseq)
                                cl == {c[i] : i \in {j \in 1..Len(s) : s[j] = t}}
                            IN MM(Tail(tseq), [x \in DOMAIN acc |-> IF x - 1 \in cl THEN Append(acc[x], t) ELSE acc[x]], s, c)
\* merge map as a sequence indexed by cluster id + 1
MergeMapI(s, c) == MM(SortSet(SeqSet(s)), [x \in 1..(MaxOf(c) + 1) |-> <<>>], s, c)
NanIdxI(s, c) == {x - 1 : x \in {y \in 1..(MaxOf(c) + 1) : MergeMapI(s, c)[y] = <<>>}}
Curated(s, c) == s # c
NClustersI(s, c, nt) == IF Curated(s, c) THEN MaxOf(c) + 1 ELSE nt

\* ---------------------------------------------------------------------------- P-layer
Provenance(s, c, x) == {s[i] : i \in {j \in 1..Len(c) : c[j] = x}}
MergeMapOkOf(mm, nan, s, c) ==
   /\ Len(mm) = MaxOf(c) + 1
   /\ \A x \in 1..Len(mm) : /\ SeqSet(mm[x]) = Provenance(s, c, x - 1)
                            /\ Len(mm[x]) = Cardinality(Provenance(s, c, x - 1))
   /\ nan = {x \in 0..MaxOf(c) : Provenance(s, c, x) = {}}
Count(s, c, x, t) == Cardinality({i \in 1..Len(c) : c[i] = x /\ s[i] = t})
\* waveform of cluster x: W = all-channel array (sequence of rows of <<num, den>>), chans[t + 1] = the
\* channel list (1-based) of template t, T[t + 1] = its stored waveform
ClusterWaveformOk(W, x, s, c, T, chans) ==
   LET prov == Provenance(s, c, x)
       total == Cardinality({i \in 1..Len(c) : c[i] = x})
       cnt(t) == Count(s, c, x, t)
   IN IF prov = {} THEN \A r \in 1..Len(W) : \A k \in 1..Len(W[r]) : W[r][k][1] = 0
      ELSE IF Cardinality(prov) = 1
      THEN LET t == CHOOSE t \in prov : TRUE IN
           \A r \in 1..Len(W) : \A k \in 1..Len(W[r]) : W[r][k][1] = T[t + 1][r][k] * W[r][k][2]
      ELSE \E d \in {t \in prov : \A u \in prov : cnt(u) <= cnt(t)} :                  \* a dominant template
           \A r \in 1..Len(W) : \A k \in 1..Len(W[r]) :
              IF k \in SeqSet(chans[d + 1])
              THEN \A num \in {SumSeq([q \in 1..Len(T) |-> IF (q - 1) \in prov /\ k \in SeqSet(chans[q])
                                                          THEN cnt(q - 1) * T[q][r][k] ELSE 0])} :
                   W[r][k][1] * total = num * W[r][k][2]
              ELSE W[r][k][1] = 0
\* public per-cluster mean: channels = those of a dominant template, columns = weighted means
ClusterMeanOk(M, ch, x, s, c, U, chans) ==
   LET prov == Provenance(s, c, x)
       total == Cardinality({i \in 1..Len(c) : c[i] = x})
       cnt(t) == Count(s, c, x, t)
   IN \E d \in {t \in prov : \A u \in prov : cnt(u) <= cnt(t)} :
        /\ ch = chans[d + 1]
        /\ \A r \in 1..Len(M) : \A j \in 1..Len(ch) :
             \A num \in {SumSeq([q \in 1..Len(U) |-> IF (q - 1) \in prov /\ ch[j] \in SeqSet(chans[q])
                                                     THEN cnt(q - 1) * U[q][r][ch[j]] ELSE 0])} :
             M[r][j][1] * total = num * M[r][j][2]

\* ---------------------------------------------------------------------------- invariants of the history machine
Ready == st # <<>>
MergeMapOk == Ready => MergeMapOkOf(MergeMapI(st, sc), NanIdxI(st, sc), st, sc)
NClustersOk == (Ready /\ ~Curated(st, sc)) => NClustersI(st, sc, NTemplates) = NTemplates
EveryIdHasAnEntry == Ready => Len(MergeMapI(st, sc)) = MaxOf(sc) + 1

\* ---------------------------------------------------------------------------- G: every distinct curated state
EmitCase == Ready => Emit([st |-> st, sc |-> sc, mm |-> MergeMapI(st, sc), nan |-> SortSet(NanIdxI(st, sc)),
                           ncl |-> NClustersI(st, sc, NTemplates), curated |-> Curated(st, sc)])
====
