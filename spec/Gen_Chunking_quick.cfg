SPECIFICATION Spec
CONSTANTS
  Modes = {"gen", "bounds", "cbin", "exc"}
  MaxN = 30
  MaxCS = 12
  MaxFiles = 3
  MaxTotal = 9
  MaxChunk = 11
  MaxChunks = 8
  MaxThreads = 4
  MaxEN = 24
  MaxNE = 6
  MaxES = 6
INVARIANT EmitCase
