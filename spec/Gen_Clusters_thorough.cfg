SPECIFICATION Spec
CONSTANTS
  MaxLen = 6
  Alpha = {0, 2, 3, 7}
  BitsSet = {0}
  ReqAlpha = {0, 2, 5, 7}
INVARIANT EmitCase
