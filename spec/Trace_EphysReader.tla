---- MODULE Trace_EphysReader ----
(* V: real reader[item(, cols)] calls on random multi-file layouts, with wrappers on
   _get_subitems and _get_part:  {id, parts, req, cols, sub, nreads, rows, colsOut}
   (rows / colsOut are decoded from the VALUES the reader returned). The machine of EphysReader
   is run on the logged request; sub-items, part reads and result are compared; NumpyRows /
   NumpyCols are evaluated on the logged result.                                            *)
EXTENDS EphysReader
VARIABLE i
Trace == ndJsonDeserialize(TraceFile)
TInit == /\ i = 1 /\ RejectInit /\ TLCSet(2, 0)
         /\ parts = Trace[1].parts /\ req = Trace[1].req /\ cols = Trace[1].cols
         /\ sub = <<>> /\ reads = <<>> /\ out = <<>> /\ colsOut = <<>> /\ pc = "req"
Check1(r) ==
  /\ Clause(r.id, "sub", sub = r.sub)
  /\ Clause(r.id, "reads", [q \in 1..Len(reads) |-> Len(reads[q])] = r.nreads)
  /\ Clause(r.id, "rows", out = r.rows)
  /\ Clause(r.id, "cols", colsOut = r.colsOut)
  /\ Clause(r.id, "NumpyRows", r.rows = NumpyRows(Total(r.parts), r.req))
  /\ Clause(r.id, "NumpyCols", r.colsOut = NumpyCols(NCh, r.cols))
  /\ Clause(r.id, "SubitemsWellFormed", SubitemsWellFormedOf(r.parts, r.req, r.sub))
Step == pc # "done" /\ Next /\ i' = i
Consume == /\ pc = "done" /\ i <= Len(Trace)
           /\ Check1(Trace[i]) /\ TLCSet(2, i) /\ i' = i + 1
           /\ IF i < Len(Trace)
              THEN /\ parts' = Trace[i + 1].parts /\ req' = Trace[i + 1].req /\ cols' = Trace[i + 1].cols
                   /\ sub' = <<>> /\ reads' = <<>> /\ out' = <<>> /\ colsOut' = <<>> /\ pc' = "req"
              ELSE UNCHANGED vars
TNext == Step \/ Consume
TSpec == TInit /\ [][TNext]_<<vars, i>>
Accepted == Verdict(TLCGet(2)) /\ TLCGet(2) = Len(Trace)
====
