---- MODULE Selector ----
(* C17 - spike selection honours its cluster, chunk, subset and count constraints.

   I-layer: io/array.py SpikeSelector
     Construct  stride = max(1, ceil(n_chunks / n_kept)); chunks_kept = FLATTENED list of the kept
                chunks' bounds [b0, b1, b_s, b_s+1, ...] (adjacent kept chunks repeat a bound)
     InChunksI  parity of searchsorted(chunks_kept, t, side='right')
     Call       per requested cluster: spikes of the cluster -> chunk filter -> subset filter ->
                a RANDOM n-subset when more than n > 0 are eligible (nondeterministic choice here)
                -> sorted union
   P-layer: ValidSel - the statement, as a predicate on (inputs, returned set); it accepts every
   draw the statement allows. Allowed = the set of ALL valid results (emitted for the replay, so
   that the harness only tests membership).                                                   *)
EXTENDS VIO, FiniteSets
CONSTANTS MaxSpikes, MaxT, CluIds, KeptSet, NReqSet, ReqLists
VARIABLES times, clu, bounds, nkept, nreq, req, useChunks, subset, result, pc
vars == <<times, clu, bounds, nkept, nreq, req, useChunks, subset, result, pc>>
NONE == -1
RECURSIVE NonDecr(_, _)
NonDecr(len, lo) == IF len = 0 THEN {<<>>} ELSE UNION {{<<x>> \o r : r \in NonDecr(len - 1, x)} : x \in lo..MaxT}
SortSet(S) == [r \in 1..Cardinality(S) |-> CHOOSE x \in S : Cardinality({y \in S : y < x}) = r - 1]
Rev(t) == [i \in 1..Len(t) |-> t[Len(t) + 1 - i]]
Grids == {SortSet(g) : g \in {g \in SUBSET (0..(MaxT + 1)) : 0 \in g /\ (MaxT + 1) \in g}}
Init == times = <<>> /\ clu = <<>> /\ bounds = <<>> /\ nkept = 0 /\ nreq = 0 /\ req = <<>>
        /\ useChunks = FALSE /\ subset = {} /\ result = <<>> /\ pc = "pick"
\* the inputs are picked in two stages so that TLC's workers share the enumeration
Pick == /\ pc = "pick"
        \* spike times need not be monotonic (batch-wise sorted output): every non-decreasing train and its reversal
        /\ \E len \in 1..MaxSpikes : /\ times' \in NonDecr(len, 0) \cup {Rev(t) : t \in NonDecr(len, 0)}
                                     /\ clu' \in [1..len -> CluIds]
        /\ pc' = "pick2" /\ UNCHANGED <<bounds, nkept, nreq, req, useChunks, subset, result>>
Pick2 == /\ pc = "pick2"
         /\ bounds' \in Grids /\ nkept' \in KeptSet
         /\ nreq' \in NReqSet /\ req' \in ReqLists
         /\ useChunks' \in BOOLEAN
         /\ subset' \in {{NONE}, {i \in 0..(MaxSpikes - 1) : i % 2 = 0}}      \* {NONE} = no subset given
         /\ pc' = "call" /\ UNCHANGED <<times, clu, result>>

\* ---------------------------------------------------------------------------- I-layer
\* operators take the inputs explicitly so that the trace specification can reuse them
NChunksOf(b) == Len(b) - 1
StrideOf(b, k) == Max2(1, CeilDiv(NChunksOf(b), k))
RECURSIVE FlatFrom(_, _, _)
FlatFrom(b, s, i) == IF i >= NChunksOf(b) THEN <<>> ELSE <<b[i + 1], b[i + 2]>> \o FlatFrom(b, s, i + s)
ChunksKeptOf(b, k) == FlatFrom(b, StrideOf(b, k), 0)
SearchRight(seq, x) == Cardinality({k \in 1..Len(seq) : seq[k] <= x})
InChunksI(ck, t) == SearchRight(ck, t) % 2 = 1
EligI(c) == {i \in 0..(Len(times) - 1) : /\ clu[i + 1] = c
                                         /\ (useChunks => InChunksI(ChunksKeptOf(bounds, nkept), times[i + 1]))
                                         /\ (subset # {NONE} => i \in subset)}
ReqSet == SeqSet(req)
\* what one requested cluster may contribute: all its eligible spikes, or ANY nreq of them (the random draw)
OptionsI(c) == IF nreq > 0 /\ Cardinality(EligI(c)) > nreq
               THEN {s \in SUBSET EligI(c) : Cardinality(s) = nreq} ELSE {EligI(c)}
\* the loop over the requested clusters: every combination of per-cluster contributions, united
RECURSIVE UnionsOver(_)
UnionsOver(C) == IF C = {} THEN {{}}
                 ELSE LET c == CHOOSE x \in C : TRUE IN {a \cup b : a \in OptionsI(c), b \in UnionsOver(C \ {c})}
Call == /\ pc = "call"
        /\ \E u \in UnionsOver(ReqSet) : result' = SortSet(u)
        /\ pc' = "done" /\ UNCHANGED <<times, clu, bounds, nkept, nreq, req, useChunks, subset>>
Next == Pick \/ Pick2 \/ Call
Spec == Init /\ [][Next]_vars

\* ---------------------------------------------------------------------------- P-layer
KeptIdxOf(b, k) == {i \in 0..(NChunksOf(b) - 1) : i % StrideOf(b, k) = 0}
\* kept chunks: whole grid intervals at a regular stride starting with the first, at most k
KeptOkOf(b, k, ck) ==
   \E s \in 1..Max2(1, NChunksOf(b)) :
      LET K == {i \in 0..(NChunksOf(b) - 1) : i % s = 0} IN
      /\ Cardinality(K) <= k /\ (NChunksOf(b) > 0 => 0 \in K)
      /\ Len(ck) = 2 * Cardinality(K)
      /\ \A j \in 1..Cardinality(K) : ck[2 * j - 1] = b[(j - 1) * s + 1] /\ ck[2 * j] = b[(j - 1) * s + 2]
InKeptP(ck, t) == \E j \in 1..(Len(ck) \div 2) : ck[2 * j - 1] <= t /\ t < ck[2 * j]
\* the statement, on a candidate result set S (0-based spike ids); ck = the kept-chunk list
ValidSelOf(S, tt, cc, rq, nr, uc, sub, ck) ==
   LET n == Len(tt)
       ok(i) == /\ (uc => InKeptP(ck, tt[i + 1]))
                /\ (sub # {NONE} => i \in sub)
   IN /\ S \subseteq 0..(n - 1)
      /\ \A i \in S : cc[i + 1] \in SeqSet(rq) /\ ok(i)
      /\ \A c \in SeqSet(rq) :
            LET elig == {i \in 0..(n - 1) : cc[i + 1] = c /\ ok(i)}
                sel == {i \in S : cc[i + 1] = c}
            IN IF nr > 0 /\ Cardinality(elig) > nr THEN Cardinality(sel) = nr ELSE sel = elig
StrictlyIncreasing(s) == \A k \in 1..(Len(s) - 1) : s[k] < s[k + 1]

Picked == pc \in {"call", "done"}
KeptOk == Picked => KeptOkOf(bounds, nkept, ChunksKeptOf(bounds, nkept))
ParityIsMembership == Picked => \A t \in 0..(MaxT + 2) :
                         InChunksI(ChunksKeptOf(bounds, nkept), t) = InKeptP(ChunksKeptOf(bounds, nkept), t)
ResultOk == pc = "done" => /\ StrictlyIncreasing(result)
                           /\ ValidSelOf(SeqSet(result), times, clu, req, nreq, useChunks, subset,
                                         ChunksKeptOf(bounds, nkept))
\* completeness of the I-layer: every selection the statement allows is an outcome of Call
AllowedP == {S \in SUBSET (0..(Len(times) - 1)) :
               ValidSelOf(S, times, clu, req, nreq, useChunks, subset, ChunksKeptOf(bounds, nkept))}
AllowedI == UnionsOver(ReqSet)
Complete == pc = "call" => AllowedP = AllowedI

\* ---------------------------------------------------------------------------- G
CaseRecord == [times |-> times, clu |-> clu, bounds |-> bounds, nkept |-> nkept, nreq |-> nreq,
               req |-> req, useChunks |-> useChunks, subset |-> SortSet(subset),
               chunksKept |-> ChunksKeptOf(bounds, nkept),
               allowed |-> {SortSet(S) : S \in AllowedP}]
EmitCase == pc = "call" => Emit(CaseRecord)

NReqDef == {NONE, 0, 1, 2}
\* (a cluster named twice is still one requested cluster)
ReqQ == {<<4>>, <<4, 0>>, <<>>, <<0, 7>>, <<4, 4>>}
ReqT == {<<4>>, <<4, 0>>, <<0, 4, 1>>, <<>>, <<0, 7>>, <<7>>, <<4, 4>>, <<0, 4, 0>>}
====
