---- MODULE Trace_Download ----
(* V: one record per real call of download_file against the in-process mock:
   {id, prior, script, md5s, reqs, status, file}. The machine of Download is run on the logged
   server script; Consume compares request log, outcome and final file class, and evaluates the
   P-layer on the *logged* outcome.                                                          *)
EXTENDS Download
VARIABLE i
Trace == ndJsonDeserialize(TraceFile)

TInit == /\ i = 1 /\ RejectInit /\ TLCSet(2, 0)
         /\ LET r == Trace[1] IN
            /\ file = r.prior /\ prior = r.prior /\ script = r.script /\ script0 = r.script
            /\ md5s = r.md5s /\ md5s0 = r.md5s /\ pc = "start" /\ reqs = <<>> /\ status = "running" /\ cbLeak = 0
Check1(r) ==
  /\ Clause(r.id, "reqs", reqs = r.reqs)
  /\ Clause(r.id, "status", status = r.status)
  /\ Clause(r.id, "file", file = r.file)
  /\ Stable => /\ Clause(r.id, "ReturnedImpliesValid", ReturnedImpliesValidOf(r.status, r.file, Mode))
               /\ Clause(r.id, "NoRedundantGet", NoRedundantGetOf(r.prior, Mode, r.status, r.reqs))
               /\ Clause(r.id, "FaultsRaise", FaultsRaiseOf(Mode, r.file, r.status,
                           \E k \in 1..NGets(r.reqs) : k > Len(r.script) \/ r.script[k] = "e404"))
  /\ Clause(r.id, "AtMostTwoGets", NGets(r.reqs) <= 2)
Step == pc # "end" /\ Next /\ i' = i
Consume == /\ pc = "end" /\ i <= Len(Trace)
           /\ Check1(Trace[i]) /\ TLCSet(2, i)
           /\ i' = i + 1
           /\ IF i < Len(Trace)
              THEN LET r == Trace[i + 1] IN
                   /\ file' = r.prior /\ prior' = r.prior /\ script' = r.script /\ script0' = r.script
                   /\ md5s' = r.md5s /\ md5s0' = r.md5s /\ pc' = "start" /\ reqs' = <<>> /\ status' = "running" /\ cbLeak' = 0
              ELSE UNCHANGED vars
TNext == Step \/ Consume
TSpec == TInit /\ [][TNext]_<<vars, i>>
Accepted == Verdict(TLCGet(2)) /\ TLCGet(2) = Len(Trace)
====
