---- MODULE Chunking ----
(* C16 - chunkings tile the sample axis exactly once.

   I-layer: four small generators exactly as phylib steps through them
     mode "gen"    array.chunk_bounds(n, cs, ov)           actions First, Loop, Last
     mode "bounds" traces._get_chunk_bounds(sizes, chunk)  action  FileStep (range, de-dup, forced end)
                   + BaseEphysReader.iter_chunks           operator BaseYields (zip of the bounds)
     mode "cbin"   MtscompEphysReader.iter_chunks          actions YieldBatch, YieldLast
                   (chunk bound k of the compressed file is the abstract integer k)
     mode "exc"    array.excerpts / get_excerpts           actions ExcStep, ExcStop; operator GetExcerpts
   P-layer: Tiles, Inside, Size, BoundsValid, BaseIterTiles, IterTiles, ExcerptsValid,
            GetExcerptsValid, and termination of every generator under weak fairness.          *)
EXTENDS VIO, FiniteSets
CONSTANTS Modes,                       \* subset of {"gen","bounds","cbin","exc"} explored by a run
          MaxN, MaxCS,                 \* gen: data length, chunk size (overlap < chunk size)
          MaxFiles, MaxTotal, MaxChunk,\* bounds: number of files, total length, chunk length
          MaxChunks, MaxThreads,       \* cbin: number of compressed chunks, threads = batch size
          MaxEN, MaxNE, MaxES          \* exc: data length, number of excerpts, excerpt size

VARIABLES mode, par, loc, out, pc
vars == <<mode, par, loc, out, pc>>

\* ---------------------------------------------------------------------------- initial states
InitGen == /\ mode = "gen" /\ pc = "first" /\ out = <<>>
           /\ \E n \in 1..MaxN, cs \in 1..MaxCS, ov \in 0..(MaxCS - 1) :
                 ov < cs /\ par = [n |-> n, cs |-> cs, ov |-> ov]
           /\ loc = [ss |-> 0, se |-> 0, ks |-> 0, ke |-> 0]
InitBounds == /\ mode = "bounds" /\ pc = "loop" /\ out = <<>>
              /\ \E t \in 1..MaxTotal, chunk \in 1..MaxChunk :
                   \E szs \in AllCompositions(t, MaxFiles) : par = [sizes |-> szs, chunk |-> chunk]
              /\ loc = [k |-> 1, nn |-> 0]
InitCbin == /\ mode = "cbin" /\ pc = "loop" /\ out = <<>>
            /\ \E nch \in 1..MaxChunks, nth \in 1..MaxThreads : par = [nch |-> nch, nth |-> nth]
            /\ loc = [batch |-> 0, last |-> 0]
InitExc == /\ mode = "exc" /\ out = <<>>
           /\ \E n \in 0..MaxEN, ne \in 0..MaxNE, es \in 1..MaxES : par = [n |-> n, ne |-> ne, es |-> es]
           /\ pc = (IF par.ne >= 2 THEN "loop" ELSE "done")
           /\ loc = [i |-> 0]
Init == \/ ("gen" \in Modes /\ InitGen) \/ ("bounds" \in Modes /\ InitBounds)
        \/ ("cbin" \in Modes /\ InitCbin) \/ ("exc" \in Modes /\ InitExc)

\* ---------------------------------------------------------------------------- chunk_bounds
Yield4(o, a, b, c, d) == IF a < b THEN Append(o, <<a, b, c, d>>) ELSE o
First == /\ mode = "gen" /\ pc = "first"
         /\ LET ke == par.cs - (par.ov \div 2) IN
            /\ loc' = [ss |-> 0, se |-> par.cs, ks |-> 0, ke |-> ke]
            /\ out' = Append(out, <<0, par.cs, 0, ke>>)      \* the first chunk is yielded unconditionally
         /\ pc' = "loop" /\ UNCHANGED <<mode, par>>
Loop == /\ mode = "gen" /\ pc = "loop" /\ loc.se - par.ov + par.cs < par.n
        /\ LET ss == loc.se - par.ov
               se == ss + par.cs
               ke == se - (par.ov \div 2) IN
           /\ loc' = [ss |-> ss, se |-> se, ks |-> loc.ke, ke |-> ke]
           /\ out' = Yield4(out, ss, se, loc.ke, ke)
        /\ UNCHANGED <<mode, par, pc>>
Last == /\ mode = "gen" /\ pc = "loop" /\ ~(loc.se - par.ov + par.cs < par.n)
        /\ LET ss == loc.se - par.ov IN
           /\ loc' = [ss |-> ss, se |-> par.n, ks |-> loc.ke, ke |-> par.n]
           /\ out' = Yield4(out, ss, par.n, loc.ke, par.n)
        /\ pc' = "done" /\ UNCHANGED <<mode, par>>

\* rows of data[a:b] for data of length n (Python slicing with 0 <= a; b may exceed n)
Clip(a, b, n) == <<Min2(Max2(a, 0), n), Min2(Max2(b, 0), n)>>
RowsOf(a, b, n) == LET c == Clip(a, b, n) IN Iota(c[1], c[2])
RECURSIVE KeptSeq(_, _)
KeptSeq(s, n) == IF s = <<>> THEN <<>> ELSE RowsOf(s[1][3], s[1][4], n) \o KeptSeq(Tail(s), n)

\* P-layer predicates are operators over (parameters, observed output) so that the trace
\* specification can evaluate them on the output logged from the implementation.
TilesOf(p, o) == KeptSeq(o, p.n) = Iota(0, p.n)
InsideOf(p, o) == \A k \in 1..Len(o) :
             SeqSet(RowsOf(o[k][3], o[k][4], p.n)) \subseteq SeqSet(RowsOf(o[k][1], o[k][2], p.n))
SizeOf(p, o) == \A k \in 1..Len(o) : Len(RowsOf(o[k][1], o[k][2], p.n)) <= p.cs
\* the same statement on intervals (no row enumeration): the non-empty clipped kept intervals are
\* adjacent and run from 0 to n. TilesEquiv checks, in every reachable state of the exhaustive
\* model, that it is equivalent to the literal TilesOf; the trace specification uses it for long data.
TilesIntervalsOf(p, o) == LET c == [k \in 1..Len(o) |-> Clip(o[k][3], o[k][4], p.n)]
                              ne_ == SelectSeq(c, LAMBDA y : y[1] < y[2]) IN
   /\ ne_ # <<>> /\ ne_[1][1] = 0 /\ ne_[Len(ne_)][2] = p.n
   /\ \A k \in 1..(Len(ne_) - 1) : ne_[k][2] = ne_[k + 1][1]
TilesEquiv == mode = "gen" => (TilesOf(par, out) <=> TilesIntervalsOf(par, out))
Tiles == (mode = "gen" /\ pc = "done") => TilesOf(par, out)
Inside == mode = "gen" => InsideOf(par, out)
Size == mode = "gen" => SizeOf(par, out)

\* ---------------------------------------------------------------------------- _get_chunk_bounds
FileRange(nn, size, chunk) == RangeSeq(nn, nn + size + 1, chunk)
Dedup(b, ch) == IF b # <<>> /\ ch # <<>> /\ ch[1] = b[Len(b)] THEN Tail(ch) ELSE ch
ForceEnd(b, end) == IF b[Len(b)] # end THEN Append(b, end) ELSE b
FileStep == /\ mode = "bounds" /\ pc = "loop" /\ loc.k <= Len(par.sizes)
            /\ LET size == par.sizes[loc.k]
                   ch == Dedup(out, FileRange(loc.nn, size, par.chunk)) IN
               /\ out' = ForceEnd(out \o ch, loc.nn + size)
               /\ loc' = [k |-> loc.k + 1, nn |-> loc.nn + size]
            /\ pc' = (IF loc.k = Len(par.sizes) THEN "done" ELSE "loop")
            /\ UNCHANGED <<mode, par>>
PartBounds(szs) == {SumSeq(SubSeq(szs, 1, k)) : k \in 0..Len(szs)}
BoundsValidOf(p, o) ==
   /\ o # <<>> /\ o[1] = 0 /\ o[Len(o)] = SumSeq(p.sizes)
   /\ \A k \in 1..(Len(o) - 1) : o[k] < o[k + 1] /\ o[k + 1] - o[k] <= p.chunk
   /\ PartBounds(p.sizes) \subseteq SeqSet(o)
BoundsValid == (mode = "bounds" /\ pc = "done") => BoundsValidOf(par, out)
\* BaseEphysReader.iter_chunks: zip(bounds[:-1], bounds[1:])
BaseYields(b) == [k \in 1..(Len(b) - 1) |-> <<b[k], b[k + 1]>>]
TilesInOrder(ys, n) == LET ne_ == SelectSeq(ys, LAMBDA y : y[1] < y[2]) IN
   /\ \A k \in 1..Len(ys) : ys[k][1] <= ys[k][2]
   /\ ne_ # <<>> /\ ne_[1][1] = 0 /\ ne_[Len(ne_)][2] = n
   /\ \A k \in 1..(Len(ne_) - 1) : ne_[k][2] = ne_[k + 1][1]
BaseIterTiles == (mode = "bounds" /\ pc = "done") => TilesInOrder(BaseYields(out), SumSeq(par.sizes))

\* ---------------------------------------------------------------------------- compressed iter_chunks
NBatches == CeilDiv(par.nch, par.nth)
YieldBatch == /\ mode = "cbin" /\ pc = "loop" /\ loc.batch < NBatches
              /\ LET f0 == par.nth * loc.batch
                     l0 == Min2(par.nth * (loc.batch + 1), par.nch)
                     f1 == Max2(f0 - 1, 0)             \* look-behind by one chunk
                     l1 == Max2(f1, l0 - 1) IN         \* the batch's last chunk is left to the next yield
                 /\ out' = Append(out, <<f1, l1>>)
                 /\ loc' = [batch |-> loc.batch + 1, last |-> l1]
              /\ UNCHANGED <<mode, par, pc>>
YieldLast == /\ mode = "cbin" /\ pc = "loop" /\ loc.batch = NBatches
             /\ out' = Append(out, <<loc.last, loc.last + 1>>)
             /\ pc' = "done" /\ UNCHANGED <<mode, par, loc>>
IterTiles == (mode = "cbin" /\ pc = "done") => TilesInOrder(out, par.nch)

\* ---------------------------------------------------------------------------- excerpts / get_excerpts
\* Python's // is floor division; TLC's \div is too (also for a negative numerator)
ExcStepSize == Max2((par.n - par.es) \div (par.ne - 1), par.es)
ExcStep == /\ mode = "exc" /\ pc = "loop" /\ loc.i < par.ne /\ loc.i * ExcStepSize < par.n
           /\ out' = Append(out, <<loc.i * ExcStepSize, Min2(loc.i * ExcStepSize + par.es, par.n)>>)
           /\ loc' = [i |-> loc.i + 1]
           /\ UNCHANGED <<mode, par, pc>>
ExcStop == /\ mode = "exc" /\ pc = "loop" /\ ~(loc.i < par.ne /\ loc.i * ExcStepSize < par.n)
           /\ pc' = "done" /\ UNCHANGED <<mode, par, loc, out>>
RECURSIVE RowsOfAll(_)
RowsOfAll(e) == IF e = <<>> THEN <<>> ELSE Iota(e[1][1], e[1][2]) \o RowsOfAll(Tail(e))
GetExcerpts == IF par.n < par.ne * par.es THEN Iota(0, par.n)
               ELSE IF par.ne = 0 THEN <<>>
               ELSE IF par.ne = 1 THEN Iota(0, Min2(par.es, par.n))
               ELSE RowsOfAll(out)
ExcerptsValidOf(p, o) ==
   /\ Len(o) <= p.ne
   /\ \A k \in 1..Len(o) : 0 <= o[k][1] /\ o[k][1] < o[k][2] /\ o[k][2] <= p.n
                             /\ o[k][2] - o[k][1] <= p.es
   /\ \A k \in 1..(Len(o) - 1) : o[k][2] <= o[k + 1][1]
GetExcerptsValidOf(p, r) ==
   /\ p.n < p.ne * p.es => r = Iota(0, p.n)            \* whole data when shorter than requested
   /\ p.n >= p.ne * p.es => Len(r) <= p.ne * p.es
   /\ \A k \in 1..(Len(r) - 1) : r[k] < r[k + 1]
   /\ \A k \in 1..Len(r) : 0 <= r[k] /\ r[k] < p.n
ExcerptsValid == (mode = "exc" /\ pc = "done" /\ par.ne >= 2) => ExcerptsValidOf(par, out)
GetExcerptsValid == (mode = "exc" /\ pc = "done") => GetExcerptsValidOf(par, GetExcerpts)

\* ---------------------------------------------------------------------------- the machine
Next == First \/ Loop \/ Last \/ FileStep \/ YieldBatch \/ YieldLast \/ ExcStep \/ ExcStop
Spec == Init /\ [][Next]_vars
FairSpec == Spec /\ WF_vars(Next)
Terminates == <>(pc = "done")
\* once done, a generator stays done and its output is frozen
DoneIsFinal == [][pc = "done" => UNCHANGED vars]_vars

\* ---------------------------------------------------------------------------- G: emit every terminal state
ClipSeq(s, a, b, n) == [k \in 1..Len(s) |-> Clip(s[k][a], s[k][b], n)]
CaseRecord ==
  IF mode = "gen" THEN [mode |-> mode, n |-> par.n, cs |-> par.cs, ov |-> par.ov, out |-> out,
                         kept |-> ClipSeq(out, 3, 4, par.n), full |-> ClipSeq(out, 1, 2, par.n)]
  ELSE IF mode = "bounds" THEN [mode |-> mode, sizes |-> par.sizes, chunk |-> par.chunk,
                                 out |-> out, yields |-> BaseYields(out)]
  ELSE IF mode = "cbin" THEN [mode |-> mode, nch |-> par.nch, nth |-> par.nth, out |-> out]
  ELSE [mode |-> mode, n |-> par.n, ne |-> par.ne, es |-> par.es, out |-> out, rows |-> GetExcerpts]
EmitCase == pc = "done" => Emit(CaseRecord)
====
