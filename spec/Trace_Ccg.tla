---- MODULE Trace_Ccg ----
(* V: runs recorded from the real correlograms()/firing_rate():
   {id, t, c, ids, bin, half, out, sym, shifts, rate}. The shift-loop machine of Ccg is run on the
   logged inputs (Shift/Stop/Symmetrize); Consume compares its counts, symmetrised array and
   number of loop iterations with the logged ones, and evaluates the brute-force P-layer
   (CorrectOf, SymOkOf, RateNum) on the LOGGED outputs.                                        *)
EXTENDS Ccg
VARIABLE i
Trace == ndJsonDeserialize(TraceFile)
TrainOf(r) == IF r.kind = "dense" THEN <<>> ELSE r.t
LabelsOf(r) == IF r.kind = "dense" THEN <<>> ELSE r.c
Load(r) == [t |-> r.t, c |-> r.c, ids |-> r.ids, bin |-> r.bin, half |-> r.half]
TInit == /\ i = 1 /\ RejectInit /\ TLCSet(2, 0)
         /\ LET r == Trace[1] IN
            /\ t = TrainOf(r) /\ c = LabelsOf(r) /\ ids = r.ids /\ bin = r.bin /\ half = r.half
            /\ shift = 1 /\ mask = [k \in 1..Len(TrainOf(r)) |-> TRUE] /\ pc = "loop"
            /\ counts = ZeroCounts(Len(r.ids), r.half) /\ sym = <<>>
\* kind "dense": a long dense train given as a bag {tv, nn, ids, bin, half, out, sym}: too long for the machine, judged
\* by the bag formulation of the pair count (BagAgrees ties it to the brute-force count on every small train)
CheckDense(r) ==
  /\ Clause(r.id, "Correct(dense)", CorrectBagOf(r.tv, r.nn, r.ids, r.bin, r.half, r.out))
  /\ Clause(r.id, "SymOk", SymOkOf(r.ids, r.half, r.out, r.sym))
CheckRun(r) ==
  /\ Clause(r.id, "counts", AsSeqs(counts, half) = r.out)
  /\ Clause(r.id, "sym", sym = r.sym)
  /\ Clause(r.id, "shifts", r.shifts < 0 \/ shift - 1 = r.shifts)
  /\ Clause(r.id, "Correct", CorrectOf(r.t, r.c, r.ids, r.bin, r.half, r.out))
  /\ Clause(r.id, "SymOk", SymOkOf(r.ids, r.half, r.out, r.sym))
  /\ Clause(r.id, "FiringRate", r.rate = RateNum(r.c, r.ids))
Check1(r) == IF r.kind = "dense" THEN CheckDense(r) ELSE CheckRun(r)
Step == pc # "done" /\ Next /\ i' = i
Consume == /\ pc = "done" /\ i <= Len(Trace)
           /\ Check1(Trace[i]) /\ TLCSet(2, i)
           /\ i' = i + 1
           /\ IF i < Len(Trace)
              THEN LET r == Trace[i + 1] IN
                   /\ t' = TrainOf(r) /\ c' = LabelsOf(r) /\ ids' = r.ids /\ bin' = r.bin /\ half' = r.half
                   /\ shift' = 1 /\ mask' = [k \in 1..Len(TrainOf(r)) |-> TRUE] /\ pc' = "loop"
                   /\ counts' = ZeroCounts(Len(r.ids), r.half) /\ sym' = <<>>
              ELSE UNCHANGED vars
TNext == Step \/ Consume
TSpec == TInit /\ [][TNext]_<<vars, i>>
Accepted == Verdict(TLCGet(2)) /\ TLCGet(2) = Len(Trace)
====
