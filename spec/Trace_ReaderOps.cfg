SPECIFICATION TSpec
CONSTANTS
  MaxReaders = 1000
  OpSet = {}
  ChainOnly = FALSE
  Aliasing = FALSE
POSTCONDITION Accepted
