---- MODULE Trace_Templates ----
(* V: template records recorded from real TemplateModel.get_template (and get_template_channels /
   get_template_waveforms) on random datasets. All values are integers: templates and whitening
   inverses are small integers / multiples of 1/4, the harness logs 4 * wmi, 4 * template,
   4 * amplitude. Channels are logged 1-based (0 = the unused marker -1 of sparse column tables).
   kind "dense":  {id, T, wmi4, unw, pos, shank, nclosest, thr, explicit, ch, tmpl, amp, best, ch2, tmpl2}
   kind "sparse": {id, Ts, cols, wmi4, unw, ch, tmpl, amp, best}                                      *)
EXTENDS Templates
VARIABLE i
Trace == ndJsonDeserialize(TraceFile)
TInit == Init /\ i = 1 /\ RejectInit /\ TLCSet(2, 0)
Times4(M) == [r \in 1..Len(M) |-> [c \in 1..Len(M[r]) |-> 4 * M[r][c]]]
Check1(r) ==
  IF r.kind = "dense"
  THEN LET U == IF r.unw THEN MatMul(r.T, r.wmi4) ELSE Times4(r.T) IN
       /\ (r.explicit = <<>>) => Clause(r.id, "ValidDense", ValidDense(r, U, r.pos, r.shank, r.nclosest, r.thr))
       /\ (r.explicit # <<>>) => Clause(r.id, "ValidExplicit", ValidExplicit(r, U, r.explicit))
       /\ Clause(r.id, "get_template_channels", r.ch2 = r.ch)
       /\ Clause(r.id, "get_template_waveforms", r.tmpl2 = r.tmpl)
  ELSE /\ Clause(r.id, "ValidSparse", ValidSparse(r, r.Ts, r.cols, r.wmi4, r.unw))
       \* the peak channel named by the record is a listed channel of maximal amplitude (relational on ties:
       \* with equal amplitudes it need not be the one listed first)
       /\ Clause(r.id, "SparseBest", r.ch # <<>> =>
                    \E q \in 1..Len(r.ch) : q \in 1..Len(r.amp) /\ r.ch[q] = r.best /\ r.amp[q] = r.amp[1])
TNext == /\ i <= Len(Trace) /\ Check1(Trace[i]) /\ TLCSet(2, i) /\ i' = i + 1 /\ UNCHANGED vars
TSpec == TInit /\ [][TNext]_<<vars, i>>
Accepted == Verdict(TLCGet(2)) /\ TLCGet(2) = Len(Trace)
====
