SPECIFICATION Spec
CONSTANTS
  MaxN = 6
  NCh = 3
  MaxParts = 6
INVARIANT SplitCorrect
INVARIANT SubitemsWellFormed
INVARIANT ColsCorrect
