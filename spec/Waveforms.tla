---- MODULE Waveforms ----
(* C03 - every route to a spike waveform yields the same zero-padded raw window.

   A recording cell (row r, channel c) is the integer r * NCh + c + 1; 0 is the zero cell.
   I-layer (io/traces.py):
     ExtractOne    _extract_waveform: a = nsw \div 2, t0 = s - a, t1 = s + nsw - a, body =
                   rows max(0, t0) .. min(t1, n) - 1, -t0 zero rows on top when t0 < 0, the missing
                   rows at the bottom when t1 > n; columns = the channel list, -1 columns zeroed
     OpenWriter    NpyWriter: declared shape (n_spikes, nsw, n_channels_loc), declared dtype float64
     ProcessChunk  iter_waveforms: for each yielded interval (i0, i1) the spikes with i0 <= s < i1
                   (searchsorted 'right' - 1 == 0), extracted one by one, appended as one batch
                   times the unit factor, cast to the declared dtype
     CloseWriter   element count must equal the declared one
     Lookup        get_spike_waveforms on a subset store: intersect the requested channels with the
                   spike's stored channels, scatter the stored columns to the requested positions
   P-layer: Window(s, chans) - the statement; EachSpikeOnceInOrder; DeclaredEqualsWritten;
   LoadedIsWindows; LookupIsWindowRestricted.                                                 *)
EXTENDS VIO, FiniteSets
CONSTANTS MaxN, MaxSpikes, MaxNsw, NCh, Dts, Fks
ZERO == 0
Cell(r, c) == r * NCh + c + 1

\* ---------------------------------------------------------------------------- P-layer
\* the window of a spike at sample s, nsw samples, on the channel list ch (entries 0..NCh-1 or -1)
Window(n, s, nsw, ch) ==
   [j \in 1..nsw |-> LET r == s - (nsw \div 2) + j - 1 IN
      [c \in 1..Len(ch) |-> IF r >= 0 /\ r < n /\ ch[c] # -1 THEN Cell(r, ch[c]) ELSE ZERO]]

\* ---------------------------------------------------------------------------- I-layer operators
ExtractRows(n, s, nsw) ==
  LET a == nsw \div 2
      t0 == s - a
      t1 == s + (nsw - a)
      lo == Max2(0, t0)
      hi == Min2(t1, n)
      body == Iota(lo, hi)
      top == IF t0 < 0 THEN [i \in 1..(-t0) |-> -1] ELSE <<>>
      w1 == top \o body
      bot == IF t1 > n THEN [i \in 1..(nsw - Len(w1)) |-> -1] ELSE <<>>
  IN w1 \o bot                                   \* sequence of row ids, -1 = zero row
ExtractOne(n, s, nsw, ch) ==
  LET rows == ExtractRows(n, s, nsw) IN
  [j \in 1..Len(rows) |-> [c \in 1..Len(ch) |->
       IF rows[j] = -1 \/ ch[c] = -1 THEN ZERO ELSE Cell(rows[j], ch[c])]]
\* per-spike channel lists: a fixed rotation of patterns (with and without -1)
\* (consecutive spikes whose stored rows START with the same channel and differ afterwards, rows padded with -1)
ChanPatterns == << <<0, 1>>, <<0, 2>>, <<2, -1>>, <<0, -1>>, <<1, 0>>, <<-1, 1>> >>   \* (-1 also BEFORE a real channel)
ChansOf(i) == ChanPatterns[((i - 1) % 6) + 1]

\* get_spike_waveforms: store = <<ids, chans, waves>> (parallel sequences), query = sequence of
\* stored spike indices, cids = requested channels (distinct, no -1)
PosIn(seq, x) == CHOOSE k \in 1..Len(seq) : seq[k] = x
LookupOne(stChans, stWave, cids, nsw) ==
   LET common == {c \in SeqSet(cids) : c \in SeqSet(stChans)}
   IN [j \in 1..nsw |-> [q \in 1..Len(cids) |->
         IF cids[q] \in common THEN stWave[j][PosIn(stChans, cids[q])] ELSE ZERO]]

\* ---------------------------------------------------------------------------- the machine
VARIABLES n, chunks, spikes, nsw, dt, fk,          \* inputs
          k, batches, written, declared, pc
vars == <<n, chunks, spikes, nsw, dt, fk, k, batches, written, declared, pc>>
RECURSIVE SortedSeqs(_, _, _)
SortedSeqs(len, lo, hi) == IF len = 0 THEN {<<>>} ELSE UNION {{<<v>> \o r : r \in SortedSeqs(len - 1, v, hi)} : v \in lo..hi}
AscSeq(S) == [r \in 1..Cardinality(S) |-> CHOOSE x \in S : Cardinality({y \in S : y < x}) = r - 1]
Grids(nn) == {AscSeq(g) : g \in {g \in SUBSET (0..nn) : 0 \in g /\ nn \in g}}
Yields(b) == [q \in 1..(Len(b) - 1) |-> <<b[q], b[q + 1]>>]
Init == n = 0 /\ chunks = <<>> /\ spikes = <<>> /\ nsw = 0 /\ dt = "none" /\ fk = "none"
        /\ k = 0 /\ batches = <<>> /\ written = <<>> /\ declared = [count |-> 0, dtype |-> "none"] /\ pc = "pick"
Pick == /\ pc = "pick" /\ n' \in 1..MaxN /\ nsw' \in 1..MaxNsw
        /\ pc' = "pick2" /\ UNCHANGED <<chunks, spikes, dt, fk, k, batches, written, declared>>
Pick2 == /\ pc = "pick2"
         /\ chunks' \in {Yields(g) : g \in Grids(n)}
         /\ \E len \in 1..MaxSpikes : spikes' \in SortedSeqs(len, 0, n - 1)
         /\ dt' \in Dts /\ fk' \in Fks
         /\ pc' = "open" /\ UNCHANGED <<n, nsw, k, batches, written, declared>>
OpenWriter == /\ pc = "open"
              /\ declared' = [count |-> Len(spikes), dtype |-> "float64"]   \* a unit factor is given
              /\ k' = 1 /\ pc' = "chunks" /\ UNCHANGED <<n, chunks, spikes, nsw, dt, fk, batches, written>>
InChunk(s, iv) == iv[1] <= s /\ s < iv[2]
ProcessChunk ==
  /\ pc = "chunks" /\ k <= Len(chunks)
  /\ LET idx == SelectSeq([i \in 1..Len(spikes) |-> i], LAMBDA i : InChunk(spikes[i], chunks[k])) IN
     /\ batches' = Append(batches, idx)
     /\ written' = written \o [j \in 1..Len(idx) |->
                      [spike |-> idx[j], w |-> ExtractOne(n, spikes[idx[j]], nsw, ChansOf(idx[j])),
                       dtype |-> declared.dtype]]                  \* cast to the writer's dtype
  /\ k' = k + 1 /\ UNCHANGED <<n, chunks, spikes, nsw, dt, fk, declared, pc>>
CloseWriter == /\ pc = "chunks" /\ k = Len(chunks) + 1 /\ pc' = "done"
               /\ UNCHANGED <<n, chunks, spikes, nsw, dt, fk, k, batches, written, declared>>
Next == Pick \/ Pick2 \/ OpenWriter \/ ProcessChunk \/ CloseWriter
Spec == Init /\ [][Next]_vars

\* ---------------------------------------------------------------------------- properties
Ready == pc \in {"open", "chunks", "done"}
ExtractIsWindow == Ready => \A i \in 1..Len(spikes) :
                      ExtractOne(n, spikes[i], nsw, ChansOf(i)) = Window(n, spikes[i], nsw, ChansOf(i))
EachSpikeOnceInOrderOf(sp, wr) == Len(wr) = Len(sp) /\ \A i \in 1..Len(wr) : wr[i].spike = i
EachSpikeOnceInOrder == pc = "done" => EachSpikeOnceInOrderOf(spikes, written)
DeclaredEqualsWritten == pc = "done" => /\ declared.count = Len(written)
                                        /\ \A i \in 1..Len(written) : written[i].dtype = declared.dtype
LoadedIsWindows == pc = "done" => \A i \in 1..Len(written) :
                      written[i].w = Window(n, spikes[written[i].spike], nsw, ChansOf(written[i].spike))
\* the chunk intervals the machine is given tile [0, n) (C16); stated here as the assumption under
\* which EachSpikeOnceInOrder is claimed
ChunksTile == Ready => /\ chunks # <<>> /\ chunks[1][1] = 0 /\ chunks[Len(chunks)][2] = n
                       /\ \A q \in 1..(Len(chunks) - 1) : chunks[q][2] = chunks[q + 1][1]
\* subset store = every stored spike i with its channel list and window; lookups on any channel list
CidLists == {<<0>>, <<1, 0>>, <<2, 1, 0>>, <<0, 2>>}
LookupIsWindowRestricted == Ready => \A i \in 1..Len(spikes), cids \in CidLists :
   LET ch == ChansOf(i)
       got == LookupOne(ch, Window(n, spikes[i], nsw, ch), cids, nsw)
       full == Window(n, spikes[i], nsw, cids)
   IN \A j \in 1..nsw, q \in 1..Len(cids) :
         got[j][q] = (IF cids[q] \in SeqSet(ch) THEN full[j][q] ELSE ZERO)

\* ---------------------------------------------------------------------------- G
CaseRecord == [n |-> n, chunks |-> chunks, spikes |-> spikes, nsw |-> nsw, dt |-> dt, fk |-> fk,
               chans |-> [i \in 1..Len(spikes) |-> ChansOf(i)],
               windows |-> [i \in 1..Len(spikes) |-> Window(n, spikes[i], nsw, ChansOf(i))],
               batches |-> batches, order |-> [i \in 1..Len(written) |-> written[i].spike],
               decl |-> declared,
               lookups |-> {<<cids, [i \in 1..Len(spikes) |->
                               LookupOne(ChansOf(i), Window(n, spikes[i], nsw, ChansOf(i)), cids, nsw)]>> : cids \in CidLists}]
EmitCase == pc = "done" => Emit(CaseRecord)
====
