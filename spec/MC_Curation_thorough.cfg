SPECIFICATION Spec
CONSTANTS
  NSpikes = 5
  NTemplates = 3
  Depth = 3
  MaxId = 7
INVARIANT MergeMapOk
INVARIANT NClustersOk
INVARIANT EveryIdHasAnEntry
