SPECIFICATION Spec
CONSTANTS
  Namings = {"ks", "alf"}
  WithBoth = TRUE
INVARIANT EmitCase
