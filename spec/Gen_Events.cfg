SPECIFICATION Spec
CONSTANTS
  Depth = 3
  KeepHist = TRUE
  FreeStyle = FALSE
INVARIANT EmitCase
