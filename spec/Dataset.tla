---- MODULE Dataset ----
(* C04 - loading a dataset reproduces its files under every supported layout.

   A directory is described by which logical items exist under which name (KS / ALF / both) and a
   few layout flags; contents are filled in by the harness with random small integers, and the
   model attributes are compared with the FILE each attribute must come from.
   I-layer: TemplateModel._load_data in the code's order, with _find_path as "first existing among
   the candidate names" (KiloSort name before the ALF pattern), the defaults, the two files the
   loader may create (spike_clusters.npy as a copy of the spike-template file; whitening_mat_inv.npy
   as the computed inverse) and the NaN/inf scrub that only applies to arrays read WITHOUT memory
   mapping (templates, pc_features, pc_feature_ind, template_features are memory-mapped).
   P-layer: SourceOk (each attribute comes from the right file or is the documented default),
   LoadFrame (nothing pre-existing changes, nothing else is created), WellFormedLoads.          *)
EXTENDS VIO, FiniteSets
CONSTANTS Namings, WithBoth

Names == [ times |-> <<"spike_times.npy", "spikes.times.npy">>,
           samples |-> <<"-", "spikes.samples.npy">>,
           st |-> <<"spike_templates.npy", "spikes.templates.npy">>,
           sc |-> <<"spike_clusters.npy", "spikes.clusters.npy">>,
           amps |-> <<"amplitudes.npy", "spikes.amps.npy">>,
           chmap |-> <<"channel_map.npy", "channels.rawInd.npy">>,
           pos |-> <<"channel_positions.npy", "channels.localCoordinates.npy">>,
           shanks |-> <<"channel_shanks.npy", "channels.shanks.npy">>,
           probes |-> <<"channel_probe.npy", "channels.probes.npy">>,
           T |-> <<"templates.npy", "templates.waveforms.npy">>,
           Tind |-> <<"template_ind.npy", "templates.waveformsChannels.npy">>,
           wm |-> <<"whitening_mat.npy", "-">>,
           wmi |-> <<"whitening_mat_inv.npy", "-">>,
           sim |-> <<"similar_templates.npy", "-">>,
           pcf |-> <<"pc_features.npy", "-">>,
           pcind |-> <<"pc_feature_ind.npy", "-">>,
           tf |-> <<"template_features.npy", "-">>,
           tfind |-> <<"template_feature_ind.npy", "-">> ]
Items == DOMAIN Names
Mandatory == {"times", "st", "chmap", "pos", "T"}
\* optional items that are chosen independently (pcind / tfind follow pcf / tf; an inverse file may exist without the matrix itself)
Switches == {"sc", "amps", "shanks", "probes", "Tind", "wm", "wmi", "sim", "pcf", "tf", "samples"}
MemoryMapped == {"T", "pcf", "pcind", "tf"}
CanBeBoth == {"amps", "chmap", "st", "T"}          \* items written under both names when WithBoth

VARIABLES naming, present, both, fs, attr, created, status, pc
vars == <<naming, present, both, fs, attr, created, status, pc>>
Init == naming = "none" /\ present = {} /\ both = {} /\ fs = <<>> /\ attr = <<>> /\ created = {} /\ status = "init"
        /\ pc = "pick"
FsOf(nm, pr, bo) ==
   [it \in Items |->
      LET v == IF nm = "alf" /\ Names[it][2] # "-" THEN 2 ELSE 1
          on == it \in Mandatory \/ it \in pr \/ (it = "pcind" /\ "pcf" \in pr) \/ (it = "tfind" /\ "tf" \in pr)
      IN IF ~on \/ Names[it][v] = "-" THEN {}
         ELSE IF it \in bo THEN {1, 2} ELSE {v}]
Pick == /\ pc = "pick" /\ naming' \in Namings /\ pc' = "pick2"
        /\ UNCHANGED <<present, both, fs, attr, created, status>>
Pick2 == /\ pc = "pick2"
         /\ present' \in {p \in SUBSET Switches : "samples" \in p => naming = "alf"}
         /\ both' \in (IF WithBoth THEN {{}} \cup {{b} : b \in CanBeBoth} ELSE {{}})
         /\ fs' = FsOf(naming, present', both')
         /\ pc' = "load" /\ UNCHANGED <<naming, attr, created, status>>

\* _find_path(ks_name, alf_pattern): the first candidate that exists, KS name first
First(it) == IF 1 \in fs[it] THEN 1 ELSE IF 2 \in fs[it] THEN 2 ELSE 0
FileOf(it) == Names[it][First(it)]
Src(it) == [kind |-> "file", name |-> FileOf(it), scrub |-> it \notin MemoryMapped]
Default(what) == [kind |-> "default", what |-> what]
Load ==
  /\ pc = "load"
  /\ LET have(it) == First(it) # 0 IN
     /\ attr' = [ spike_samples |-> IF 1 \in fs["times"] THEN Src("times")           \* KS: the file holds samples
                                   ELSE IF have("samples") THEN Src("samples")
                                   ELSE Default("round(times * rate)"),
                  spike_times |-> IF 1 \in fs["times"] THEN Default("samples / rate") ELSE Src("times"),
                  spike_templates |-> Src("st"),
                  spike_clusters |-> IF have("sc") THEN Src("sc") ELSE Default("copy of spike templates"),
                  amplitudes |-> IF have("amps") THEN Src("amps") ELSE Default("None"),
                  channel_mapping |-> Src("chmap"),
                  channel_positions |-> Src("pos"),
                  channel_shanks |-> IF have("shanks") THEN Src("shanks") ELSE Default("zeros(n_channels)"),
                  channel_probes |-> IF have("probes") THEN Src("probes") ELSE Default("zeros(n_channels)"),
                  templates |-> Src("T"),
                  template_cols |-> IF have("Tind") THEN Src("Tind") ELSE Default("None (dense)"),
                  wm |-> IF have("wm") THEN Src("wm") ELSE Default("identity"),
                  wmi |-> IF have("wmi") THEN Src("wmi") ELSE Default("inverse of wm"),
                  similar_templates |-> IF have("sim") THEN Src("sim") ELSE Default("zeros(n_templates, n_templates)"),
                  features |-> IF have("pcf") THEN Src("pcf") ELSE Default("None"),
                  template_features |-> IF have("tf") THEN Src("tf") ELSE Default("None") ]
     /\ created' = (IF have("sc") THEN {} ELSE {"spike_clusters.npy"})
                   \cup (IF have("wmi") THEN {} ELSE {"whitening_mat_inv.npy"})
     /\ status' = "loaded"
  /\ pc' = "done" /\ UNCHANGED <<naming, present, both, fs>>
Next == Pick \/ Pick2 \/ Load
Spec == Init /\ [][Next]_vars

\* ---------------------------------------------------------------------------- P-layer
Loaded == pc = "done"
WellFormedLoads == Loaded => status = "loaded"
AttrItem == [spike_templates |-> "st", spike_clusters |-> "sc", amplitudes |-> "amps", channel_mapping |-> "chmap",
             channel_positions |-> "pos", channel_shanks |-> "shanks", channel_probes |-> "probes", templates |-> "T",
             template_cols |-> "Tind", wm |-> "wm", wmi |-> "wmi", similar_templates |-> "sim", features |-> "pcf",
             template_features |-> "tf"]
\* an attribute equals the contents of its item's file when one exists (KS name preferred), else a default
SourceOk == Loaded => \A a \in DOMAIN AttrItem :
               LET it == AttrItem[a] IN
               IF fs[it] = {} THEN attr[a].kind = "default"
               ELSE attr[a].kind = "file" /\ attr[a].name = (IF 1 \in fs[it] THEN Names[it][1] ELSE Names[it][2])
TimesOk == Loaded => /\ (1 \in fs["times"] => attr.spike_times.kind = "default" /\ attr.spike_samples.name = "spike_times.npy")
                     /\ (fs["times"] = {2} => attr.spike_times.name = "spikes.times.npy")
LoadFrame == Loaded => /\ created \subseteq {"spike_clusters.npy", "whitening_mat_inv.npy"}
                       /\ ("spike_clusters.npy" \in created <=> fs["sc"] = {})
                       /\ ("whitening_mat_inv.npy" \in created <=> fs["wmi"] = {})
                       /\ \A it \in Items : \A v \in fs[it] : Names[it][v] \notin created    \* nothing pre-existing is rewritten

\* ---------------------------------------------------------------------------- G
Files == UNION {{Names[it][v] : v \in fs[it]} : it \in Items}
EmitCase == Loaded => Emit([naming |-> naming, present |-> present, both |-> both, files |-> Files,
                            attr |-> attr, created |-> created, status |-> status])
====
