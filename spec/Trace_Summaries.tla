---- MODULE Trace_Summaries ----
(* V: summaries recorded from a real TemplateModel, judged by the definitions of Summaries.
   kind "true":   get_amplitudes_true(sample2unit, use): {W, wmi4, ids, amps, f2, n, spike8, meanv,
                  ampq, peakq, rescq}   (meanv: [num, den] per id, [0, 0] = NaN; *q = round(Q x))
   kind "stored": templates_amplitudes / clusters_amplitudes: {ids, amps, mean}
   kind "peaks":  templates_channels / clusters_channels / *_waveforms_durations / templates_probes:
                  {W, channels, dur, chprobe, tprobes (<<>> for clusters)}
   kind "depths": get_depths: {x (first-component features per spike), ys, depthq (-1 = NaN)}      *)
EXTENDS Summaries
VARIABLE i
Trace == ndJsonDeserialize(TraceFile)
Q == 256
TInit == SInit /\ i = 1 /\ RejectInit /\ TLCSet(2, 0)
CheckTrue(r) ==
  \* (TLC re-evaluates a LET definition at every use; quantifying over a singleton binds the VALUE)
  \A mean \in {MeanAmps(r.W, r.wmi4, r.ids, r.amps, r.f2, r.n)} : \A au4 \in {AU4(r.W, r.wmi4)} :
  /\ Clause(r.id, "spike_amps", r.spike8 = SpikeAmps8(r.W, r.wmi4, r.ids, r.amps, r.f2))
  /\ Clause(r.id, "mean_amps.length", Len(r.meanv) = r.n)
  /\ Len(r.meanv) = r.n =>
       /\ Clause(r.id, "mean_amps", \A x \in 1..r.n : RatEq(r.meanv[x], mean[x]))
       /\ Clause(r.id, "nan_for_empty", \A x \in 1..r.n : (Members(r.ids, x - 1) = {}) <=> r.meanv[x][2] = 0)
       \* the rescaled waveform of an id with spikes has exactly the mean amplitude as its peak amplitude
       /\ Clause(r.id, "peak_is_mean", \A x \in 1..r.n : mean[x][2] # 0 =>
                       /\ Abs(r.peakq[x] - r.ampq[x]) <= 2
                       /\ NearQ(r.ampq[x], mean[x][1], mean[x][2], Q))
       \* and is the unwhitened waveform times (mean amplitude / arbitrary-unit amplitude) times the factor
       /\ Clause(r.id, "rescaled", \A x \in 1..r.n : (mean[x][2] # 0 /\ au4[x] # 0) =>
                       \A U4 \in {MatMul(r.W[x], r.wmi4)} :
                       \A s \in 1..Len(U4) : \A c \in 1..Len(U4[s]) :
                          NearQ(r.rescq[x][s][c], U4[s][c] * mean[x][1], au4[x] * mean[x][2], Q))
CheckStored(r) == Clause(r.id, "mean_stored",
                         /\ Len(r.mean) = Len(MeanStored(r.ids, r.amps))
                         /\ \A k \in 1..Len(r.mean) : RatEq(r.mean[k], MeanStored(r.ids, r.amps)[k]))
\* (relational on ties: any channel of maximal peak-to-peak amplitude is a peak channel; the duration is
\* taken on a peak channel)
IsPeak(Wx, p) == p + 1 \in 1..Len(PTP(Wx)) /\ PTP(Wx)[p + 1] = SeqMax(PTP(Wx))
CheckPeaks(r) == /\ Clause(r.id, "peak_channels", Len(r.channels) = Len(r.W) /\ \A t \in 1..Len(r.W) : IsPeak(r.W[t], r.channels[t]))
                 \* templates_probes: the probe LABEL (as stored in the probe table, any integers) of a peak channel
                 /\ Clause(r.id, "probes", r.tprobes = <<>> \/
                        (Len(r.tprobes) = Len(r.W) /\ \A t \in 1..Len(r.W) :
                            \E p \in 0..(Len(r.chprobe) - 1) : IsPeak(r.W[t], p) /\ r.tprobes[t] = r.chprobe[p + 1]))
                 /\ Clause(r.id, "durations", Len(r.dur) = Len(r.W) /\ \A t \in 1..Len(r.W) :
                        \E p \in 0..(Len(r.W[t][1]) - 1) : IsPeak(r.W[t], p) /\
                           r.dur[t] = FirstArgMax(Col(r.W[t], p + 1)) - FirstArgMin(Col(r.W[t], p + 1)))
CheckDepths(r) == Clause(r.id, "depths",
                    /\ Len(r.depthq) = Len(r.x)
                    /\ \A k \in 1..Len(r.x) : LET dd == Depth(r.x[k], r.ys[k]) IN
                          IF dd[2] = 0 THEN r.depthq[k] = -1 ELSE r.depthq[k] >= 0 /\ NearQ(r.depthq[k], dd[1], dd[2], Q))
Check1(r) == CASE r.kind = "true" -> CheckTrue(r)
               [] r.kind = "stored" -> CheckStored(r)
               [] r.kind = "peaks" -> CheckPeaks(r)
               [] r.kind = "depths" -> CheckDepths(r)
TNext == /\ i <= Len(Trace) /\ Check1(Trace[i]) /\ TLCSet(2, i) /\ i' = i + 1 /\ UNCHANGED svars
TSpec == TInit /\ [][TNext]_<<svars, i>>
Accepted == Verdict(TLCGet(2)) /\ TLCGet(2) = Len(Trace)
====
