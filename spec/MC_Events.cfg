SPECIFICATION Spec
CONSTANTS
  Depth = 2
  KeepHist = FALSE
  FreeStyle = FALSE
CONSTRAINT ListBound
INVARIANT EmitOk
INVARIANT SilentCallsNothing
PROPERTY RegistryOk
