SPECIFICATION Spec
CONSTANTS
  MaxScript = 5
  Flaky = FALSE
INVARIANT EmitCase
