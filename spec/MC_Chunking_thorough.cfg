SPECIFICATION FairSpec
CONSTANTS
  Modes = {"gen", "bounds", "cbin", "exc"}
  MaxN = 60
  MaxCS = 20
  MaxFiles = 4
  MaxTotal = 14
  MaxChunk = 16
  MaxChunks = 16
  MaxThreads = 8
  MaxEN = 40
  MaxNE = 8
  MaxES = 8
INVARIANT Tiles
INVARIANT TilesEquiv
INVARIANT Inside
INVARIANT Size
INVARIANT BoundsValid
INVARIANT BaseIterTiles
INVARIANT IterTiles
INVARIANT ExcerptsValid
INVARIANT GetExcerptsValid
PROPERTY Terminates
PROPERTY DoneIsFinal
