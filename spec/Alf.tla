---- MODULE Alf ----
(* C13 / C14 - ALF export.

   Skeleton machine (C13): the conversion pipeline of io/alf.py EphysAlfCreator.convert, one action per
   step, over the FILE NAMES of the source and target directories. A target file is a record
   [base, ext] (e.g. base "spikes.times", ext "npy"); the optional label is inserted between them.
     MakeClusterObjects, MakeChannelObjects, MakeTemplateAndSpikesObjects, SaveSubsetWaveforms (adds three
     files to the SOURCE when raw data exist), MakeDepths, RmFiles (deletes the sorter's temp_wh.dat),
     CopyFiles (the rename table), RenameWithLabel, CompressSpikesDtypes
   P-layer (C13): Labelled, SourceFrame, TargetComplete, table dimensions (TableDimsOk, on logged shapes).
   P-layer (C14): value predicates built from Summaries (used by the trace specification).          *)
EXTENDS SummariesOps
CONSTANTS Labels

\* the rename table of copy_files: source name -> target [base, ext]
Renames == { <<"params.py", [base |-> "params", ext |-> "py"]>>,
             <<"cluster_KSLabel.tsv", [base |-> "cluster_KSLabel", ext |-> "tsv"]>>,
             <<"spike_clusters.npy", [base |-> "spikes.clusters", ext |-> "npy"]>>,
             <<"spike_templates.npy", [base |-> "spikes.templates", ext |-> "npy"]>>,
             <<"channel_positions.npy", [base |-> "channels.localCoordinates", ext |-> "npy"]>>,
             <<"channel_probe.npy", [base |-> "channels.probes", ext |-> "npy"]>>,
             <<"cluster_probes.npy", [base |-> "clusters.probes", ext |-> "npy"]>>,
             <<"whitening_mat.npy", [base |-> "_kilosort_whitening.matrix", ext |-> "npy"]>>,
             <<"_phy_spikes_subset.channels.npy", [base |-> "_phy_spikes_subset.channels", ext |-> "npy"]>>,
             <<"_phy_spikes_subset.spikes.npy", [base |-> "_phy_spikes_subset.spikes", ext |-> "npy"]>>,
             <<"_phy_spikes_subset.waveforms.npy", [base |-> "_phy_spikes_subset.waveforms", ext |-> "npy"]>> }
Subset == {"_phy_spikes_subset.channels.npy", "_phy_spikes_subset.spikes.npy", "_phy_spikes_subset.waveforms.npy"}
Npy(b) == [base |-> b, ext |-> "npy"]
AlfObjects == {"spikes", "clusters", "templates", "channels"}
\* the ALF object a base name belongs to ("" when none): the part before the first dot
BasesOf(o) == CASE o = "spikes" -> {"spikes.times", "spikes.samples", "spikes.amps", "spikes.depths", "spikes.clusters", "spikes.templates"}
                [] o = "clusters" -> {"clusters.channels", "clusters.peakToTrough", "clusters.amps", "clusters.uuids", "clusters.depths",
                                      "clusters.waveforms", "clusters.waveformsChannels", "clusters.probes"}
                [] o = "templates" -> {"templates.amps", "templates.waveforms", "templates.waveformsChannels"}
                [] o = "channels" -> {"channels.rawInd", "channels.localCoordinates", "channels.probes"}
ObjOf(b) == IF \E o \in AlfObjects : b \in BasesOf(o) THEN CHOOSE o \in AlfObjects : b \in BasesOf(o) ELSE "none"

VARIABLES raw, kslabel, tempwh, probes, wm, label, src, src0, tgt, apc
avars == <<raw, kslabel, tempwh, probes, wm, label, src, src0, tgt, apc>>
Base == {"params.py", "spike_times.npy", "spike_templates.npy", "spike_clusters.npy", "amplitudes.npy",
         "channel_map.npy", "channel_positions.npy", "templates.npy"}
AInit == raw = FALSE /\ kslabel = FALSE /\ tempwh = FALSE /\ probes = FALSE /\ wm = FALSE /\ label = "" /\ src = {} /\ src0 = {}
         /\ tgt = {} /\ apc = "pick"
APick == /\ apc = "pick" /\ raw' \in BOOLEAN /\ kslabel' \in BOOLEAN /\ tempwh' \in BOOLEAN /\ probes' \in BOOLEAN
         /\ wm' \in BOOLEAN /\ label' \in Labels
         /\ src' = Base \cup (IF raw' THEN {"raw.dat"} ELSE {}) \cup (IF kslabel' THEN {"cluster_KSLabel.tsv"} ELSE {})
                   \cup (IF tempwh' THEN {"temp_wh.dat"} ELSE {}) \cup (IF probes' THEN {"channel_probe.npy", "cluster_probes.npy"} ELSE {})
                   \cup (IF wm' THEN {"whitening_mat.npy", "whitening_mat_inv.npy"} ELSE {})
         /\ src0' = src' /\ tgt' = {} /\ apc' = "clusters"
Step(from, to, newTgt, newSrc) == /\ apc = from /\ apc' = to /\ tgt' = newTgt /\ src' = newSrc
                                  /\ UNCHANGED <<raw, kslabel, tempwh, probes, wm, label, src0>>
MakeClusterObjects == Step("clusters", "channels",
      tgt \cup {Npy("clusters.channels"), Npy("clusters.peakToTrough"), Npy("clusters.amps"), [base |-> "clusters.uuids", ext |-> "csv"]}, src)
MakeChannelObjects == Step("channels", "templates", tgt \cup {Npy("channels.rawInd")}, src)
MakeTemplateAndSpikesObjects == Step("templates", "subset",
      tgt \cup {Npy("spikes.times"), Npy("spikes.samples"), Npy("spikes.amps"), Npy("templates.amps"), Npy("templates.waveforms"),
                Npy("templates.waveformsChannels"), Npy("clusters.waveforms"), Npy("clusters.waveformsChannels"), Npy("clusters.amps")}, src)
SaveSubsetWaveforms == Step("subset", "depths", tgt, IF raw THEN src \cup Subset ELSE src)
MakeDepths == Step("depths", "rm", tgt \cup {Npy("spikes.depths"), Npy("clusters.depths")}, src)
RmFiles == Step("rm", "copy", tgt, src \ {"temp_wh.dat"})
CopyFiles == Step("copy", "rename", tgt \cup {e[2] : e \in {e \in Renames : e[1] \in src}}, src)
\* the label is a name part before the extension of every spikes.* / clusters.* / templates.* / channels.* file
RenameWithLabel == Step("rename", "compress", tgt, src)        \* names are [base, ext]; the label is applied by FileName
CompressSpikesDtypes == Step("compress", "done", tgt, src)
ANext == APick \/ MakeClusterObjects \/ MakeChannelObjects \/ MakeTemplateAndSpikesObjects \/ SaveSubsetWaveforms
         \/ MakeDepths \/ RmFiles \/ CopyFiles \/ RenameWithLabel \/ CompressSpikesDtypes
ASpec == AInit /\ [][ANext]_avars
HasLabel(f) == label # "" /\ ObjOf(f.base) # "none"
\* ---- C13 P-layer on names
ADone == apc = "done"
Labelled == ADone => \A f \in tgt : HasLabel(f) <=> (label # "" /\ \E o \in AlfObjects : f.base \in BasesOf(o))
SourceFrame == ADone => src = (src0 \ {"temp_wh.dat"}) \cup (IF raw THEN Subset ELSE {})
TargetComplete == ADone => /\ \A o \in AlfObjects : \A b \in BasesOf(o) \ {"clusters.probes", "channels.probes"} :
                                 \E f \in tgt : f.base = b
                           /\ (probes <=> \E f \in tgt : f.base = "channels.probes")
                           /\ (raw <=> \E f \in tgt : f.base = "_phy_spikes_subset.waveforms")
EmitCase == ADone => Emit([raw |-> raw, kslabel |-> kslabel, tempwh |-> tempwh, probes |-> probes, wm |-> wm, label |-> label,
                           src |-> src, tgt |-> {[base |-> f.base, ext |-> f.ext, labelled |-> HasLabel(f)] : f \in tgt}])

\* ---- table dimensions, on logged first dimensions (trace spec): dims = [base |-> first dimension]
TableDimsOk(dims, nspk, ncl, ntm, nch) ==
   \A f \in DOMAIN dims :
      dims[f] = (CASE f \in BasesOf("spikes") -> nspk
                   [] f \in BasesOf("clusters") -> ncl
                   [] f \in BasesOf("templates") -> ntm
                   [] f \in BasesOf("channels") -> nch
                   [] OTHER -> dims[f])
====
