---- MODULE Download ----
(* C20 - no download is reported successful with a file failing its published checksum.

   I-layer: datasets.download_file, one action per step of the code
     PreCheck  existing file: fetch the checksum, compare (tri-state TRUE / FALSE / None)
     Fetch1    GET data (404 -> raise before the file is opened; else the body overwrites the file)
     Verify1   fetch the checksum again, compare; only an explicit FALSE triggers the retry
     Fetch2, Verify2   the single retry; an explicit FALSE now raises
   The server is a script: `script` = remaining responses of the data URL (exhausted = connection
   error, raised to the caller), `md5s` = remaining behaviours of the checksum URL (one per checksum
   request; when Flaky = FALSE all entries are equal, which is the property's domain).
   P-layer: ReturnedImpliesValid, NoRedundantGet, ExactlyOneRetry, FaultsRaise, AtMostTwoGets,
   termination.                                                                               *)
EXTENDS VIO, FiniteSets
CONSTANTS MaxScript, Flaky
VARIABLES file, script, md5s, pc, reqs, status, prior, script0, md5s0,
          cbLeak      \* growth beyond C20: callbacks left on phylib's GLOBAL event emitter (see CallbacksRestored)
vars == <<file, script, md5s, pc, reqs, status, prior, script0, md5s0, cbLeak>>

\* corrupted bodies come in three kinds: other bytes, a truncated transfer, an EMPTY body (200 with no content)
Resp == {"good", "corrupt", "trunc", "empty", "e404"}
\* a wrong checksum is another well-formed one ("wrong") or a mangled text that is not 32 hex digits ("mangled")
Md5Modes == {"correct", "wrong", "mangled", "missing"}
RECURSIVE Seqs(_, _)
Seqs(S, len) == IF len = 0 THEN {<<>>} ELSE {<<x>> \o r : x \in S, r \in Seqs(S, len - 1)}

Init == /\ file \in {"absent", "valid", "corrupt"} /\ prior = file
        /\ script \in UNION {Seqs(Resp, l) : l \in 0..MaxScript} /\ script0 = script
        /\ md5s \in (IF Flaky THEN Seqs(Md5Modes, 3) ELSE {<<m, m, m>> : m \in Md5Modes}) /\ md5s0 = md5s
        /\ pc = "start" /\ reqs = <<>> /\ status = "running" /\ cbLeak = 0

\* _check_md5_of_url: tri-state. A 404 on the checksum URL yields an (HTML-free) empty body here,
\* i.e. no checksum -> "none".
Check(f, m) == IF m = "missing" THEN "none"
               ELSE IF m = "correct" /\ f = "valid" THEN "true" ELSE "false"

\* GET of the data URL
Fetch(next) ==
  /\ reqs' = Append(reqs, "data")
  /\ IF script = <<>> \/ Head(script) = "e404"
     THEN /\ status' = "raised" /\ pc' = "end" /\ file' = file /\ cbLeak' = cbLeak
          /\ script' = (IF script = <<>> THEN script ELSE Tail(script))
     ELSE /\ file' = (IF Head(script) = "good" THEN "valid" ELSE "corrupt")
          /\ script' = Tail(script) /\ pc' = next /\ status' = status
          \* _save_stream creates a ProgressReporter whose set_progress_message / set_complete_message
          \* connect two callbacks on the module-level emitter; nothing ever unconnects them
          /\ cbLeak' = cbLeak + 2
  /\ UNCHANGED <<md5s, prior, script0, md5s0>>

\* one checksum request, then `then(result)`
Verify(then(_)) == /\ reqs' = Append(reqs, "md5") /\ md5s' = Tail(md5s)
                   /\ then(Check(file, Head(md5s)))
                   /\ UNCHANGED <<file, script, prior, script0, md5s0, cbLeak>>

PreCheck == /\ pc = "start"
            /\ IF file = "absent"
               THEN pc' = "fetch1" /\ UNCHANGED <<file, script, md5s, reqs, status, prior, script0, md5s0, cbLeak>>
               ELSE Verify(LAMBDA c : IF c = "true" THEN pc' = "end" /\ status' = "returned"
                                      ELSE pc' = "fetch1" /\ status' = status)
Fetch1 == pc = "fetch1" /\ Fetch("verify1")
Verify1 == pc = "verify1" /\ Verify(LAMBDA c : IF c = "false" THEN pc' = "fetch2" /\ status' = status
                                              ELSE pc' = "end" /\ status' = "returned")
Fetch2 == pc = "fetch2" /\ Fetch("verify2")
Verify2 == pc = "verify2" /\ Verify(LAMBDA c : /\ pc' = "end"
                                               /\ status' = (IF c = "false" THEN "raised" ELSE "returned"))
Next == PreCheck \/ Fetch1 \/ Verify1 \/ Fetch2 \/ Verify2
Spec == Init /\ [][Next]_vars
FairSpec == Spec /\ WF_vars(Next)

\* ---------------------------------------------------------------------------- P-layer
\* (all for a server whose checksum behaviour does not change during the call)
Stable == md5s0[1] = md5s0[2] /\ md5s0[2] = md5s0[3]
Mode == md5s0[1]
NGets(r) == Cardinality({k \in 1..Len(r) : r[k] = "data"})
ReturnedImpliesValidOf(st, f, m) == (st = "returned" /\ m # "missing") => (m = "correct" /\ f = "valid")
ReturnedImpliesValid == Stable => ReturnedImpliesValidOf(status, file, Mode)
AtMostTwoGets == NGets(reqs) <= 2
\* a valid existing file is not downloaded again
NoRedundantGetOf(pr, m, st, r) == (pr = "valid" /\ m = "correct") => (st = "returned" /\ NGets(r) = 0)
NoRedundantGet == (Stable /\ pc = "end") => NoRedundantGetOf(prior, Mode, status, reqs)
\* a mismatch after the first download triggers exactly one more GET (never zero, never two)
ExactlyOneRetry == [][(Stable /\ pc = "verify1" /\ Check(file, Mode) = "false") => pc' = "fetch2"]_vars
\* a persistent mismatch or an HTTP error raises instead of returning
FaultsRaiseOf(m, f, st, hadErr) ==
   /\ (m # "missing" /\ ~(m = "correct" /\ f = "valid")) => st = "raised"
   /\ hadErr => st = "raised"
HadHttpError == \E k \in 1..NGets(reqs) : k > Len(script0) \/ script0[k] = "e404"
FaultsRaise == (Stable /\ pc = "end") => FaultsRaiseOf(Mode, file, status, HadHttpError)
Terminates == <>(pc = "end")
\* NOT a listed property and NOT claimed: "a download leaves the set of registered callbacks as it found
\* it". TLC refutes it (MC_Download_leak.cfg: every transfer that receives a body leaves two callbacks);
\* the replay records the observed growth of the emitter's callback list next to cbLeak (evidence note).
CallbacksRestored == pc = "end" => cbLeak = 0

\* ---------------------------------------------------------------------------- G
CaseRecord == [prior |-> prior, script |-> script0, md5s |-> md5s0, reqs |-> reqs,
               status |-> status, file |-> file, cbLeak |-> cbLeak]
EmitCase == pc = "end" => Emit(CaseRecord)
====
