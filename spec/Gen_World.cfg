SPECIFICATION Spec
CONSTANTS
  Depth = 4
  ForeignKinds <- AllForeignKinds
  KeepHist = TRUE
INVARIANT EmitCase
