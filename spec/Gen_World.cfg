SPECIFICATION Spec
CONSTANTS
  Depth = 4
  KeepHist = TRUE
INVARIANT EmitCase
