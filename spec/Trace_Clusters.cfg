SPECIFICATION TSpec
CONSTANTS
  MaxLen = 0
  Alpha = {}
  BitsSet = {}
  ReqAlpha = {}
POSTCONDITION Accepted
