SPECIFICATION Spec
CONSTANTS
  MaxReaders = 3
  OpSet <- SmallOps
  ChainOnly = FALSE
  Aliasing = TRUE
PROPERTY Isolation
