SPECIFICATION ASpec
CONSTANTS
  Labels = {"", "probe00"}
INVARIANT EmitCase
