SPECIFICATION ASpec
CONSTANTS
  Labels = {"", "probe00", "a"}
INVARIANT EmitCase
