SPECIFICATION ASpec
CONSTANTS
  Labels = {"", "probe00", "s"}
INVARIANT EmitCase
