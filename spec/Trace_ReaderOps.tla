---- MODULE Trace_ReaderOps ----
(* V: random derivation forests on real readers. One record per derivation:
   {id, op: "begin"} | {id, op: "derive", parent, name, arg, opsAfter: [ops of every live reader],
                        eq: every live reader re-indexed equals eager NumPy (values and dtype)}
   Each derivation is consumed by Derive; the logged op lists of ALL live readers must equal the
   successor state (this is Isolation + ChildOps on the real objects).                        *)
EXTENDS ReaderOps
VARIABLE i
Trace == ndJsonDeserialize(TraceFile)
TInit == Init /\ i = 1 /\ RejectInit /\ TLCSet(2, 0)
r == Trace[i]
Begin == r.op = "begin" /\ ops' = [k \in {1} |-> <<>>] /\ owner' = [k \in {1} |-> 1] /\ n' = 1 /\ hist' = <<>>
TDerive == /\ r.op = "derive" /\ Derive(r.parent, <<r.name, r.arg>>)
           /\ Clause(r.id, "ops", [x \in 1..n' |-> ops'[owner'[x]]] = r.opsAfter)
           /\ Clause(r.id, "isolation", \A x \in 1..n : ops'[owner'[x]] = r.opsAfter[x])
           /\ Clause(r.id, "LazyEqEager", r.eq)
TNext == /\ i <= Len(Trace) /\ i' = i + 1 /\ TLCSet(2, i) /\ (Begin \/ TDerive)
TSpec == TInit /\ [][TNext]_<<vars, i>>
Accepted == Verdict(TLCGet(2)) /\ TLCGet(2) = Len(Trace)
====
