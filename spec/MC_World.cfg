SPECIFICATION Spec
CONSTANTS
  Depth = 0
  ForeignKinds = {"valid", "multi", "samefield", "garbage", "info"}
  KeepHist = FALSE
INVARIANT ForeignIsInert
PROPERTY ReloadShowsLastSaved
