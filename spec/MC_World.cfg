SPECIFICATION Spec
CONSTANTS
  Depth = 0
  KeepHist = FALSE
INVARIANT ForeignIsInert
PROPERTY ReloadShowsLastSaved
