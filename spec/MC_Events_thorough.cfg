SPECIFICATION Spec
CONSTANTS
  Depth = 3
  KeepHist = FALSE
  FreeStyle = FALSE
CONSTRAINT ListBound
INVARIANT EmitOk
INVARIANT SilentCallsNothing
PROPERTY RegistryOk
