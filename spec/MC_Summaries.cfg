SPECIFICATION SSpec
CONSTANTS
  NS = 2
  NCH = 2
  Vals <- ValsS
  Wmis <- Wmis2
  NT = 2
  NSpk = 3
  AmpVals = {1, 3}
INVARIANT MeanOk
INVARIANT EmptyIsNaN
INVARIANT PeakIsArgmax
