SPECIFICATION TSpec
CONSTANTS
  MaxV = 0
  Depth = 0
  KeepHist = FALSE
POSTCONDITION Accepted
