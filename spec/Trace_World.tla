---- MODULE Trace_World ----
(* V: random long save/reload histories on a real dataset, one record per operation:
   {id, op: "begin" | "ssc" | "smd" | "foreign" | "subset" | "close" | "reload", ...arguments,
    and for a reload the observed {sc, md, subset, stEqual, timesEqual, storeEqualsRaw}}
   Every operation is consumed by the matching action of World; what a reload shows must equal
   both the file-based successor state (I-layer) and the dictionary reference model (P-layer).  *)
EXTENDS World
VARIABLE i
Trace == ndJsonDeserialize(TraceFile)
TInit == Init /\ i = 1 /\ RejectInit /\ TLCSet(2, 0)
r == Trace[i]
AsMap(pairs) == [x \in {pairs[q][1] : q \in 1..Len(pairs)} |-> pairs[CHOOSE q \in 1..Len(pairs) : pairs[q][1] = x][2]]
AsMd(md) == [f \in {md[q][1] : q \in 1..Len(md)} |-> SeqSet(md[CHOOSE q \in 1..Len(md) : md[q][1] = f][2])]
Begin == /\ r.op = "begin" /\ scFile' = "init" /\ files' = <<>> /\ foreign' = [k \in ForeignKinds |-> FALSE]
         /\ subset' = FALSE /\ lastSaved' = <<>> /\ hist' = hist
         /\ model' = [open |-> TRUE, sc |-> "init", md |-> <<>>, subset |-> FALSE]
TSsc == r.op = "ssc" /\ SaveSpikeClusters(r.v)
TSmd == r.op = "smd" /\ SaveMetadata(r.field, AsMap(r.map))
TForeign == r.op = "foreign" /\ foreign' = [foreign EXCEPT ![r.kind] = TRUE]
            /\ UNCHANGED <<scFile, files, subset, model, lastSaved, hist>>
TSubset == r.op = "subset" /\ subset' = TRUE /\ UNCHANGED <<scFile, files, foreign, model, lastSaved, hist>>
TClose == r.op = "close" /\ model' = NoModel /\ UNCHANGED <<scFile, files, foreign, subset, lastSaved, hist>>
TReload == /\ r.op = "reload" /\ Reload
           /\ Clause(r.id, "reload.loaded", r.loaded)
           /\ r.loaded =>
                /\ Clause(r.id, "reload.spike_clusters", r.sc = model'.sc)
                /\ Clause(r.id, "reload.metadata(files)", AsMd(r.md) = model'.md)
                /\ Clause(r.id, "reload.metadata(last saved)", AsMd(r.md) = ExpectedMd)
                /\ Clause(r.id, "reload.subset", r.subset = model'.subset)
                /\ Clause(r.id, "reload.templates_times_unchanged", r.stEqual /\ r.timesEqual)
                /\ Clause(r.id, "reload.store_equals_raw", r.storeEqualsRaw)
TNext == /\ i <= Len(Trace) /\ i' = i + 1 /\ TLCSet(2, i)
         /\ (Begin \/ TSsc \/ TSmd \/ TForeign \/ TSubset \/ TClose \/ TReload)
TSpec == TInit /\ [][TNext]_<<vars, i>>
Accepted == Verdict(TLCGet(2)) /\ TLCGet(2) = Len(Trace)
====
