---- MODULE ReaderOps ----
(* C02 - lazy reader expressions commute with eager NumPy evaluation.

   I-layer: io/traces.py _append_op / the arithmetic dunders / reader[:, cols]
     Derive(r, op)   the clone gets ITS OWN list ops[r] \o <<op>> (copy.copy + list(self._ops))
     SelectAll(r, c) reader[:, cols] is Derive with the deferred 'cols' operation
   Indexing (no state change) applies the deferred operations, in order, to the rows fetched.
   P-layer:
     LazyEqEager  on a term algebra: a cell is <<row, col, sequence of arithmetic ops applied>>;
                  applying the op list to the selected rows = selecting rows of the op list applied
                  to the whole array (for every reader, every row selection)
     Isolation    no action changes the op list of an existing reader
     ChildOps     a derived reader's list is its parent's list plus the new operation
   EvalInt: concrete integer evaluation of the integer-closed operators (emitted for the replay
   as an oracle independent of NumPy wherever it is defined and small).                       *)
EXTENDS VIO, FiniteSets
CONSTANTS MaxReaders,      \* live readers (base included)
          OpSet,           \* operations available: set of <<name, arg token>>
          ChainOnly,       \* TRUE: every reader is derived from the newest one (operator programs)
          Aliasing         \* TRUE: the clone SHARES the parent's list (the bug the isolation clause
                           \*       is about) - used only to show that Isolation can fail
VARIABLES ops, owner, n, hist
vars == <<ops, owner, n, hist>>
\* ops: list-object id -> sequence of ops; owner: reader id -> list-object id
OpsOf(r) == ops[owner[r]]
Init == ops = [i \in {1} |-> <<>>] /\ owner = [r \in {1} |-> 1] /\ n = 1 /\ hist = <<>>
Derive(r, op) ==
   /\ n < MaxReaders
   /\ IF Aliasing
      THEN /\ ops' = [ops EXCEPT ![owner[r]] = Append(@, op)]
           /\ owner' = [x \in 1..(n + 1) |-> IF x = n + 1 THEN owner[r] ELSE owner[x]]
      ELSE /\ ops' = [i \in 1..(n + 1) |-> IF i = n + 1 THEN Append(ops[owner[r]], op) ELSE ops[i]]
           /\ owner' = [x \in 1..(n + 1) |-> IF x = n + 1 THEN n + 1 ELSE owner[x]]
   /\ n' = n + 1
   /\ hist' = Append(hist, [parent |-> r, op |-> op])
Next == \E r \in (IF ChainOnly THEN {n} ELSE 1..n), op \in OpSet : Derive(r, op)
Spec == Init /\ [][Next]_vars

\* ---------------------------------------------------------------------------- term algebra
NR == 3
NC == 2
ColsOf(tok) == IF tok = "c21" THEN <<2, 1>> ELSE IF tok = "c1" THEN <<1>> ELSE IF tok = "c12" THEN <<1, 2>>
               ELSE IF tok = "c2" THEN <<2>> ELSE <<1, 1>>
Base == [r \in 1..NR |-> [c \in 1..NC |-> <<r, c, <<>>>>]]
Void == <<0, 0, <<>>>>
ApplyOp(M, op) == IF op[1] = "cols"
                  THEN LET cs == ColsOf(op[2]) IN
                       [r \in 1..Len(M) |-> [k \in 1..Len(cs) |-> IF cs[k] <= Len(M[r]) THEN M[r][cs[k]] ELSE Void]]
                  ELSE [r \in 1..Len(M) |-> [c \in 1..Len(M[r]) |-> <<M[r][c][1], M[r][c][2], Append(M[r][c][3], op)>>]]
RECURSIVE ApplyAll(_, _)
ApplyAll(M, os) == IF os = <<>> THEN M ELSE ApplyAll(ApplyOp(M, Head(os)), Tail(os))
RowSel == {<<1>>, <<2, 3>>, <<1, 2, 3>>, <<3>>, <<1, 3>>}
Rows(M, sel) == [k \in 1..Len(sel) |-> M[sel[k]]]
Lazy(r, sel) == ApplyAll(Rows(Base, sel), OpsOf(r))
Eager(r, sel) == Rows(ApplyAll(Base, OpsOf(r)), sel)
LazyEqEager == \A r \in 1..n, sel \in RowSel : Lazy(r, sel) = Eager(r, sel)
Isolation == [][\A r \in 1..n : OpsOf(r)' = OpsOf(r)]_vars
ChildOps == [][\E r \in 1..n : \E op \in OpSet : ops'[owner'[n + 1]] = Append(OpsOf(r), op)]_vars

\* ---------------------------------------------------------------------------- EvalInt
IntArg(tok) == IF tok = "i2" THEN 2 ELSE IF tok = "i3" THEN 3 ELSE IF tok = "im1" THEN -1 ELSE 0
IsIntTok(tok) == tok \in {"i2", "i3", "im1", "none"}
Big == 100000
RECURSIVE IPow(_, _)
AbsI(x) == IF x < 0 THEN -x ELSE x
\* (the product is only formed when it cannot overflow TLC's 32-bit integers)
IPow(b, e) == IF e = 0 THEN 1 ELSE LET p == IPow(b, e - 1) IN
              IF p = Big \/ (b # 0 /\ AbsI(p) > Big \div AbsI(b)) THEN Big ELSE p * b
\* one operator on one integer; "undef" outcomes are encoded as Big (division by zero, negative
\* exponent, float scalar, magnitude >= Big): the replay then relies on the eager oracle only
EvalOp(x, op) ==
   LET a == IntArg(op[2])  nm == op[1] IN
   IF x = Big \/ ~IsIntTok(op[2]) THEN Big
   ELSE LET y == CASE nm = "pos" -> x
                   [] nm = "neg" -> -x
                   [] nm \in {"add", "radd"} -> x + a
                   [] nm = "sub" -> x - a
                   [] nm = "rsub" -> a - x
                   [] nm \in {"mul", "rmul"} -> x * a
                   [] nm = "floordiv" -> x \div a            \* a # 0 always (tokens 2, 3, -1)
                   [] nm = "rfloordiv" -> IF x = 0 THEN Big ELSE a \div x
                   [] nm = "pow" -> IF a < 0 THEN Big ELSE IPow(x, a)
                   [] nm = "rpow" -> IF x < 0 \/ x > 12 THEN Big ELSE IPow(a, x)
                   [] OTHER -> Big                             \* truediv, rtruediv: not integer-closed
        IN IF y >= Big \/ y <= -Big THEN Big ELSE y
\* base cell (r, c) holds (r - 1) * NC + c  (1-based identities, as the harness writes them)
RECURSIVE EvalCell(_, _)
EvalCell(x, os) == IF os = <<>> THEN x ELSE EvalCell(EvalOp(x, Head(os)), Tail(os))
EvalInt(r) == LET T == ApplyAll(Base, OpsOf(r)) IN
   [i \in 1..Len(T) |-> [j \in 1..Len(T[i]) |->
        IF T[i][j] = Void THEN Big ELSE EvalCell((T[i][j][1] - 1) * NC + T[i][j][2], T[i][j][3])]]
\* floor division really is floor division in TLC, also for negative operands
DivIsFloor == /\ (-7) \div 2 = -4 /\ 7 \div (-2) = -4 /\ (-7) \div (-2) = 3 /\ (-1) \div 3 = -1

\* ---------------------------------------------------------------------------- G
CaseRecord == [hist |-> hist, ops |-> [r \in 1..n |-> OpsOf(r)], eval |-> [r \in 1..n |-> EvalInt(r)]]
EmitCase == n = MaxReaders => Emit(CaseRecord)

Arith == {"pos", "neg", "add", "radd", "sub", "rsub", "mul", "rmul", "truediv", "rtruediv",
          "floordiv", "rfloordiv", "pow", "rpow"}
Unary == {"pos", "neg"}
FullOps == {<<a, "none">> : a \in Unary}
           \cup {<<a, t>> : a \in Arith \ Unary, t \in {"i2", "i3", "im1", "f05", "f3"}}      \* (3.0: a float that is not a power of two - x / 3.0 is not x * (1 / 3.0))
           \cup {<<"cols", t>> : t \in {"c21", "c1", "c12"}}
SmallOps == {<<"neg", "none">>, <<"add", "i2">>, <<"rsub", "i3">>, <<"mul", "f05">>,
             <<"rfloordiv", "i3">>, <<"cols", "c21">>, <<"cols", "c1">>}
====
