---- MODULE Clusters ----
(* C07 - spike-cluster index utilities partition the spikes.

   I-layer (one-shot computations, transcribed from io/array.py):
     SpikesPerCluster  stable argsort -> first differences (in the dtype's modular arithmetic)
                       -> boundaries where the difference is > 0 -> slices of the (optionally
                       supplied) spike ids; the last group runs to the end
     Unique            bincount / nonzero of the non-negative part
     IndexOf           lookup table of size max+2 whose last slot is -1
     InClusters        nonzero(isin(v, req))
     Flatten           unique(concatenate(groups))
     GroupedMean       unique -> index_of -> bincount, add.at -> sum / count
   P-layer (declarative, on any candidate output): IsGroups, IsUnique, IsIndexOf, IsInClusters,
   IsFlatten, IsMean.                                                                         *)
EXTENDS VIO, FiniteSets
CONSTANTS MaxLen, Alpha, BitsSet, ReqAlpha
VARIABLES v, bits, withIds, done
vars == <<v, bits, withIds, done>>
\* (the inputs are chosen by an action rather than by Init so that TLC evaluates the invariants
\* in parallel: initial states are processed by a single thread)
Init == v = <<>> /\ bits = 0 /\ withIds = FALSE /\ done = FALSE
Pick == /\ v = <<>> /\ done = FALSE
        /\ \E len \in 1..MaxLen : v' \in [1..len -> Alpha]
        /\ bits' \in BitsSet            \* 0 = signed dtype; 16 = unsigned 16-bit
        /\ withIds' \in BOOLEAN /\ done' = FALSE
Compute == v # <<>> /\ done = FALSE /\ done' = TRUE /\ UNCHANGED <<v, bits, withIds>>
Next == Pick \/ Compute
Spec == Init /\ [][Next]_vars

\* supplied spike ids: an arbitrary strictly increasing id vector (here 3*i + 1, 0-based i)
IdsOf(vv, w) == [i \in 1..Len(vv) |-> IF w THEN 3 * (i - 1) + 1 ELSE i - 1]

\* ---------------------------------------------------------------------------- I-layer
Before(vv, i, j) == vv[i] < vv[j] \/ (vv[i] = vv[j] /\ i < j)             \* stable ('mergesort')
Order(vv) == [r \in 1..Len(vv) |-> CHOOSE i \in 1..Len(vv) : Cardinality({j \in 1..Len(vv) : Before(vv, j, i)}) = r - 1]
Pow2(b) == 65536      \* only 16-bit unsigned wrap is representable (TLC integers are 32-bit); uint32 is covered by the replay
DiffAt(s, r, b) == IF r = 1 THEN 1
                   ELSE IF b = 0 THEN s[r] - s[r - 1]
                   ELSE (s[r] - s[r - 1]) % Pow2(b)          \* np.diff on an unsigned dtype wraps
SpikesPerCluster(vv, ids, b) ==
   LET n == Len(vv)
       ord == Order(vv)
       s == [r \in 1..n |-> vv[ord[r]]]
       abs == [r \in 1..n |-> ids[ord[r]]]
       idx == SelectSeq([r \in 1..n |-> r], LAMBDA r : DiffAt(s, r, b) > 0)
       grp(k) == LET lo == idx[k]  hi == IF k < Len(idx) THEN idx[k + 1] - 1 ELSE n
                 IN [r \in 1..(hi - lo + 1) |-> abs[lo + r - 1]]
   IN [k \in 1..Len(idx) |-> <<s[idx[k]], grp(k)>>]            \* sequence of <<cluster, spikes>>
MaxOf(S) == CHOOSE x \in S : \A y \in S : y <= x
Unique(vv) == LET nn == {vv[i] : i \in {j \in 1..Len(vv) : vv[j] >= 0}}
                  m == IF nn = {} THEN -1 ELSE MaxOf(nn)
                  bc == [x \in 0..m |-> Cardinality({i \in 1..Len(vv) : vv[i] = x})]
              IN SelectSeq([x \in 1..(m + 1) |-> x - 1], LAMBDA x : bc[x] > 0)
IndexOf(arr, lk) ==
   LET m == (IF lk = <<>> THEN 0 ELSE MaxOf(SeqSet(lk))) + 1
       tmp == [s \in 0..m |-> IF s = m THEN -1
                              ELSE IF \E i \in 1..Len(lk) : lk[i] = s
                                   THEN (CHOOSE i \in 1..Len(lk) : lk[i] = s /\ \A j \in 1..Len(lk) : lk[j] = s => j <= i) - 1
                                   ELSE 0]
   IN [i \in 1..Len(arr) |-> tmp[IF arr[i] = -1 THEN m ELSE arr[i]]]
InClusters(vv, req) == IF Len(vv) = 0 \/ Len(req) = 0 THEN <<>>
                       ELSE SelectSeq([i \in 1..Len(vv) |-> i - 1], LAMBDA i : vv[i + 1] \in SeqSet(req))
SortSet(S) == [r \in 1..Cardinality(S) |-> CHOOSE x \in S : Cardinality({y \in S : y < x}) = r - 1]
Flatten(groups) == SortSet(UNION {SeqSet(groups[k][2]) : k \in 1..Len(groups)})
\* grouped_mean of the weights w: per sorted cluster <<sum, count>>
GroupedMean(w, vv) ==
   LET u == Unique(vv)
       rel == IndexOf(vv, u)
   IN [k \in 1..Len(u) |-> <<SumSeq(SelectSeq([i \in 1..Len(vv) |-> IF rel[i] = k - 1 THEN w[i] ELSE 0], LAMBDA x : TRUE)),
                              Cardinality({i \in 1..Len(vv) : rel[i] = k - 1})>>]

\* ---------------------------------------------------------------------------- P-layer
StrictlyIncreasing(s) == \A k \in 1..(Len(s) - 1) : s[k] < s[k + 1]
\* g: sequence of <<cluster, spikes>>; one entry per cluster id present and no other, each the
\* increasing sequence of the ids of the spikes carrying it -> the groups partition all spikes
IsGroups(g, vv, ids) ==
   /\ {g[k][1] : k \in 1..Len(g)} = SeqSet(vv)
   /\ Len(g) = Cardinality(SeqSet(vv))
   /\ \A k \in 1..Len(g) : /\ StrictlyIncreasing(g[k][2])
                           /\ SeqSet(g[k][2]) = {ids[i] : i \in {j \in 1..Len(vv) : vv[j] = g[k][1]}}
IsUnique(u, vv) == StrictlyIncreasing(u) /\ SeqSet(u) = {x \in SeqSet(vv) : x >= 0}
\* (-1, "no channel / unclustered", is kept as -1)
IsIndexOf(out, arr, lk) == Len(out) = Len(arr) /\ \A i \in 1..Len(arr) :
                              IF arr[i] = -1 THEN out[i] = -1
                              ELSE out[i] + 1 \in 1..Len(lk) /\ lk[out[i] + 1] = arr[i]   \* total on any logged output
IsInClusters(out, vv, req) == StrictlyIncreasing(out) /\ SeqSet(out) = {i - 1 : i \in {j \in 1..Len(vv) : vv[j] \in SeqSet(req)}}
IsFlatten(out, g) == StrictlyIncreasing(out) /\ SeqSet(out) = UNION {SeqSet(g[k][2]) : k \in 1..Len(g)}
IsMean(m, w, vv) == LET u == SortSet({x \in SeqSet(vv) : x >= 0}) IN
   /\ Len(m) = Len(u)
   /\ \A k \in 1..Len(u) : LET S == {i \in 1..Len(vv) : vv[i] = u[k]} IN
         m[k][2] = Cardinality(S) /\ m[k][1] = SumSeq([i \in 1..Len(vv) |-> IF i \in S THEN w[i] ELSE 0])

ReqLists == {<<>>} \cup {<<a>> : a \in ReqAlpha} \cup {<<a, b>> : a \in ReqAlpha, b \in ReqAlpha}
Lookups(vv) == {SortSet(SeqSet(vv) \cup {5}), <<7, 0, 3, 2>>, <<2, 7, 3, 0, 5>>,
                <<3, 0, 2, 1>>, <<0, 1, 2, 3>>}       \* permutations of a dense range 0..n-1 too
Weights(vv) == [i \in 1..Len(vv) |-> 2 * i + 1]

GroupsOk == done => IsGroups(SpikesPerCluster(v, IdsOf(v, withIds), bits), v, IdsOf(v, withIds))
UniqueOk == done => IsUnique(Unique(v), v)
\* v with -1 at every position carrying the id `x`
WithNeg(vv, x) == [i \in 1..Len(vv) |-> IF vv[i] = x THEN -1 ELSE vv[i]]
IndexOfOk == done => \A lk \in Lookups(v) : SeqSet(v) \subseteq SeqSet(lk) =>
                 /\ IsIndexOf(IndexOf(v, lk), v, lk)
                 /\ IsIndexOf(IndexOf(WithNeg(v, v[1]), lk), WithNeg(v, v[1]), lk)
InClustersOk == done => \A rq \in ReqLists : IsInClusters(InClusters(v, rq), v, rq)
\* "selecting the spikes of any set of clusters equals the sorted union of their groups"
UnionOfGroupsOk == done => \A rq \in ReqLists :
   LET g == SpikesPerCluster(v, IdsOf(v, FALSE), bits)
       sel == SelectSeq(g, LAMBDA e : e[1] \in SeqSet(rq))
   IN InClusters(v, rq) = (IF sel = <<>> THEN <<>> ELSE Flatten(sel))
FlattenOk == done => LET g == SpikesPerCluster(v, IdsOf(v, withIds), bits) IN IsFlatten(Flatten(g), g)
MeanOk == done => IsMean(GroupedMean(Weights(v), v), Weights(v), v)

\* ---------------------------------------------------------------------------- G
CaseRecord == LET g == SpikesPerCluster(v, IdsOf(v, withIds), bits) IN
  [v |-> v, withIds |-> withIds, ids |-> IdsOf(v, withIds), groups |-> g, unique |-> Unique(v),
   inClusters |-> {<<rq, InClusters(v, rq)>> : rq \in ReqLists},
   lookups |-> {<<lk, IndexOf(v, lk)>> : lk \in {l \in Lookups(v) : SeqSet(v) \subseteq SeqSet(l)}},
   lookupsNeg |-> {<<lk, WithNeg(v, v[1]), IndexOf(WithNeg(v, v[1]), lk)>> : lk \in {l \in Lookups(v) : SeqSet(v) \subseteq SeqSet(l)}},
   flat |-> Flatten(g), w |-> Weights(v), mean |-> GroupedMean(Weights(v), v)]
EmitCase == (done /\ bits = 0) => Emit(CaseRecord)
====
