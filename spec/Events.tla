---- MODULE Events ----
(* C19 (emitter part) - utils/event.py EventEmitter.

   I-layer: one action per public call, state = what the object carries
     cbs     the _callbacks list: sequence of [ev, sender, fn, last]
     silent  the is_silent flag.  silent() is a context manager that TOGGLES the flag on entry and
             on exit (it does not set it) - modelled as it is: Toggle.
   Emit partitions the list into non-`last` then `last`, filters on event and sender, calls in
   that order, and stops after the first call when `single` is requested.
   Unconnect removes every callback that IS one of the items, whose SENDER FILTER is one of the
   items, or that is a bound method of one of the items.
   P-layer: ExpectedCalls is written from the statement with a precedence relation, not with the
   partition.                                                                                   *)
EXTENDS VIO, FiniteSets
CONSTANTS Depth,        \* length bound of histories
          KeepHist,     \* TRUE: carry the history (G runs); FALSE: only the last observation (M runs)
          FreeStyle     \* TRUE: connect style chosen freely (simulation); FALSE: derived from the callback
Evs == {"no_on", "b"}      \* (an event name made of the letters of the `on_` prefix: connecting by name strips the PREFIX, not its letters)
Senders == {"s1", "s2"}
Fns == {"f1", "f2", "m1"}                 \* m1 is a bound method of the object o1
Owner(f) == IF f = "m1" THEN "o1" ELSE "none"
Targets == Fns \cup Senders \cup {"o1"}
Styles == {"byName", "explicit", "decorator"}
StyleOf(f) == IF f = "f1" THEN "byName" ELSE IF f = "f2" THEN "explicit" ELSE "decorator"

VARIABLES cbs, silent, obs, hist
vars == <<cbs, silent, obs, hist>>
Init == cbs = <<>> /\ silent = FALSE /\ obs = [op |-> "init"] /\ hist = <<>>
Record(o) == /\ obs' = o
             /\ hist' = (IF KeepHist THEN Append(hist, o) ELSE hist)

\* ---------------------------------------------------------------------------- I-layer
Match(c, e, s) == c.ev = e /\ (c.sender = "none" \/ c.sender = s)
Partitioned == SelectSeq(cbs, LAMBDA c : ~c.last) \o SelectSeq(cbs, LAMBDA c : c.last)
RECURSIVE Run(_, _, _, _)
Run(q, e, s, single) ==
  IF q = <<>> THEN <<>>
  ELSE IF Match(Head(q), e, s)
       THEN (IF single THEN <<Head(q).fn>> ELSE <<Head(q).fn>> \o Run(Tail(q), e, s, single))
       ELSE Run(Tail(q), e, s, single)
\* return value: "none" (silenced), the list of results, or with `single` the first result
\* ("first") / the empty list when nothing matched ("empty")
RetKind(calls, single) == IF single THEN (IF calls = <<>> THEN "empty" ELSE "first") ELSE "list"

Connect(f, e, s, l, st) ==
   /\ cbs' = Append(cbs, [ev |-> e, sender |-> s, fn |-> f, last |-> l])
   /\ Record([op |-> "connect", fn |-> f, ev |-> e, sender |-> s, last |-> l, style |-> st])
   /\ UNCHANGED silent
Unconnect(x) ==
   /\ cbs' = SelectSeq(cbs, LAMBDA c : c.fn # x /\ c.sender # x /\ Owner(c.fn) # x)
   /\ Record([op |-> "unconnect", x |-> x]) /\ UNCHANGED silent
Reset == cbs' = <<>> /\ Record([op |-> "reset"]) /\ UNCHANGED silent
Toggle == silent' = ~silent /\ Record([op |-> "toggle"]) /\ UNCHANGED cbs
SetSilent(b) == silent' = b /\ Record([op |-> "set", b |-> b]) /\ UNCHANGED cbs
Emit1(e, s, single) ==
   LET calls == IF silent THEN <<>> ELSE Run(Partitioned, e, s, single) IN
   /\ Record([op |-> "emit", ev |-> e, sender |-> s, single |-> single, calls |-> calls,
              ret |-> IF silent THEN "none" ELSE RetKind(calls, single)])
   /\ UNCHANGED <<cbs, silent>>

Steps == IF KeepHist THEN Len(hist) ELSE 0
Next == /\ (KeepHist => Len(hist) < Depth)
        /\ \/ \E f \in Fns, e \in Evs, s \in Senders \cup {"none"}, l \in BOOLEAN :
                 \E st \in (IF FreeStyle THEN Styles ELSE {StyleOf(f)}) : Connect(f, e, s, l, st)
           \/ \E x \in Targets : Unconnect(x)
           \/ Reset \/ Toggle \/ \E b \in BOOLEAN : SetSilent(b)
           \/ \E e \in Evs, s \in Senders, sg \in BOOLEAN : Emit1(e, s, sg)
Spec == Init /\ [][Next]_vars
\* M runs bound the callback list instead of the history
ListBound == Len(cbs) <= Depth

\* ---------------------------------------------------------------------------- P-layer
\* operators over an explicit callback list so that the trace specification can use them
Registered(cb, e, s) == {i \in 1..Len(cb) : cb[i].ev = e /\ (cb[i].sender = "none" \/ cb[i].sender = s)}
\* i is called before j iff (i plain, j last) or (same kind and i registered first)
Precedes(cb, i, j) == (~cb[i].last /\ cb[j].last) \/ (cb[i].last = cb[j].last /\ i < j)
ExpectedCalls(cb, e, s) ==
   LET R == Registered(cb, e, s)
       rank(i) == Cardinality({j \in R : Precedes(cb, j, i)})
   IN [r \in 1..Cardinality(R) |-> cb[CHOOSE i \in R : rank(i) = r - 1].fn]
EmitOkOf(cb, sil, o) ==
   LET exp == ExpectedCalls(cb, o.ev, o.sender) IN
   IF sil THEN o.calls = <<>> /\ o.ret = "none"
   ELSE IF o.single THEN /\ o.calls = (IF exp = <<>> THEN <<>> ELSE <<exp[1]>>)
                         /\ o.ret = (IF exp = <<>> THEN "empty" ELSE "first")
   ELSE o.calls = exp /\ o.ret = "list"
EmitOk == obs.op = "emit" => EmitOkOf(cbs, silent, obs)
SilentCallsNothing == (obs.op = "emit" /\ silent) => obs.calls = <<>>
\* "currently registered": what connect/unconnect/reset mean for the registered list
RegistryOk == [][
    /\ obs'.op = "connect" => cbs' = Append(cbs, [ev |-> obs'.ev, sender |-> obs'.sender, fn |-> obs'.fn, last |-> obs'.last])
    /\ obs'.op = "unconnect" =>
          \A c \in SeqSet(cbs) : (c \in SeqSet(cbs')) <=> ~(c.fn = obs'.x \/ c.sender = obs'.x \/ Owner(c.fn) = obs'.x)
    /\ obs'.op = "reset" => cbs' = <<>>
    /\ obs'.op \in {"emit", "toggle", "set"} => cbs' = cbs ]_vars

\* ---------------------------------------------------------------------------- G
EmitCase == (KeepHist /\ Len(hist) = Depth) => Emit([hist |-> hist])
====
