SPECIFICATION FairSpec
CONSTANTS
  MaxLen = 4
  MaxT = 3
  WideLen = 4
  IdLists <- IdListsQ
  Bins = {1, 2}
  MaxHalf = 2
INVARIANT Correct
INVARIANT SymOk
INVARIANT BagAgrees
PROPERTY Terminates
