SPECIFICATION Spec
CONSTANTS
  MaxSpikes = 3
  MaxT = 3
  CluIds = {0, 4}
  KeptSet = {1, 2, 3}
  NReqSet <- NReqDef
  ReqLists <- ReqQ
INVARIANT KeptOk
INVARIANT ParityIsMembership
INVARIANT ResultOk
INVARIANT Complete
