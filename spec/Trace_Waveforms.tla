---- MODULE Trace_Waveforms ----
(* V: real export_waveforms runs on random recordings (flat multi-file and .cbin readers) with
   wrappers on iter_chunks and NpyWriter.append:
   {id, n, chunks (yielded intervals), spikes, nsw, dt, fk, batches (spike indices per yielded
    interval with at least one spike), loaded (decoded cells of np.load, per spike), declOk,
    extract (decoded cells of extract_waveforms per spike),
    model (requests to TemplateModel.get_waveforms on a dataset over the same recording with a partial store:
           [idx (1-based spikes), cids, allStored, stchans (stored channels per requested spike), out])}
   The export machine is run on the logged yields; batches, order and windows are compared, and
   Window() is evaluated on the logged arrays.                                              *)
EXTENDS Waveforms
VARIABLE i
Trace == ndJsonDeserialize(TraceFile)
Load(r) == /\ n' = r.n /\ chunks' = r.chunks /\ spikes' = r.spikes /\ nsw' = r.nsw /\ dt' = r.dt /\ fk' = r.fk
           /\ k' = 0 /\ batches' = <<>> /\ written' = <<>> /\ declared' = [count |-> 0, dtype |-> "none"]
           /\ pc' = "open"
TInit == /\ i = 1 /\ RejectInit /\ TLCSet(2, 0)
         /\ LET r == Trace[1] IN
            /\ n = r.n /\ chunks = r.chunks /\ spikes = r.spikes /\ nsw = r.nsw /\ dt = r.dt /\ fk = r.fk
            /\ k = 0 /\ batches = <<>> /\ written = <<>> /\ declared = [count |-> 0, dtype |-> "none"]
            /\ pc = "open"
NonEmpty(bs) == SelectSeq(bs, LAMBDA b : b # <<>>)
Check1(r) ==
  /\ Clause(r.id, "ChunksTile", ChunksTile)
  /\ Clause(r.id, "batches", NonEmpty(batches) = r.batches)
  /\ Clause(r.id, "declared", r.declOk)
  /\ Clause(r.id, "EachSpikeOnceInOrder", Len(r.loaded) = Len(r.spikes))
  /\ Clause(r.id, "loaded", r.loaded = [q \in 1..Len(written) |-> written[q].w])
  /\ Clause(r.id, "LoadedIsWindows", \A q \in 1..Len(r.loaded) :
                     r.loaded[q] = Window(r.n, r.spikes[q], r.nsw, ChansOf(q)))
  /\ Clause(r.id, "Lookup", \A e \in SeqSet(r.lookups) : \A q \in 1..Len(e[2]) :
                     e[2][q] = LookupOne(ChansOf(q), Window(r.n, r.spikes[q], r.nsw, ChansOf(q)), e[1], r.nsw))
  /\ Clause(r.id, "ExtractIsWindow", \A q \in 1..Len(r.extract) :
                     r.extract[q] = Window(r.n, r.spikes[q], r.nsw, ChansOf(q)))
  \* TemplateModel.get_waveforms over the same recording with a PARTIAL store: a request of stored spikes only is
  \* answered from the store (its stored channels), any request naming a spike that is not stored from the raw data
  /\ Clause(r.id, "ModelRoute", \A e \in SeqSet(r.model) : \A q \in 1..Len(e.idx) :
                     e.out[q] = (IF e.allStored
                                 THEN LookupOne(e.stchans[q], Window(r.n, r.spikes[e.idx[q]], r.nsw, e.stchans[q]), e.cids, r.nsw)
                                 ELSE Window(r.n, r.spikes[e.idx[q]], r.nsw, e.cids)))
Step == pc # "done" /\ Next /\ i' = i
Consume == /\ pc = "done" /\ i <= Len(Trace)
           /\ Check1(Trace[i]) /\ TLCSet(2, i) /\ i' = i + 1
           /\ IF i < Len(Trace) THEN Load(Trace[i + 1]) ELSE UNCHANGED vars
TNext == Step \/ Consume
TSpec == TInit /\ [][TNext]_<<vars, i>>
Accepted == Verdict(TLCGet(2)) /\ TLCGet(2) = Len(Trace)
====
