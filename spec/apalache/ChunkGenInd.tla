---- MODULE ChunkGenInd ----
(* C16 stretch: an inductive invariant of array.chunk_bounds over UNBOUNDED integers, for Apalache.
   The generator is the one of Chunking.tla (actions First, Loop, Last); instead of the sequence of yielded
   tuples it carries the abstract facts the tiling argument needs:
     kEnd   end of the rows kept so far: the kept parts so far are exactly [0, min(kEnd, n)), without gap
            or duplicate, because every chunk's keep_start is the previous keep_end
     sEnd   end of the last chunk
   IndInv implies, for every yielded chunk, keep_start >= s_start and keep_end <= s_end (kept part inside the
   chunk), chunk length <= cs, and at termination kEnd = n or the last yielded kept part already reached n. *)
EXTENDS Integers

VARIABLES
  \* @type: Int;
  n,
  \* @type: Int;
  cs,
  \* @type: Int;
  ov,
  \* @type: Int;
  sStart,
  \* @type: Int;
  sEnd,
  \* @type: Int;
  kStart,
  \* @type: Int;
  kEnd,
  \* @type: Str;
  pc,
  \* @type: Bool;
  lastYielded,
  \* @type: Int;
  cov,          \* the rows kept so far are exactly 0 .. cov-1 (each once) unless `bad`
  \* @type: Bool;
  bad           \* a gap or a duplicate occurred between consecutive kept parts

Half == ov \div 2
Min(a, b) == IF a < b THEN a ELSE b
Max(a, b) == IF a > b THEN a ELSE b
\* appending the kept part [ks, ke) (clipped to the data) to the rows kept so far
CovAfter(ks, ke) == IF Min(ke, n) > Min(ks, n) THEN Min(ke, n) ELSE cov
BadAfter(ks, ke) == bad \/ (Min(ke, n) > Min(Max(ks, 0), n) /\ Min(Max(ks, 0), n) # cov)

Params == n >= 1 /\ cs >= 1 /\ ov >= 0 /\ ov < cs

Init == /\ n \in Int /\ cs \in Int /\ ov \in Int /\ Params
        /\ sStart = 0 /\ sEnd = 0 /\ kStart = 0 /\ kEnd = 0 /\ pc = "first" /\ lastYielded = TRUE
        /\ cov = 0 /\ bad = FALSE

First == /\ pc = "first"
         /\ sStart' = 0 /\ sEnd' = cs /\ kStart' = 0 /\ kEnd' = cs - Half
         /\ cov' = CovAfter(0, cs - Half) /\ bad' = BadAfter(0, cs - Half)
         /\ pc' = "loop" /\ lastYielded' = TRUE /\ UNCHANGED <<n, cs, ov>>
Loop == /\ pc = "loop" /\ sEnd - ov + cs < n
        /\ sStart' = sEnd - ov /\ sEnd' = sEnd - ov + cs
        /\ kStart' = kEnd /\ kEnd' = (sEnd - ov + cs) - Half
        /\ cov' = CovAfter(kEnd, (sEnd - ov + cs) - Half) /\ bad' = BadAfter(kEnd, (sEnd - ov + cs) - Half)
        /\ lastYielded' = TRUE              \* s_start < s_end always holds here (cs >= 1)
        /\ UNCHANGED <<n, cs, ov, pc>>
Last == /\ pc = "loop" /\ ~(sEnd - ov + cs < n)
        /\ sStart' = sEnd - ov /\ sEnd' = n /\ kStart' = kEnd /\ kEnd' = n
        /\ lastYielded' = (sEnd - ov < n)
        /\ cov' = (IF sEnd - ov < n THEN CovAfter(kEnd, n) ELSE cov)
        /\ bad' = (IF sEnd - ov < n THEN BadAfter(kEnd, n) ELSE bad)
        /\ pc' = "done" /\ UNCHANGED <<n, cs, ov>>
Next == First \/ Loop \/ Last

\* ---- the inductive invariant
IndInv ==
  /\ Params
  /\ pc \in {"first", "loop", "done"}
  /\ ~bad
  /\ pc = "first" => (sEnd = 0 /\ kEnd = 0 /\ kStart = 0 /\ sStart = 0 /\ cov = 0)
  /\ pc = "loop" => /\ kEnd = sEnd - Half            \* the carried keep_end
                    /\ sEnd >= cs /\ sEnd - sStart = cs /\ sStart >= 0
                    /\ cov = Min(kEnd, n) /\ kEnd >= 1
                    /\ kStart >= sStart /\ kEnd <= sEnd                       \* kept part inside the chunk (it may be empty)
                    /\ (sStart > 0 => sStart < n)                                \* every loop chunk starts inside the data
  /\ pc = "done" => /\ sEnd = n /\ kEnd = n /\ cov = n
                    \* if the last chunk was yielded, its kept part lies inside it and it is not longer than cs
                    /\ lastYielded => (kStart >= sStart /\ sStart < n /\ n - sStart <= cs)
                    \* if it was not yielded (s_start >= n), the previous kept part already reached n
                    /\ ~lastYielded => kStart >= n
IndInit == /\ n \in Int /\ cs \in Int /\ ov \in Int /\ sStart \in Int /\ sEnd \in Int /\ kStart \in Int /\ kEnd \in Int
           /\ pc \in {"first", "loop", "done"} /\ lastYielded \in BOOLEAN /\ cov \in Int /\ bad \in BOOLEAN
           /\ IndInv
\* what the invariant is for (checked as an ordinary invariant from Init, and implied by IndInv):
\* the tiling clause of C16: at termination the kept parts are exactly 0 .. n-1, each once
TilesAtEnd == ~bad /\ (pc = "done" => cov = n)
\* every kept part lies inside its chunk and no chunk is longer than the chunk size
InsideAndSize == pc \in {"loop", "done"} => (lastYielded => (kStart >= sStart /\ kEnd <= sEnd /\ sEnd - sStart <= cs))

\* vacuity guard: the generator does terminate (Apalache must REFUTE this within three steps)
NeverDone == pc # "done"
====
