---- MODULE Reporter ----
(* C19 (progress reporter part) - utils/event.py ProgressReporter.

   I-layer: value, vmax, hasCompleted exactly as the object carries them; one action per public
   call. Every value update emits 'progress'(value, vmax) and, when it announces, 'complete'.
   reset() re-arms completion when it leaves the value below the maximum (after the fix).
   P-layer: history variable `armed` = since the last announcement (or the start) the value was
   set below the maximum or the maximum was raised. A value update announces iff it reaches the
   maximum while armed (AnnounceIffArmed); between two announcements there is a re-arming
   (ExactlyOncePerCrossing).                                                                   *)
EXTENDS VIO
CONSTANTS MaxV, Depth, KeepHist
NoMax == -1
VARIABLES value, vmax, hasCompleted, armed, obs, hist
vars == <<value, vmax, hasCompleted, armed, obs, hist>>
Init == /\ value = 0 /\ vmax = 0 /\ hasCompleted = FALSE /\ armed = TRUE
        /\ obs = [op |-> "init", arg |-> 0, update |-> FALSE, announced |-> FALSE, value |-> 0, vmax |-> 0]
        /\ hist = <<>>
Record(o) == obs' = o /\ hist' = (IF KeepHist THEN Append(hist, o) ELSE hist)

\* _set_value
SetValue(v, op, arg) ==
   LET hc1 == IF v < vmax THEN FALSE ELSE hasCompleted
       fire == ~hc1 /\ v >= vmax
   IN /\ value' = v /\ hasCompleted' = (hc1 \/ fire) /\ UNCHANGED vmax
      /\ armed' = (IF fire THEN FALSE ELSE (armed \/ v < vmax))
      /\ Record([op |-> op, arg |-> arg, update |-> TRUE, announced |-> fire, value |-> v, vmax |-> vmax])
Increment == value < MaxV /\ SetValue(value + 1, "increment", 0)
Set == \E v \in 0..MaxV : SetValue(v, "set", v)
SetComplete == SetValue(vmax, "complete", 0)
SetMax == \E m \in 0..MaxV :
   /\ vmax' = m /\ UNCHANGED value
   /\ hasCompleted' = (IF m > vmax THEN FALSE ELSE hasCompleted)
   /\ armed' = (armed \/ m > vmax)
   /\ Record([op |-> "setmax", arg |-> m, update |-> FALSE, announced |-> FALSE, value |-> value, vmax |-> m])
Reset == \E m \in (0..MaxV) \cup {NoMax} :
   LET nm == IF m = NoMax THEN vmax ELSE m IN
   /\ value' = 0 /\ vmax' = nm
   /\ hasCompleted' = (IF 0 < nm THEN FALSE ELSE hasCompleted)
   /\ armed' = (armed \/ 0 < nm \/ nm > vmax)
   /\ Record([op |-> "reset", arg |-> m, update |-> FALSE, announced |-> FALSE, value |-> 0, vmax |-> nm])
Next == /\ (KeepHist => Len(hist) < Depth)
        /\ (Increment \/ Set \/ SetComplete \/ SetMax \/ Reset)
Spec == Init /\ [][Next]_vars

\* P-layer
AnnounceIffArmed == [][ obs'.update => (obs'.announced = (value' >= vmax' /\ (armed \/ value' < vmax'))) ]_vars
OnlyUpdatesAnnounce == [][ obs'.announced => obs'.update ]_vars
\* the I-layer flag is exactly the negation of the P-layer history variable whenever the value is at the maximum
FlagIsArmed == value >= vmax => (hasCompleted = ~armed)
\* for the trace specification: the P-layer stepped on a logged history (no I-layer involved)
ArmedAfter(a, val, mx, o) ==
   IF o.update THEN (IF o.announced THEN FALSE ELSE (a \/ o.value < mx))
   ELSE (a \/ o.value < o.vmax \/ o.vmax > mx)
AnnounceOkOf(a, mx, o) == o.update => (o.announced = (o.value >= mx /\ (a \/ o.value < mx)))

EmitCase == (KeepHist /\ Len(hist) = Depth) => Emit([hist |-> hist])
====
