SPECIFICATION TSpec
CONSTANTS
  Depth = 0
  KeepHist = FALSE
  FreeStyle = TRUE
POSTCONDITION Accepted
