---- MODULE Trace_Selector ----
(* V: real SpikeSelector calls on large random inputs, any NumPy seed:
   {id, times, clu, bounds, nkept, nreq, req, useChunks, subset, chunksKept, result}
   chunksKept is compared with the I-layer construction and judged by KeptOkOf; the returned ids
   are judged by the relational ValidSelOf (every random draw is acceptable iff the statement
   allows it).                                                                               *)
EXTENDS Selector
VARIABLE i
Trace == ndJsonDeserialize(TraceFile)
TInit == Init /\ i = 1 /\ RejectInit /\ TLCSet(2, 0)
\* records of kind "model" come from TemplateModel.save_spikes_subset_waveforms, where the selector object is
\* not observable: the kept chunks are then ANY regular-stride choice the statement allows
CheckModel(r) ==
  /\ Clause(r.id, "increasing", StrictlyIncreasing(r.result))
  /\ Clause(r.id, "ValidSel(model)", \E s \in 1..Max2(1, NChunksOf(r.bounds)) :
        LET K == {j \in 0..(NChunksOf(r.bounds) - 1) : j % s = 0}
            ck == FlatFrom(r.bounds, s, 0) IN
        /\ Cardinality(K) <= r.nkept
        /\ ValidSelOf(SeqSet(r.result), r.times, r.clu, r.req, r.nreq, r.useChunks, SeqSet(r.subset), ck))
CheckCall(r) ==
  /\ Clause(r.id, "chunksKept", r.chunksKept = ChunksKeptOf(r.bounds, r.nkept))
  /\ Clause(r.id, "KeptOk", KeptOkOf(r.bounds, r.nkept, r.chunksKept))
  /\ Clause(r.id, "increasing", StrictlyIncreasing(r.result))
  /\ Clause(r.id, "ValidSel", ValidSelOf(SeqSet(r.result), r.times, r.clu, r.req, r.nreq, r.useChunks,
                                        SeqSet(r.subset), r.chunksKept))
Check1(r) == IF r.kind = "model" THEN CheckModel(r) ELSE CheckCall(r)
TNext == /\ i <= Len(Trace) /\ Check1(Trace[i]) /\ TLCSet(2, i) /\ i' = i + 1 /\ UNCHANGED vars
TSpec == TInit /\ [][TNext]_<<vars, i>>
Accepted == Verdict(TLCGet(2)) /\ TLCGet(2) = Len(Trace)
====
