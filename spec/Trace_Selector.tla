---- MODULE Trace_Selector ----
(* V: real SpikeSelector calls on large random inputs, any NumPy seed:
   {id, times, clu, bounds, nkept, nreq, req, useChunks, subset, chunksKept, result}
   chunksKept is compared with the I-layer construction and judged by KeptOkOf; the returned ids
   are judged by the relational ValidSelOf (every random draw is acceptable iff the statement
   allows it).                                                                               *)
EXTENDS Selector
VARIABLE i
Trace == ndJsonDeserialize(TraceFile)
TInit == Init /\ i = 1 /\ RejectInit /\ TLCSet(2, 0)
Check1(r) ==
  /\ Clause(r.id, "chunksKept", r.chunksKept = ChunksKeptOf(r.bounds, r.nkept))
  /\ Clause(r.id, "KeptOk", KeptOkOf(r.bounds, r.nkept, r.chunksKept))
  /\ Clause(r.id, "increasing", StrictlyIncreasing(r.result))
  /\ Clause(r.id, "ValidSel", ValidSelOf(SeqSet(r.result), r.times, r.clu, r.req, r.nreq, r.useChunks,
                                        SeqSet(r.subset), r.chunksKept))
TNext == /\ i <= Len(Trace) /\ Check1(Trace[i]) /\ TLCSet(2, i) /\ i' = i + 1 /\ UNCHANGED vars
TSpec == TInit /\ [][TNext]_<<vars, i>>
Accepted == Verdict(TLCGet(2)) /\ TLCGet(2) = Len(Trace)
====
