SPECIFICATION Spec
CONSTANTS
  Namings = {"ks", "alf"}
  WithBoth = TRUE
INVARIANT WellFormedLoads
INVARIANT SourceOk
INVARIANT TimesOk
INVARIANT LoadFrame
