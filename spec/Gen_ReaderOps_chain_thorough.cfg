SPECIFICATION Spec
CONSTANTS
  MaxReaders = 4
  OpSet <- FullOps
  ChainOnly = TRUE
  Aliasing = FALSE
INVARIANT EmitCase
