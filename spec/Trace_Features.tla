---- MODULE Trace_Features ----
(* V: feature requests against real models (stores with and without a row table), and PCA features
   computed from waveforms of the exactly diagonal family.
   kind "features":  {pcf, pcind, rows, st, spikes, chans, out}
   kind "tfeatures": {tf, tfind, rows, st, spikes, nt, out}
   kind "pca":       {w, F};  kind "pca2": {w, F} (two waveforms: first component only);  kind "pca_rep": {w, cnt, F} (a long request: distinct waveforms with multiplicities)                                                                    *)
EXTENDS Features
VARIABLE i
Trace == ndJsonDeserialize(TraceFile)
TInit == FInit /\ i = 1 /\ RejectInit /\ TLCSet(2, 0)
Check1(r) == CASE r.kind = "features" -> Clause(r.id, "GetFeatures", GetFeaturesOk(r.out, r.pcf, r.pcind, r.rows, r.st, r.spikes, r.chans))
               [] r.kind = "tfeatures" -> Clause(r.id, "GetTemplateFeatures", GetTemplateFeaturesOk(r.out, r.tf, r.tfind, r.rows, r.st, r.spikes, r.nt))
               [] r.kind = "pca" -> Clause(r.id, "PairProduct", PairProductOk(r.w, r.F))
               [] r.kind = "pca2" -> Clause(r.id, "FirstComponent", FirstComponentOk(r.w, r.F))
               [] r.kind = "pca_rep" -> Clause(r.id, "PairProduct", PairProductOkW(r.w, r.cnt, r.F))
TNext == /\ i <= Len(Trace) /\ Check1(Trace[i]) /\ TLCSet(2, i) /\ i' = i + 1 /\ UNCHANGED fvars
TSpec == TInit /\ [][TNext]_<<fvars, i>>
Accepted == Verdict(TLCGet(2)) /\ TLCGet(2) = Len(Trace)
====
