SPECIFICATION TSpec
CONSTANTS
  Modes = {}
  MaxN = 0
  MaxCS = 0
  MaxFiles = 0
  MaxTotal = 0
  MaxChunk = 0
  MaxChunks = 0
  MaxThreads = 0
  MaxEN = 0
  MaxNE = 0
  MaxES = 0
  Unused = 0
POSTCONDITION Accepted
