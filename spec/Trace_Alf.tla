---- MODULE Trace_Alf ----
(* V: real ALF conversions (plain datasets and datasets merged by the real Merger), one record each:
   inputs  {Wt, Wc, wmi4, st, sc, amps, f2, posx, posy, chprobe, chmapOrig, ncw, nspk, ncl, ntm, nch, curated,
            x, ys (first-component features and y of their channels; <<>> when no feature file)}
   outputs {dims, uuids, spike8, tamps, camps, twq, tch, cwq, cch, cchan, cdur, cdepthq, sdepthq, rawInd}
   (q = round(256 * value), -1 = NaN; amplitudes as exact rationals [num, den], [0, 0] = NaN).
   Clauses are prefixed with the property they belong to.                                           *)
EXTENDS Alf
VARIABLE i
Trace == ndJsonDeserialize(TraceFile)
Q == 256
TInit == AInit /\ i = 1 /\ RejectInit /\ TLCSet(2, 0)
L1(px, py, a, b) == Abs(px[a] - px[b]) + Abs(py[a] - py[b])
\* listed channels (0-based) of a waveform whose peak channel is p (0-based): distinct, peak first,
\* all on the peak's probe, a valid set of the nearest ones under L1 distance
\* (which of several equally large channels is "the" peak channel is not fixed by the statement: p is the
\* first listed channel and must be A channel of maximal peak-to-peak amplitude of the waveform Wx)
IsPeak(Wx, p) == p + 1 \in 1..Len(PTP(Wx)) /\ PTP(Wx)[p + 1] = SeqMax(PTP(Wx))
ChannelsOk(ch, p, r) ==
   LET same == {c \in 1..r.nch : r.chprobe[c] = r.chprobe[p + 1]}
       S == {ch[k] + 1 : k \in 1..Len(ch)} IN
   /\ Len(ch) = r.ncw /\ Cardinality(S) = r.ncw /\ ch[1] = p
   /\ S \subseteq same
   /\ \A a \in S, b \in same \ S : L1(r.posx, r.posy, a, p + 1) <= L1(r.posx, r.posy, b, p + 1)
\* exported waveform = rescaled unwhitened waveform restricted to the listed channels
WaveformsOk(wq, ch, W, ids, r, n) ==
   \A mean \in {MeanAmps(W, r.wmi4, ids, r.amps, r.f2, n)} : \A au4 \in {AU4(W, r.wmi4)} :
   \A x \in 1..n : (mean[x][2] # 0 /\ au4[x] # 0) =>
      \A U4 \in {MatMul(W[x], r.wmi4)} :
      \A s \in 1..Len(U4) : \A j \in 1..Len(ch[x]) :
         NearQ(wq[x][s][j], U4[s][ch[x][j] + 1] * mean[x][1], au4[x] * mean[x][2], Q)
MeansOk(m, W, ids, r, n) == /\ Len(m) = n
                            /\ \A mean \in {MeanAmps(W, r.wmi4, ids, r.amps, r.f2, n)} : \A x \in 1..n : RatEq(m[x], mean[x])
Empty(r, x) == Members(r.sc, x - 1) = {}
Check1(r) ==
  \* ---- C13: table dimensions and identifiers
  /\ Clause(r.id, "C13.TableDims", TableDimsOk(r.dims, r.nspk, r.ncl, r.ntm, r.nch))
  /\ Clause(r.id, "C13.cluster_count", r.ncl = (IF r.curated THEN SeqMax(r.sc) + 1 ELSE r.ntm))
  /\ Clause(r.id, "C13.uuids", r.uuids = <<r.ncl, r.ncl>>)
  \* ---- C14: values
  /\ Clause(r.id, "C14.spike_amps", r.spike8 = SpikeAmps8(r.Wt, r.wmi4, r.st, r.amps, r.f2))
  /\ Clause(r.id, "C14.template_amps", MeansOk(r.tamps, r.Wt, r.st, r, r.ntm))
  /\ Clause(r.id, "C14.cluster_amps", MeansOk(r.camps, r.Wc, r.sc, r, r.ncl))
  /\ Clause(r.id, "C14.template_channels", \A t \in 1..r.ntm :
               Len(r.tch[t]) >= 1 /\ IsPeak(r.Wt[t], r.tch[t][1]) /\ ChannelsOk(r.tch[t], r.tch[t][1], r))
  /\ Clause(r.id, "C14.cluster_channels", \A x \in 1..r.ncl :
               Len(r.cch[x]) >= 1 /\ IsPeak(r.Wc[x], r.cch[x][1]) /\ ChannelsOk(r.cch[x], r.cch[x][1], r))
  /\ Clause(r.id, "C14.template_waveforms", WaveformsOk(r.twq, r.tch, r.Wt, r.st, r, r.ntm))
  /\ Clause(r.id, "C14.cluster_waveforms", WaveformsOk(r.cwq, r.cch, r.Wc, r.sc, r, r.ncl))
  /\ Clause(r.id, "C14.cluster_peak_channels", Len(r.cchan) = r.ncl /\ \A x \in 1..r.ncl : IsPeak(r.Wc[x], r.cchan[x]))
  /\ Clause(r.id, "C14.durations", \A x \in 1..r.ncl : IF r.curated /\ Empty(r, x) THEN r.cdur[x] = <<1, 0>>
                                                       ELSE \E p \in 0..(r.nch - 1) : IsPeak(r.Wc[x], p) /\
                                                            r.cdur[x] = <<0, FirstArgMax(Col(r.Wc[x], p + 1)) - FirstArgMin(Col(r.Wc[x], p + 1))>>)
  /\ Clause(r.id, "C14.cluster_depths", \A x \in 1..r.ncl :
               IF Empty(r, x) THEN r.cdepthq[x] = -1
               ELSE \E p \in 0..(r.nch - 1) : IsPeak(r.Wc[x], p) /\ r.cdepthq[x] = Q * r.posy[p + 1])
  /\ Clause(r.id, "C14.spike_depths", \A k \in 1..r.nspk :
               IF r.x = <<>> THEN \E p \in 0..(r.nch - 1) : IsPeak(r.Wc[r.sc[k] + 1], p) /\ r.sdepthq[k] = Q * r.posy[p + 1]
               ELSE \A dd \in {Depth(r.x[k], r.ys[k])} :
                    IF dd[2] = 0 THEN r.sdepthq[k] = -1 ELSE r.sdepthq[k] >= 0 /\ NearQ(r.sdepthq[k], dd[1], dd[2], Q))
  /\ Clause(r.id, "C14.rawInd", r.rawInd = r.chmapOrig)
TNext == /\ i <= Len(Trace) /\ Check1(Trace[i]) /\ TLCSet(2, i) /\ i' = i + 1 /\ UNCHANGED avars
TSpec == TInit /\ [][TNext]_<<avars, i>>
Accepted == Verdict(TLCGet(2)) /\ TLCGet(2) = Len(Trace)
====
