SPECIFICATION Spec
CONSTANTS
  Modes = {"tsv"}
  MaxRows = 1
  Cells <- CellsFull
INVARIANT EmitCase
