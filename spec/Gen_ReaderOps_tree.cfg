SPECIFICATION Spec
CONSTANTS
  MaxReaders = 4
  OpSet <- SmallOps
  ChainOnly = FALSE
  Aliasing = FALSE
INVARIANT EmitCase
