SPECIFICATION Spec
CONSTANTS
  MaxReaders = 3
  OpSet <- FullOps
  ChainOnly = TRUE
  Aliasing = FALSE
INVARIANT LazyEqEager
INVARIANT DivIsFloor
PROPERTY Isolation
PROPERTY ChildOps
