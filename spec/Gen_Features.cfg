SPECIFICATION FSpec
CONSTANTS
  Channels = {0, 1, 2, 5}
  StoredVals = {3, 7}
  MaxReq = 3
INVARIANT EmitCase
