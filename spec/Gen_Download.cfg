SPECIFICATION Spec
CONSTANTS
  MaxScript = 3
  Flaky = FALSE
INVARIANT EmitCase
