SPECIFICATION TSpec
CONSTANTS
  Labels = {}
POSTCONDITION Accepted
