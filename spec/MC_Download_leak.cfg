SPECIFICATION Spec
CONSTANTS
  MaxScript = 2
  Flaky = FALSE
INVARIANT CallbacksRestored
