SPECIFICATION TSpec
CONSTANTS
  MaxScript = 0
  Flaky = TRUE
POSTCONDITION Accepted
