---- MODULE SummariesOps ----
(* Definitions (P-layer) and bincount formulation (I-layer) of the C09 summaries, as pure operators;
   shared by Summaries (exhaustive model), Trace_Summaries and Alf (C14 value predicates). *)
EXTENDS Mat
PTP(M) == Amp(M)                                           \* per-channel max - min
AU4(W, wmi4) == [t \in 1..Len(W) |-> SeqMax(PTP(MatMul(W[t], wmi4)))]
Members(ids, x) == {i \in 1..Len(ids) : ids[i] = x}        \* ids are 0-based values; x 0-based
SumOver(S, f(_)) == LET RECURSIVE g(_)
                        g(R) == IF R = {} THEN 0 ELSE LET e == CHOOSE z \in R : TRUE IN f(e) + g(R \ {e})
                    IN g(S)
\* ---- P-layer
\* 8 * spike amplitude = au4 * amp * f2
SpikeAmps8(W, wmi4, ids, amps, f2) == LET au == AU4(W, wmi4) IN [i \in 1..Len(ids) |-> au[ids[i] + 1] * amps[i] * f2]
\* per-id mean of the scaled spike amplitudes: <<sum8, 8 * count>>, count = 0 -> NaN, for EVERY id 0..n-1
MeanAmps(W, wmi4, ids, amps, f2, n) ==
   LET sa == SpikeAmps8(W, wmi4, ids, amps, f2) IN
   [x \in 1..n |-> LET S == Members(ids, x - 1) IN <<SumOver(S, LAMBDA i : sa[i]), 8 * Cardinality(S)>>]
\* _amplitudes: mean stored amplitude per id PRESENT, in increasing id order
SortSet(S) == [r \in 1..Cardinality(S) |-> CHOOSE x \in S : Cardinality({y \in S : y < x}) = r - 1]
MeanStored(ids, amps) == LET u == SortSet(SeqSet(ids)) IN
   [k \in 1..Len(u) |-> <<SumOver(Members(ids, u[k]), LAMBDA i : amps[i]), Cardinality(Members(ids, u[k]))>>]
FirstArgMax(s) == CHOOSE k \in 1..Len(s) : s[k] = SeqMax(s) /\ \A j \in 1..Len(s) : s[j] = SeqMax(s) => k <= j
FirstArgMin(s) == CHOOSE k \in 1..Len(s) : s[k] = SeqMin(s) /\ \A j \in 1..Len(s) : s[j] = SeqMin(s) => k <= j
PeakChannels(W) == [t \in 1..Len(W) |-> FirstArgMax(PTP(W[t])) - 1]                 \* 0-based
\* duration in samples on the peak channel (the harness divides the milliseconds by 1000 / rate)
Durations(W) == [t \in 1..Len(W) |-> LET c == FirstArgMax(PTP(W[t])) IN
                    FirstArgMax(Col(W[t], c)) - FirstArgMin(Col(W[t], c))]
\* depth of spike i: <<sum y f^2, sum f^2>> over its template's stored feature channels (1st component)
Depth(x, ys) == LET f(k) == IF x[k] > 0 THEN x[k] * x[k] ELSE 0 IN
                <<SumSeq([k \in 1..Len(x) |-> ys[k] * f(k)]), SumSeq([k \in 1..Len(x) |-> f(k)])>>
\* rational equality by cross multiplication; NaN token = denominator 0 on both sides
RatEq(a, b) == IF a[2] = 0 \/ b[2] = 0 THEN a[2] = 0 /\ b[2] = 0 ELSE a[1] * b[2] = b[1] * a[2]
\* fixed point: q = round(value * Q) is within one unit of num / den * Q
Abs(x) == IF x < 0 THEN -x ELSE x
NearQ(q, num, den, Q) == den # 0 /\ Abs(q * den - num * Q) <= Abs(den)

\* ---- I-layer: bincount formulation (minlength = n), as the code computes it
Bincount(ids, w, n) == [x \in 1..n |-> SumSeq([i \in 1..Len(ids) |-> IF ids[i] = x - 1 THEN w[i] ELSE 0])]
MeanAmpsI(W, wmi4, ids, amps, f2, n) ==
   LET sa == SpikeAmps8(W, wmi4, ids, amps, f2)
       a == Bincount(ids, sa, n)
       c == Bincount(ids, [i \in 1..Len(ids) |-> 1], n)
   IN [x \in 1..n |-> <<a[x], 8 * c[x]>>]

====
