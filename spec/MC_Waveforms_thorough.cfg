SPECIFICATION Spec
CONSTANTS
  MaxN = 7
  MaxSpikes = 3
  MaxNsw = 5
  NCh = 3
  Dts = {"int16", "float32", "float64"}
  Fks = {"i1", "i2", "f05"}
INVARIANT ExtractIsWindow
INVARIANT EachSpikeOnceInOrder
INVARIANT DeclaredEqualsWritten
INVARIANT LoadedIsWindows
INVARIANT ChunksTile
INVARIANT LookupIsWindowRestricted
