---- MODULE World ----
(* C10 - saved curation state survives any save/reload history.

   State: the dataset directory as far as curation is concerned, and the model that is open.
     scFile    which assignment vector spike_clusters.npy holds ("init" or the token of the last save)
     files     per-cluster metadata files written by the model: field -> sequence of <<id, value>> rows
               (save_metadata drops None entries, sorts ids and OVERWRITES cluster_<field>.tsv; an
               all-None mapping leaves a header-only file)
     foreign   foreign TSV/CSV files present: kind -> present (valid: its own field; multi: two fields with empty cells; malformed kinds:
               empty, garbage, header-only, short row; cluster_info.tsv is excluded by the loader)
     subset    the three _phy_spikes_subset files exist
     model     what the currently open model shows (set by Reload), or NoModel after Close
   I-layer: Reload reads the FILES (every *.tsv / *.csv, malformed ones skipped, rows without values ignored).
   P-layer: the dictionary reference model lastSaved (history variable): after every Reload the model shows
   the last saved assignment, the last saved mapping of every field (None entries dropped, a field whose
   last mapping is empty is absent) next to the fields of valid foreign files, and the subset store.     *)
EXTENDS VIO, FiniteSets
CONSTANTS Depth, KeepHist,
          ForeignKinds      \* which foreign files may be written (all eight in G / V runs; M runs keep two malformed ones)
Fields == {"group", "quality"}
Ids == {0, 2}
\* mappings id -> value token ("none" = None); value tokens: i3, f15, good, i7, f4, big
Mappings == { [x \in Ids |-> IF x = 0 THEN "i3" ELSE "good"], [x \in Ids |-> IF x = 0 THEN "none" ELSE "f15"],
              [x \in Ids |-> "none"], [x \in {2} |-> "i7"],
              [x \in Ids |-> IF x = 0 THEN "f4" ELSE "big"] }      \* f4 = 4.0 (a float, not 4); big = 2^53 + 1 (exactly)
Versions == {"v1", "v2"}
AllForeignKinds == {"valid", "tabcsv", "multi", "samefield", "empty", "garbage", "headeronly", "shortrow", "info"}
\* well-formed foreign files and what they contribute: "valid" has one value column; "multi" has two value
\* columns with an EMPTY cell in each row (also in the first data row): cluster 0 has no fa, cluster 2 no fb;
\* "samefield" is a foreign .csv carrying the field "quality" - the SAME name as a field the model saves - for
\* clusters 0 and 4: it shows only while no saved mapping of that field has a row (a saved mapping replaces it
\* entirely, it is not merged with it: *.csv files are read before *.tsv files)
ForeignFields == {"foreignfield", "ftab", "fa", "fb"}
\* "tabcsv" is a *.csv file whose columns are separated by TABS (the delimiter is found in the header, not the suffix)
FFieldsOf(k) == IF k = "valid" THEN {"foreignfield"} ELSE IF k = "tabcsv" THEN {"ftab"} ELSE IF k = "multi" THEN {"fa", "fb"}
                ELSE IF k = "samefield" THEN {"quality"} ELSE {}
FRows(f) == IF f \in {"foreignfield", "ftab"} THEN {<<0, "i5">>, <<2, "i7">>} ELSE IF f = "fa" THEN {<<2, "i7">>}
            ELSE IF f = "fb" THEN {<<0, "i5">>} ELSE {<<0, "i5">>, <<4, "i7">>}
NoModel == [open |-> FALSE]

VARIABLES scFile, files, foreign, subset, model, lastSaved, hist
vars == <<scFile, files, foreign, subset, model, lastSaved, hist>>
FPresent == UNION {FFieldsOf(k) : k \in {kk \in ForeignKinds : foreign[kk]}}
RowsOf(mp) == LET keep == {x \in DOMAIN mp : mp[x] # "none"} IN
              [r \in 1..Cardinality(keep) |->
                 LET x == CHOOSE y \in keep : Cardinality({z \in keep : z < y}) = r - 1 IN <<x, mp[x]>>]
\* what a load makes of the files: field -> {<<id, value>>}; fields without rows are absent
MdOfFiles == LET own == {f \in DOMAIN files : files[f] # <<>>} IN
             [f \in own \cup FPresent |-> IF f \in own THEN SeqSet(files[f]) ELSE FRows(f)]
View == [open |-> TRUE, sc |-> scFile, md |-> MdOfFiles, subset |-> subset]
Init == /\ scFile = "init" /\ files = <<>> /\ foreign = [k \in ForeignKinds |-> FALSE] /\ subset = FALSE
        /\ model = View /\ lastSaved = <<>> /\ hist = <<>>
Rec(o) == hist' = (IF KeepHist THEN Append(hist, o) ELSE hist)
SaveSpikeClusters(v) == /\ scFile' = v /\ Rec([op |-> "ssc", v |-> v])
                        /\ UNCHANGED <<files, foreign, subset, model, lastSaved>>
SaveMetadata(f, mp) == /\ files' = [g \in DOMAIN files \cup {f} |-> IF g = f THEN RowsOf(mp) ELSE files[g]]
                       /\ lastSaved' = [g \in DOMAIN lastSaved \cup {f} |-> IF g = f THEN mp ELSE lastSaved[g]]
                       /\ Rec([op |-> "smd", field |-> f, map |-> {<<x, mp[x]>> : x \in DOMAIN mp}])
                       /\ UNCHANGED <<scFile, foreign, subset, model>>
WriteForeign(k) == /\ ~foreign[k] /\ foreign' = [foreign EXCEPT ![k] = TRUE] /\ Rec([op |-> "foreign", kind |-> k])
                   /\ UNCHANGED <<scFile, files, subset, model, lastSaved>>
ExportSubset == /\ model.open /\ ~subset /\ subset' = TRUE /\ Rec([op |-> "subset"])
                /\ UNCHANGED <<scFile, files, foreign, model, lastSaved>>
Close == /\ model.open /\ model' = NoModel /\ Rec([op |-> "close"])
         /\ UNCHANGED <<scFile, files, foreign, subset, lastSaved>>
Reload == /\ model' = View
          /\ Rec([op |-> "reload", sc |-> View.sc, md |-> {<<f, View.md[f]>> : f \in DOMAIN View.md}, subset |-> View.subset])
          /\ UNCHANGED <<scFile, files, foreign, subset, lastSaved>>
Steps == IF KeepHist THEN Len(hist) ELSE 0
Next == /\ (KeepHist => Len(hist) < Depth)
        /\ \/ \E v \in Versions : SaveSpikeClusters(v)
           \/ \E f \in Fields, mp \in Mappings : model.open /\ SaveMetadata(f, mp)
           \/ \E k \in ForeignKinds : WriteForeign(k)
           \/ ExportSubset \/ Close \/ Reload
Spec == Init /\ [][Next]_vars

\* ---- P-layer: the dictionary reference model
Visible(mp) == {<<x, mp[x]>> : x \in {y \in DOMAIN mp : mp[y] # "none"}}
ExpectedMd == LET own == {f \in DOMAIN lastSaved : Visible(lastSaved[f]) # {}} IN
              [f \in own \cup FPresent |-> IF f \in own THEN Visible(lastSaved[f]) ELSE FRows(f)]
ReloadShowsLastSaved == [][ (model' # model /\ model'.open) =>
                              (model'.sc = scFile /\ model'.md = ExpectedMd /\ model'.subset = subset) ]_vars
\* malformed or excluded foreign files never change what a reload shows
ForeignIsInert == model.open => \A f \in DOMAIN model.md : f \in Fields \cup FPresent
EmitCase == (KeepHist /\ Len(hist) = Depth /\ hist[Depth].op = "reload") => Emit([hist |-> hist])
====
