SPECIFICATION Spec
CONSTANTS
  MaxV = 4
  Depth = 12
  KeepHist = TRUE
INVARIANT EmitCase
