SPECIFICATION Spec
CONSTANTS
  MaxV = 2
  Depth = 4
  KeepHist = TRUE
INVARIANT EmitCase
