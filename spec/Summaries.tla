---- MODULE Summaries ----
(* C09 - amplitude, depth, duration and peak-channel summaries follow their definitions.

   Integers only: W = stored waveforms (small integers), wmi4 = 4 * inverse whitening (integers),
   U4 = W * wmi4 = 4 * unwhitened waveform, amplitudes small integers, unit factor f as f2 = 2 f.
   I-layer (io/model.py): get_amplitudes_true (matmul per id, ptp, max over channels, bincount
   with weights / bincount, BOTH with minlength = number of waveforms), _amplitudes (bincount over
   unique ids), _channels (first arg-max of ptp of the STORED waveform), _waveform_durations
   ((argmax - argmin) on that channel), get_depths (sum of y f^2 / sum f^2, f = max(x, 0)).
   P-layer: the definitions over member sets, as rationals <<num, den>> or the token NaN (den = 0). *)
EXTENDS SummariesOps
CONSTANTS NT, NSpk, AmpVals, NS, NCH, Vals, Wmis

\* ---- tiny exhaustive model: transcription = definition
VARIABLES W, ids, amps, wq, spc
svars == <<W, ids, amps, wq, spc>>
SInit == W = <<>> /\ ids = <<>> /\ amps = <<>> /\ wq = <<>> /\ spc = "pick"
SPick == /\ spc = "pick" /\ W' \in [1..NT -> [1..NS -> [1..NCH -> Vals]]]
         /\ spc' = "pick2" /\ UNCHANGED <<ids, amps, wq>>
SPick2 == /\ spc = "pick2" /\ \E n \in 1..NSpk : ids' \in [1..n -> 0..(NT - 1)] /\ amps' \in [1..n -> AmpVals]
          /\ wq' \in Wmis /\ spc' = "done" /\ UNCHANGED W
SNext == SPick \/ SPick2
SSpec == SInit /\ [][SNext]_svars
MeanOk == spc = "done" => \A f2 \in {1, 2, 4} :
             MeanAmpsI(W, wq, ids, amps, f2, NT) = MeanAmps(W, wq, ids, amps, f2, NT)
EmptyIsNaN == spc = "done" => \A x \in 1..NT : (Members(ids, x - 1) = {}) => MeanAmps(W, wq, ids, amps, 2, NT)[x][2] = 0
PeakIsArgmax == spc = "done" => \A t \in 1..NT : PTP(W[t])[PeakChannels(W)[t] + 1] = SeqMax(PTP(W[t]))
Id2 == << <<4, 0>>, <<0, 4>> >>
Mono2 == << <<0, 8>>, <<2, 0>> >>
Tri2 == << <<4, 4>>, <<0, 4>> >>
Wmis2 == {Id2, Mono2, Tri2}
ValsS == {-1, 2}
====
