SPECIFICATION Spec
CONSTANTS
  MaxN = 6
  NCh = 3
  MaxParts = 6
INVARIANT EmitCase
