SPECIFICATION Spec
CONSTANTS
  Depth = 12
  KeepHist = TRUE
INVARIANT EmitCase
