SPECIFICATION Spec
CONSTANTS
  Depth = 12
  ForeignKinds <- AllForeignKinds
  KeepHist = TRUE
INVARIANT EmitCase
