SPECIFICATION Spec
CONSTANTS
  Depth = 4
  ATargets = {"a1", "a2"}
  MaxId = 99
  KeepHist = TRUE
INVARIANT EmitCase
