---- MODULE Trace_Reporter ----
(* V: histories recorded from a real ProgressReporter, one record per call:
   {id, op, arg, update, announced, value, vmax, flag, progress: [v, m] | []}
   (announced = a 'complete' event was received; progress = arguments of the 'progress' event).
   The I-layer is stepped with the logged call and compared (value, maximum, internal flag,
   events); independently the P-layer history variable `armedP` is stepped on the LOGGED values
   only and AnnounceOkOf is evaluated on the logged announcement.                             *)
EXTENDS Reporter
VARIABLES i, armedP, vmaxP
Trace == ndJsonDeserialize(TraceFile)
TInit == Init /\ i = 1 /\ armedP = TRUE /\ vmaxP = 0 /\ RejectInit /\ TLCSet(2, 0)
r == Trace[i]
Same == /\ Clause(r.id, "value", value' = r.value)
        /\ Clause(r.id, "vmax", vmax' = r.vmax)
        /\ Clause(r.id, "flag", hasCompleted' = r.flag)
        /\ Clause(r.id, "announced", obs'.announced = r.announced)
        /\ Clause(r.id, "progress", r.progress = (IF obs'.update THEN <<value', vmax'>> ELSE <<>>))
PStep == /\ Clause(r.id, "AnnounceIffArmed", AnnounceOkOf(armedP, vmaxP, r))
         /\ armedP' = ArmedAfter(armedP, 0, vmaxP, r)
         /\ vmaxP' = r.vmax
Begin == /\ r.op = "begin" /\ value' = 0 /\ vmax' = 0 /\ hasCompleted' = FALSE /\ armed' = TRUE
         /\ obs' = obs /\ armedP' = TRUE /\ vmaxP' = 0 /\ UNCHANGED hist
TInc == r.op = "increment" /\ SetValue(value + 1, "increment", 0) /\ Same /\ PStep
TSet == r.op = "set" /\ SetValue(r.arg, "set", r.arg) /\ Same /\ PStep
TComplete == r.op = "complete" /\ SetValue(vmax, "complete", 0) /\ Same /\ PStep
TSetMax == /\ r.op = "setmax" /\ vmax' = r.arg /\ UNCHANGED value
           /\ hasCompleted' = (IF r.arg > vmax THEN FALSE ELSE hasCompleted)
           /\ armed' = (armed \/ r.arg > vmax)
           /\ Record([op |-> "setmax", arg |-> r.arg, update |-> FALSE, announced |-> FALSE, value |-> value, vmax |-> r.arg])
           /\ Same /\ PStep
TReset == LET nm == IF r.arg = NoMax THEN vmax ELSE r.arg IN
          /\ r.op = "reset" /\ value' = 0 /\ vmax' = nm
          /\ hasCompleted' = (IF 0 < nm THEN FALSE ELSE hasCompleted)
          /\ armed' = (armed \/ 0 < nm \/ nm > vmax)
          /\ Record([op |-> "reset", arg |-> r.arg, update |-> FALSE, announced |-> FALSE, value |-> 0, vmax |-> nm])
          /\ Same /\ PStep
TNext == /\ i <= Len(Trace) /\ i' = i + 1 /\ TLCSet(2, i)
         /\ (Begin \/ TInc \/ TSet \/ TComplete \/ TSetMax \/ TReset)
TSpec == TInit /\ [][TNext]_<<vars, i, armedP, vmaxP>>
Accepted == Verdict(TLCGet(2)) /\ TLCGet(2) = Len(Trace)
====
