---- MODULE Trace_Curation ----
(* V: real models loaded from datasets built around curated states (st, sc):
   {id, st, sc, nt, curated, T, chans, mm, nan, ncl, data, means: [{c, ch, M, U? }]}
   T: stored templates (ints), chans[t]: channel list of template t (whitened record, 1-based),
   data[c]: sparse_clusters.data as <<num, den>> cells, means: get_cluster_mean_waveforms(c) with
   the unwhitened templates U4 (= 4 U) and their channel lists chansU.                          *)
EXTENDS Curation
VARIABLE i
Trace == ndJsonDeserialize(TraceFile)
TInit == Init /\ i = 1 /\ RejectInit /\ TLCSet(2, 0)
AsRat(Tm) == [r \in 1..Len(Tm) |-> [k \in 1..Len(Tm[r]) |-> <<Tm[r][k], 1>>]]
Check1(r) ==
  IF r.curated
  THEN /\ Clause(r.id, "MergeMap", MergeMapOkOf(r.mm, SeqSet(r.nan), r.st, r.sc))
       /\ Clause(r.id, "merge_map = transcription", r.mm = MergeMapI(r.st, r.sc))
       /\ Clause(r.id, "n_clusters", r.ncl = MaxOf(r.sc) + 1 /\ Len(r.data) = r.ncl)
       /\ Len(r.data) = MaxOf(r.sc) + 1 =>
            Clause(r.id, "ClusterWaveform", \A x \in 1..Len(r.data) :
                      ClusterWaveformOk(r.data[x], x - 1, r.st, r.sc, r.T, r.chans))
       /\ Clause(r.id, "ClusterMean", \A e \in SeqSet(r.means) :
                      ClusterMeanOk(e.M, e.ch, e.c, r.st, r.sc, r.U4, r.chansU))
  ELSE /\ Clause(r.id, "n_clusters = n_templates", r.ncl = r.nt)
       /\ Clause(r.id, "cluster waveforms = template waveforms",
                 r.data = [t \in 1..Len(r.T) |-> AsRat(r.T[t])])
       /\ Clause(r.id, "ClusterMean", \A e \in SeqSet(r.means) :
                      ClusterMeanOk(e.M, e.ch, e.c, r.st, r.sc, r.U4, r.chansU))
TNext == /\ i <= Len(Trace) /\ Check1(Trace[i]) /\ TLCSet(2, i) /\ i' = i + 1 /\ UNCHANGED vars
TSpec == TInit /\ [][TNext]_<<vars, i>>
Accepted == Verdict(TLCGet(2)) /\ TLCGet(2) = Len(Trace)
====
