SPECIFICATION Spec
CONSTANTS
  MaxN = 8
  NCh = 3
  MaxParts = 8
INVARIANT SplitCorrect
INVARIANT SubitemsWellFormed
INVARIANT ColsCorrect
