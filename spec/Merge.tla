---- MODULE Merge ----
(* C11 / C12 - merging probes conserves every spike, renumbers ids disjointly, and produces channel
   and template arrays that are block-structured by probe.

   I-layer (io/merge.py): one action per write_* step, in the code's order, carrying the running
   offsets the code carries:
     WriteTimes         concatenate, stable argsort -> spikeOrder
     WriteClusters      cluster offsets = running sum of (max cluster id + 1); template offsets =
                        running sum of the NUMBER OF TEMPLATES of the preceding probes (the rows of
                        the merged templates array); cluster_probes
     WriteChannels      channel map offsets = running maximum of the shifted raw channel numbers
                        (the convention the ALF export inverts); channel_probe
     WriteTemplates     block k starts at the number of channels of ALL preceding probes
     WriteTemplateData  pc_feature_ind shifted by channel COUNTS, template_feature_ind by template COUNTS
   P-layer: Conservation, OrderedByTimeProbeIndex, IdsShifted, IdsDisjoint, ChannelBlocks,
   TemplateBlocks, PcIndShifted, TfIndShifted, SpikeTemplateOnOwnBlock; plus data-level operators
   used by the trace specification (template contents, geometry, block-diagonal matrices, TSV).   *)
EXTENDS Mat
CONSTANTS K             \* number of probes picked by the exhaustive model

VARIABLES probes, pc, spikeOrder, outTimes, outClu, outTmp, cluOff, tmpOff,
          chanOff, outChanMap, outChanProbe, outTemplates, outPcInd, outTfInd
vars == <<probes, pc, spikeOrder, outTimes, outClu, outTmp, cluOff, tmpOff, chanOff, outChanMap, outChanProbe, outTemplates, outPcInd, outTfInd>>

NP == Len(probes)        \* the number of probes of the run at hand
RECURSIVE SumTo(_, _)
SumTo(f, n) == IF n = 0 THEN 0 ELSE f[n] + SumTo(f, n - 1)
SeqMaxOf(s) == SeqMax(s)
RECURSIVE ConcatAll(_, _)
ConcatAll(f, n) == IF n = 0 THEN <<>> ELSE ConcatAll(f, n - 1) \o f[n]

\* a probe: times (non-decreasing), clusters, templates per spike; nch channels; ntm templates;
\* chmap: raw channel numbers; pcind: per template one stored channel index; tfind: per template one template index
ProbeSet == { [times |-> t, sc |-> c, st |-> s, nch |-> nc, ntm |-> nt,
               chmap |-> cm, pcind |-> [i \in 1..nt |-> <<nc - 1>>], tfind |-> [i \in 1..nt |-> <<nt - 1>>]] :
              t \in {<<0>>, <<0, 1>>}, nc \in 1..2, nt \in 1..2, cm \in {<<0>>, <<2>>, <<0, 1>>, <<1, 0>>, <<0, 3>>},
              c \in {<<0>>, <<2>>, <<0, 2>>, <<2, 0>>}, s \in {<<0>>, <<1>>, <<0, 1>>, <<1, 0>>} }
WellFormed(p) == /\ Len(p.times) = Len(p.sc) /\ Len(p.sc) = Len(p.st) /\ Len(p.chmap) = p.nch
                 /\ \A i \in 1..Len(p.st) : p.st[i] < p.ntm
Init == /\ probes = <<>> /\ pc = "pick" /\ spikeOrder = <<>> /\ outTimes = <<>> /\ outClu = <<>> /\ outTmp = <<>>
        /\ cluOff = <<>> /\ tmpOff = <<>> /\ chanOff = <<>> /\ outChanMap = <<>> /\ outChanProbe = <<>>
        /\ outTemplates = <<>> /\ outPcInd = <<>> /\ outTfInd = <<>>

\* tagged spikes <<probe, index>> in concatenation order
Tagged == ConcatAll([k \in 1..NP |-> [i \in 1..Len(probes[k].times) |-> <<k, i>>]], NP)
TimeOf(x) == probes[x[1]].times[x[2]]
\* stable argsort by time of the concatenation = sort by <<time, position in concatenation>>
Before(x, y) == \/ TimeOf(x) < TimeOf(y)
                \/ TimeOf(x) = TimeOf(y) /\ (x[1] < y[1] \/ (x[1] = y[1] /\ x[2] < y[2]))
StableOrder == LET T == Tagged  n == Len(T)
                   rank(i) == Cardinality({j \in 1..n : Before(T[j], T[i])})
               IN [r \in 1..n |-> T[CHOOSE i \in 1..n : rank(i) = r - 1]]

\* the probes are picked one at a time so that TLC's workers share the enumeration
PickProbe == /\ pc = "pick" /\ Len(probes) < K
             /\ \E p \in {q \in ProbeSet : WellFormed(q)} : probes' = Append(probes, p)
             /\ UNCHANGED <<pc, spikeOrder, outTimes, outClu, outTmp, cluOff, tmpOff, chanOff, outChanMap, outChanProbe, outTemplates, outPcInd, outTfInd>>
Start == /\ pc = "pick" /\ Len(probes) = K /\ pc' = "times"
         /\ UNCHANGED <<probes, spikeOrder, outTimes, outClu, outTmp, cluOff, tmpOff, chanOff, outChanMap, outChanProbe, outTemplates, outPcInd, outTfInd>>
WriteTimes == /\ pc = "times" /\ spikeOrder' = StableOrder
              /\ outTimes' = [r \in 1..Len(StableOrder) |-> TimeOf(StableOrder[r])]
              /\ pc' = "clusters"
              /\ UNCHANGED <<probes, outClu, outTmp, cluOff, tmpOff, chanOff, outChanMap, outChanProbe, outTemplates, outPcInd, outTfInd>>
RECURSIVE RunOff(_, _, _)
RunOff(sizes, k, acc) == IF k > Len(sizes) THEN <<>> ELSE <<acc>> \o RunOff(sizes, k + 1, acc + sizes[k])
WriteClusters ==
   /\ pc = "clusters"
   /\ cluOff' = RunOff([k \in 1..NP |-> SeqMaxOf(probes[k].sc) + 1], 1, 0)
   /\ tmpOff' = RunOff([k \in 1..NP |-> probes[k].ntm], 1, 0)      \* rows of the merged templates array
   /\ outClu' = [r \in 1..Len(spikeOrder) |-> probes[spikeOrder[r][1]].sc[spikeOrder[r][2]] + cluOff'[spikeOrder[r][1]]]
   /\ outTmp' = [r \in 1..Len(spikeOrder) |-> probes[spikeOrder[r][1]].st[spikeOrder[r][2]] + tmpOff'[spikeOrder[r][1]]]
   /\ pc' = "channels"
   /\ UNCHANGED <<probes, spikeOrder, outTimes, chanOff, outChanMap, outChanProbe, outTemplates, outPcInd, outTfInd>>
\* channel map offsets: running maximum of the shifted maps (merge.py:195-200)
RECURSIVE ChanOffs(_, _)
ChanOffs(k, off) == IF k > NP THEN <<>> ELSE <<off>> \o ChanOffs(k + 1, SeqMaxOf(probes[k].chmap) + off)
WriteChannels ==
   /\ pc = "channels"
   /\ chanOff' = ChanOffs(1, 0)
   /\ outChanMap' = ConcatAll([k \in 1..NP |-> [i \in 1..probes[k].nch |-> probes[k].chmap[i] + chanOff'[k]]], NP)
   /\ outChanProbe' = ConcatAll([k \in 1..NP |-> [i \in 1..probes[k].nch |-> k - 1]], NP)
   /\ pc' = "templates"
   /\ UNCHANGED <<probes, spikeOrder, outTimes, outClu, outTmp, cluOff, tmpOff, outTemplates, outPcInd, outTfInd>>
\* a template is abstracted by the set of merged channel columns that carry its waveform
NchBefore(k) == SumTo([j \in 1..NP |-> probes[j].nch], k - 1)
NtmBefore(k) == SumTo([j \in 1..NP |-> probes[j].ntm], k - 1)
BlockStart(k) == NchBefore(k)
WriteTemplates ==
   /\ pc = "templates"
   /\ outTemplates' = ConcatAll([k \in 1..NP |-> [t \in 1..probes[k].ntm |-> (BlockStart(k) + 1)..(BlockStart(k) + probes[k].nch)]], NP)
   /\ pc' = "tdata"
   /\ UNCHANGED <<probes, spikeOrder, outTimes, outClu, outTmp, cluOff, tmpOff, chanOff, outChanMap, outChanProbe, outPcInd, outTfInd>>
WriteTemplateData ==
   /\ pc = "tdata"
   /\ outPcInd' = ConcatAll([k \in 1..NP |-> [t \in 1..probes[k].ntm |-> [j \in 1..Len(probes[k].pcind[t]) |-> probes[k].pcind[t][j] + NchBefore(k)]]], NP)
   /\ outTfInd' = ConcatAll([k \in 1..NP |-> [t \in 1..probes[k].ntm |-> [j \in 1..Len(probes[k].tfind[t]) |-> probes[k].tfind[t][j] + NtmBefore(k)]]], NP)
   /\ pc' = "done"
   /\ UNCHANGED <<probes, spikeOrder, outTimes, outClu, outTmp, cluOff, tmpOff, chanOff, outChanMap, outChanProbe, outTemplates>>
Next == PickProbe \/ Start \/ WriteTimes \/ WriteClusters \/ WriteChannels \/ WriteTemplates \/ WriteTemplateData
Spec == Init /\ [][Next]_vars

\* ---------------- P-layer ----------------
Done == pc = "done"
Conservation == Done => /\ Len(spikeOrder) = Len(Tagged)
                        /\ {spikeOrder[r] : r \in 1..Len(spikeOrder)} = {Tagged[i] : i \in 1..Len(Tagged)}
OrderedByTimeProbeIndex == Done => \A r \in 1..(Len(spikeOrder) - 1) : Before(spikeOrder[r], spikeOrder[r + 1])
IdsDisjoint == Done => \A r, q \in 1..Len(spikeOrder) :
                          spikeOrder[r][1] # spikeOrder[q][1] => outClu[r] # outClu[q] /\ outTmp[r] # outTmp[q]
IdsShifted == Done => \A r \in 1..Len(spikeOrder) : LET k == spikeOrder[r][1]  i == spikeOrder[r][2] IN
                         /\ outClu[r] - probes[k].sc[i] = SumTo([j \in 1..NP |-> SeqMaxOf(probes[j].sc) + 1], k - 1)
                         /\ outTmp[r] - probes[k].st[i] = NtmBefore(k)
ChannelBlocks == Done => outChanProbe = ConcatAll([k \in 1..NP |-> [i \in 1..probes[k].nch |-> k - 1]], NP)
TemplateBlocks == Done => \A k \in 1..NP : \A t \in 1..probes[k].ntm :
                     outTemplates[NtmBefore(k) + t] = {c \in 1..Len(outChanProbe) : outChanProbe[c] = k - 1}
PcIndShifted == Done => \A k \in 1..NP : \A t \in 1..probes[k].ntm :
                     \A j \in 1..Len(probes[k].pcind[t]) :
                     /\ outChanProbe[outPcInd[NtmBefore(k) + t][j] + 1] = k - 1       \* points into its own block
                     /\ outPcInd[NtmBefore(k) + t][j] - NchBefore(k) = probes[k].pcind[t][j]
\* a merged spike's template id must index a template row lying on the spike's own probe block
SpikeTemplateOnOwnBlock == Done => \A r \in 1..Len(spikeOrder) :
                     outTemplates[outTmp[r] + 1] = {c \in 1..Len(outChanProbe) : outChanProbe[c] = spikeOrder[r][1] - 1}
\* ---- ALF export of the merged dataset: alf.make_channel_objects re-expresses raw indices per probe
RECURSIVE AlfRaw(_, _)
AlfRaw(k, off) == IF k > NP THEN <<>> ELSE
   LET blk == {c \in 1..Len(outChanProbe) : outChanProbe[c] = k - 1}
       vals == [c \in 1..Len(outChanMap) |-> outChanMap[c]]
       mx == CHOOSE x \in {outChanMap[c] : c \in blk} : \A c \in blk : outChanMap[c] <= x
       lo == CHOOSE c \in blk : \A d \in blk : c <= d
   IN [i \in 1..Cardinality(blk) |-> outChanMap[lo + i - 1] - off] \o AlfRaw(k + 1, mx)
RawIndRoundTrip == Done => AlfRaw(1, 0) = ConcatAll([k \in 1..NP |-> probes[k].chmap], NP)
TfIndShifted == Done => \A k \in 1..NP : \A t \in 1..probes[k].ntm :
                     \A j \in 1..Len(probes[k].tfind[t]) :
                     outTfInd[NtmBefore(k) + t][j] - NtmBefore(k) = probes[k].tfind[t][j]
\* ---------------------------------------------------------------------------- data-level P-layer (trace spec)
NchTotal == NchBefore(NP + 1)
\* template t of probe k: its waveform on block k, zeros on all other channels
ExpectedTemplate(k, t) == [r \in 1..Len(probes[k].T[t]) |-> [c \in 1..NchTotal |->
      IF c > NchBefore(k) /\ c <= NchBefore(k) + probes[k].nch THEN probes[k].T[t][r][c - NchBefore(k)] ELSE 0]]
ExpectedTemplates == ConcatAll([k \in 1..NP |-> [t \in 1..probes[k].ntm |-> ExpectedTemplate(k, t)]], NP)
\* block-diagonal stacking of square matrices
DimBefore(ms, k) == SumSeq([j \in 1..(k - 1) |-> Len(ms[j])])
BlockDiag(ms) == LET n == DimBefore(ms, Len(ms) + 1) IN
   [r \in 1..n |-> [c \in 1..n |->
      LET k == CHOOSE q \in 1..Len(ms) : r > DimBefore(ms, q) /\ r <= DimBefore(ms, q) + Len(ms[q]) IN
      IF c > DimBefore(ms, k) /\ c <= DimBefore(ms, k) + Len(ms[k]) THEN ms[k][r - DimBefore(ms, k)][c - DimBefore(ms, k)] ELSE 0]]
\* geometry: block k keeps y and its x up to ONE translation; consecutive probes are apart along x
GeometryOk(ox, oy) ==
   /\ Len(ox) = NchTotal /\ Len(oy) = NchTotal
   /\ \A k \in 1..NP : \A i \in 1..probes[k].nch :
         /\ oy[NchBefore(k) + i] = probes[k].posy[i]
         /\ ox[NchBefore(k) + i] - probes[k].posx[i] = ox[NchBefore(k) + 1] - probes[k].posx[1]
   /\ \A k \in 1..(NP - 1) : \A i \in 1..probes[k].nch, j \in 1..probes[k + 1].nch :
         ox[NchBefore(k) + i] < ox[NchBefore(k + 1) + j]
\* renumbered per-cluster metadata: each probe's mapping (sequence of <<id, value>>) shifted by its offset
MergedTsv(name) == UNION {{<<e[1] + cluOff[k], e[2]>> : e \in SeqSet(probes[k].tsv[name])} : k \in 1..NP}
ClusterProbesOk(cp) ==
   /\ Len(cp) = SumTo([j \in 1..NP |-> SeqMaxOf(probes[j].sc) + 1], NP)
   /\ \A k \in 1..NP : \A x \in 0..SeqMaxOf(probes[k].sc) : cp[cluOff[k] + x + 1] = k - 1
====
