SPECIFICATION TSpec
CONSTANTS
  MaxLen = 0
  MaxT = 0
  WideLen = 0
  IdLists = {}
  Bins = {}
  MaxHalf = 0
POSTCONDITION Accepted
