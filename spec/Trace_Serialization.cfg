SPECIFICATION TSpec
CONSTANTS
  Modes = {}
  MaxRows = 0
  Cells = {}
POSTCONDITION Accepted
