---- MODULE Features ----
(* C06 - sparse feature storage is densified exactly.

   I-layer (io/model.py from_sparse, per spike row): flatten the stored column ids, mask the ones
   that are not requested to -1, translate through _index_of over (requested channels ++ <<-1>>) -
   the extra last slot is the DISCARD column -, scatter the stored values, drop the discard column.
   P-layer: Dense - at position j the stored value whose column id names the requested channel j,
   zero where that channel is not stored; GetFeatures / GetTemplateFeatures on feature stores with
   and without a row (spike id) table; PairProduct - the PCA clause on the exactly diagonal family. *)
EXTENDS Mat
CONSTANTS Channels, StoredVals, MaxReq

\* ---------------------------------------------------------------------------- P-layer
\* one spike: cols = stored column ids (distinct), data = stored values, chans = requested (distinct)
Dense(data, cols, chans) ==
   [j \in 1..Len(chans) |-> IF \E k \in 1..Len(cols) : cols[k] = chans[j]
                            THEN data[CHOOSE k \in 1..Len(cols) : cols[k] = chans[j]] ELSE 0]
\* feature store: pcf[row][component][k], pcind[template + 1][k], rows = <<>> (all spikes) or spike ids
RowOf(rows, s) == IF rows = <<>> THEN s + 1 ELSE CHOOSE q \in 1..Len(rows) : rows[q] = s
Stored(rows, s) == rows = <<>> \/ s \in SeqSet(rows)
\* out[spike][channel][component]
GetFeaturesOk(out, pcf, pcind, rows, st, spikes, chans) ==
   /\ Len(out) = Len(spikes)
   /\ \A q \in 1..Len(spikes) : Stored(rows, spikes[q]) =>
        \A row \in {RowOf(rows, spikes[q])} :
        \A p \in 1..Len(pcf[row]) :
           [j \in 1..Len(chans) |-> out[q][j][p]] = Dense(pcf[row][p], pcind[st[spikes[q] + 1] + 1], chans)
\* template features: out[spike][template], all templates 0..nt-1 requested
GetTemplateFeaturesOk(out, tf, tfind, rows, st, spikes, nt) ==
   /\ Len(out) = Len(spikes)
   /\ \A q \in 1..Len(spikes) :
        out[q] = Dense(tf[RowOf(rows, spikes[q])], tfind[st[spikes[q] + 1] + 1], [t \in 1..nt |-> t - 1])
\* PCA on the exactly diagonal family: w[spike][sample][channel], F[spike][channel][component]
VarOf(w, k, c) == SumSeq([s \in 1..Len(w) |-> w[s][k][c] * w[s][k][c]])
PairProductOk(w, F) ==
   \A c \in 1..Len(w[1][1]) :
      \A order \in {[r \in 1..Len(w[1]) |-> CHOOSE k \in 1..Len(w[1]) :
                         Cardinality({k2 \in 1..Len(w[1]) : VarOf(w, k2, c) > VarOf(w, k, c)}) = r - 1]} :
      \A comp \in 1..3 : \A s1 \in 1..Len(w), s2 \in 1..Len(w) :
         F[s1][c][comp] * F[s2][c][comp] = w[s1][order[comp]][c] * w[s2][order[comp]][c]
\* a request of TWO waveforms (+m and -m on one sample axis per channel): only the FIRST component is determined -
\* it is that axis (the covariance has rank one; the other components span its null space in any way)
FirstComponentOk(w, F) ==
   \A c \in 1..Len(w[1][1]) : \A k \in {kk \in 1..Len(w[1]) : VarOf(w, kk, c) > 0} :
      \A s1 \in 1..Len(w), s2 \in 1..Len(w) : F[s1][c][1] * F[s2][c][1] = w[s1][k][c] * w[s2][k][c]
\* the same for a LONG request given as distinct waveforms with multiplicities (cnt[s] copies of w[s]): the
\* principal axes are those of ALL the waveforms of the request
VarOfW(w, cnt, k, c) == SumSeq([s \in 1..Len(w) |-> cnt[s] * w[s][k][c] * w[s][k][c]])
PairProductOkW(w, cnt, F) ==
   \A c \in 1..Len(w[1][1]) :
      \A order \in {[r \in 1..Len(w[1]) |-> CHOOSE k \in 1..Len(w[1]) :
                         Cardinality({k2 \in 1..Len(w[1]) : VarOfW(w, cnt, k2, c) > VarOfW(w, cnt, k, c)}) = r - 1]} :
      \A comp \in 1..3 : \A s1 \in 1..Len(w), s2 \in 1..Len(w) :
         F[s1][c][comp] * F[s2][c][comp] = w[s1][order[comp]][c] * w[s2][order[comp]][c]

\* ---------------------------------------------------------------------------- I-layer
MaxOfSeq(s) == IF s = <<>> THEN 0 ELSE SeqMax(s)
IndexOf(arr, lk) ==
   LET m == (IF lk = <<>> THEN 0 ELSE SeqMax([q \in 1..Len(lk) |-> IF lk[q] < 0 THEN 0 ELSE lk[q]])) + 1
       \* lookup.max() over requested ++ <<-1>>; tmp[lookup] = arange: the entry -1 writes slot m (= tmp[-1])
       tmp == [s \in 0..m |-> IF \E q \in 1..Len(lk) : (IF lk[q] = -1 THEN m ELSE lk[q]) = s
                              THEN (CHOOSE q \in 1..Len(lk) : (IF lk[q] = -1 THEN m ELSE lk[q]) = s
                                       /\ \A q2 \in 1..Len(lk) : (IF lk[q2] = -1 THEN m ELSE lk[q2]) = s => q2 <= q) - 1
                              ELSE IF s = m THEN -1 ELSE 0]
   IN [q \in 1..Len(arr) |-> tmp[IF arr[q] = -1 THEN m ELSE arr[q]]]
FromSparseI(data, cols, chans) ==
   LET c1 == [k \in 1..Len(cols) |-> IF cols[k] \in SeqSet(chans) THEN cols[k] ELSE -1]
       loc == IndexOf(c1, chans \o <<-1>>)
       width == Len(chans) + 1
       out == [j \in 1..width |-> IF \E k \in 1..Len(cols) : loc[k] + 1 = j
                                  THEN data[CHOOSE k \in 1..Len(cols) : loc[k] + 1 = j /\ \A k2 \in 1..Len(cols) : loc[k2] + 1 = j => k2 <= k]
                                  ELSE 0]
   IN SubSeq(out, 1, Len(chans))

\* ---------------------------------------------------------------------------- tiny exhaustive model
VARIABLES cols, data, chans, fpc
fvars == <<cols, data, chans, fpc>>
FInit == cols = <<>> /\ data = <<>> /\ chans = <<>> /\ fpc = "pick"
DistinctSeqs(S, n) == {s \in [1..n -> S] : Cardinality({s[k] : k \in 1..n}) = n}
FPick == /\ fpc = "pick"
         /\ \E n \in 1..2 : cols' \in DistinctSeqs(Channels, n) /\ data' \in [1..n -> StoredVals]
         /\ \E r \in 0..MaxReq : chans' \in DistinctSeqs(Channels \cup {9}, r)        \* 9: a channel nobody stores
         /\ fpc' = "done"
FNext == FPick
FSpec == FInit /\ [][FNext]_fvars
FromSparseOk == fpc = "done" => FromSparseI(data, cols, chans) = Dense(data, cols, chans)
EmitCase == fpc = "done" => Emit([cols |-> cols, data |-> data, chans |-> chans, dense |-> Dense(data, cols, chans)])
====
