SPECIFICATION FairSpec
CONSTANTS
  MaxScript = 3
  Flaky = TRUE
INVARIANT ReturnedImpliesValid
INVARIANT AtMostTwoGets
INVARIANT NoRedundantGet
INVARIANT FaultsRaise
PROPERTY ExactlyOneRetry
PROPERTY Terminates
