SPECIFICATION Spec
CONSTANTS
  NS = 2
  NCH = 3
  Vals = {0, 1, 2}
  Wmis <- WmisDef
  PosSets <- PosDef
  ShankSets <- ShankDef
  Thrs <- ThrsDef
  NClosests = {1, 2, 3}
INVARIANT DenseOk
