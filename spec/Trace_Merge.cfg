SPECIFICATION TSpec
CONSTANTS
  K = 0
POSTCONDITION Accepted
