SPECIFICATION Spec
CONSTANTS
  NSpikes = 4
  NTemplates = 3
  Depth = 2
  MaxId = 6
INVARIANT MergeMapOk
INVARIANT NClustersOk
INVARIANT EveryIdHasAnEntry
