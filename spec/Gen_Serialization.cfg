SPECIFICATION Spec
CONSTANTS
  Modes = {"json", "tsv", "simple", "python"}
  MaxRows = 2
  Cells <- CellsSmall
INVARIANT EmitCase
