SPECIFICATION Spec
CONSTANTS
  MaxN = 5
  MaxSpikes = 2
  MaxNsw = 4
  NCh = 3
  Dts = {"int16", "float32", "float64"}
  Fks = {"i1", "i2", "f05"}
INVARIANT ExtractIsWindow
INVARIANT EachSpikeOnceInOrder
INVARIANT DeclaredEqualsWritten
INVARIANT LoadedIsWindows
INVARIANT ChunksTile
INVARIANT LookupIsWindowRestricted
