---- MODULE Trace_Chunking ----
(* V: validate runs recorded from the real generators against Chunking's actions.
   One record = one complete run {id, mode, <parameters>, out [, rows]}. For every record the
   machine of Chunking is started on the logged parameters and stepped with Chunking!Next until
   pc = "done"; then Consume compares the spec's output with the logged one (clause "out") and
   evaluates the P-layer predicates on the *logged* output.                                    *)
EXTENDS Chunking
CONSTANTS Unused
VARIABLE i
Trace == ndJsonDeserialize(TraceFile)

StateOf(r) ==
  IF r.mode = "gen" THEN [par |-> [n |-> r.n, cs |-> r.cs, ov |-> r.ov], pc |-> "first",
                           loc |-> [ss |-> 0, se |-> 0, ks |-> 0, ke |-> 0]]
  ELSE IF r.mode = "bounds" THEN [par |-> [sizes |-> r.sizes, chunk |-> r.chunk], pc |-> "loop",
                                   loc |-> [k |-> 1, nn |-> 0]]
  ELSE IF r.mode = "cbin" THEN [par |-> [nch |-> r.nch, nth |-> r.nth], pc |-> "loop",
                                 loc |-> [batch |-> 0, last |-> 0]]
  ELSE [par |-> [n |-> r.n, ne |-> r.ne, es |-> r.es], pc |-> (IF r.ne >= 2 THEN "loop" ELSE "done"),
        loc |-> [i |-> 0]]

TInit == /\ i = 1 /\ RejectInit /\ TLCSet(2, 0)
         /\ LET s == StateOf(Trace[1]) IN
            mode = Trace[1].mode /\ par = s.par /\ loc = s.loc /\ pc = s.pc /\ out = <<>>

Check(r) ==
  /\ Clause(r.id, "out", out = r.out)
  /\ r.mode = "gen" => /\ Clause(r.id, "Tiles", TilesIntervalsOf(par, r.out))
                       /\ Clause(r.id, "Inside", InsideOf(par, r.out))
                       /\ Clause(r.id, "Size", SizeOf(par, r.out))
  /\ r.mode = "bounds" => /\ Clause(r.id, "BoundsValid", BoundsValidOf(par, r.out))
                          /\ Clause(r.id, "BaseIterTiles", TilesInOrder(r.yields, SumSeq(par.sizes)))
                          /\ Clause(r.id, "yields", r.yields = BaseYields(out))
  /\ r.mode = "cbin" => Clause(r.id, "IterTiles", TilesInOrder(r.out, par.nch))
  /\ r.mode = "exc" => /\ Clause(r.id, "rows", r.rows = GetExcerpts)
                       /\ par.ne >= 2 => Clause(r.id, "ExcerptsValid", ExcerptsValidOf(par, r.out))
                       /\ Clause(r.id, "GetExcerptsValid", GetExcerptsValidOf(par, r.rows))

Step == pc # "done" /\ Next /\ i' = i
Consume == /\ pc = "done" /\ i <= Len(Trace)
           /\ Check(Trace[i]) /\ TLCSet(2, i)
           /\ i' = i + 1
           /\ IF i < Len(Trace)
              THEN LET s == StateOf(Trace[i + 1]) IN
                   mode' = Trace[i + 1].mode /\ par' = s.par /\ loc' = s.loc /\ pc' = s.pc /\ out' = <<>>
              ELSE UNCHANGED vars
TNext == Step \/ Consume
TSpec == TInit /\ [][TNext]_<<vars, i>>
Accepted == Verdict(TLCGet(2)) /\ TLCGet(2) = Len(Trace)
====
