SPECIFICATION TSpec
CONSTANTS
  Channels = {}
  StoredVals = {}
  MaxReq = 0
POSTCONDITION Accepted
