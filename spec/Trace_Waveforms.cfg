SPECIFICATION TSpec
CONSTANTS
  MaxN = 0
  MaxSpikes = 0
  MaxNsw = 0
  NCh = 3
  Dts = {}
  Fks = {}
POSTCONDITION Accepted
