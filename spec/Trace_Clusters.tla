---- MODULE Trace_Clusters ----
(* V: outputs recorded from the real utilities on long random vectors, judged by the declarative
   P-layer only (the I-layer's stable-sort transcription is cubic in TLC and is bound to the code
   by the exhaustive small-scope replay instead):
   {id, v, ids, groups, unique, req, inClusters, flat, lookup, indexOf, w, mean: [[num, den]..]};
   kind "model": the TemplateModel queries; kinds "call_*": single calls made by the repository's tests. *)
EXTENDS Clusters
VARIABLE i
Trace == ndJsonDeserialize(TraceFile)
TInit == Init /\ i = 1 /\ RejectInit /\ TLCSet(2, 0)
MeanMatches(m, w, vv) ==
   LET u == SortSet({x \in SeqSet(vv) : x >= 0}) IN
   /\ Len(m) = Len(u)
   /\ \A k \in 1..Len(u) : LET S == {j \in 1..Len(vv) : vv[j] = u[k]} IN
         m[k][1] * Cardinality(S) = SumSeq([j \in 1..Len(vv) |-> IF j \in S THEN w[j] ELSE 0]) * m[k][2]
\* the model's per-cluster / per-template spike queries and per-cluster template histograms
CheckModel(r) ==
  /\ Clause(r.id, "get_cluster_spikes", \A e \in SeqSet(r.cluster_spikes) : IsInClusters(e[2], r.sc, <<e[1]>>))
  /\ Clause(r.id, "get_template_spikes", \A e \in SeqSet(r.template_spikes) : IsInClusters(e[2], r.st, <<e[1]>>))
  /\ Clause(r.id, "get_template_counts", \A e \in SeqSet(r.template_counts) :
               /\ Len(e[2]) = r.nt
               /\ \A t \in 1..r.nt : e[2][t] = Cardinality({j \in 1..Len(r.sc) : r.sc[j] = e[1] /\ r.st[j] = t - 1}))
CheckUtils(r) ==
  /\ Clause(r.id, "IsGroups", IsGroups(r.groups, r.v, r.ids))
  /\ Clause(r.id, "IsUnique", IsUnique(r.unique, r.v))
  /\ Clause(r.id, "IsInClusters", IsInClusters(r.inClusters, r.v, r.req))
  /\ Clause(r.id, "IsFlatten", IsFlatten(r.flat, r.groups))
  /\ Clause(r.id, "IsIndexOf", IsIndexOf(r.indexOf, r.vneg, r.lookup))
  /\ Clause(r.id, "IsMean", MeanMatches(r.mean, r.w, r.v))
\* U: single calls recorded while the repository's own tests run (harness/pytest_tracer.py)
CheckCall(r) ==
  CASE r.kind = "call_unique" -> Clause(r.id, "IsUnique", IsUnique(r.out, r.v))
    [] r.kind = "call_index_of" -> Clause(r.id, "IsIndexOf", IsIndexOf(r.out, r.arr, r.lookup))
    [] r.kind = "call_in_clusters" -> Clause(r.id, "IsInClusters", IsInClusters(r.out, r.v, r.req))
    [] r.kind = "call_per_cluster" -> Clause(r.id, "IsGroups", IsGroups(r.groups, r.v, r.ids))
    [] r.kind = "call_flatten" -> Clause(r.id, "IsFlatten", IsFlatten(r.out, r.groups))
    [] OTHER -> Clause(r.id, "kind", FALSE)
Check1(r) == IF r.kind = "model" THEN CheckModel(r)
             ELSE IF r.kind = "utils" THEN CheckUtils(r) ELSE CheckCall(r)
TNext == /\ i <= Len(Trace) /\ Check1(Trace[i]) /\ TLCSet(2, i) /\ i' = i + 1 /\ UNCHANGED vars
TSpec == TInit /\ [][TNext]_<<vars, i>>
Accepted == Verdict(TLCGet(2)) /\ TLCGet(2) = Len(Trace)
====
