---- MODULE Templates ----
(* C05 - template records are aligned with their channel list (dense and sparse storage).

   Matrices are 1-based sequences of rows; channel ids in records are 0-based (as in the code).
   Values are integers: the harness scales templates / amplitudes by 4 and uses whitening inverses
   whose entries are multiples of 1/4 (monomial or unit-triangular), so T * wmi4 is exact.
   I-layer (io/model.py): FindBest - amplitude = max - min per channel, best = FIRST arg-max,
   peak set = amplitude >= thr * max, close = the n nearest channels of best (squared distance,
   argsort: the order among equidistant channels is NOT specified -> nondeterministic), restricted
   to best's shank, intersected, ordered by decreasing amplitude (order among equal amplitudes not
   specified -> nondeterministic); GetDense (optionally an explicit channel list); GetSparse -
   drop signal-free and -1 columns, unwhiten on the sub-matrix wmi[ch, ch], reorder.
   P-layer: ValidDense / ValidExplicit / ValidSparse - the statement, relational on ties.       *)
EXTENDS Mat
CONSTANTS NS, NCH, Vals, Wmis, PosSets, ShankSets, Thrs, NClosests

\* ---------------------------------------------------------------------------- P-layer
\* rec = [ch (1-based here), tmpl, amp, best]; U = the (un)whitened template; thr = <<num, den>>
\* (TLC re-evaluates a LET definition at every use - costly inside the SUBSET quantifier; quantifying
\* over a singleton set binds the computed VALUE once)
ValidDense(rec, U, pos, shank, nclosest, thr) ==
  \A amp \in {Amp(U)} : \A mx \in {SeqMax(amp)} :
  LET ch == rec.ch
  IN /\ Distinct(ch) /\ Len(ch) >= 1
     /\ SeqSet(ch) \subseteq 1..Len(amp) /\ rec.best \in 1..Len(amp)       \* (keeps the predicate total)
     /\ Len(rec.tmpl) = Len(U) /\ \A q \in 1..Len(rec.tmpl) : Len(rec.tmpl[q]) = Len(ch)
     /\ NonIncreasingAlong(amp, ch) /\ amp[ch[1]] = mx                       \* peak channel first
     /\ rec.tmpl = Cols(U, ch)                                               \* column j = template on channel j
     /\ rec.amp = [k \in 1..Len(ch) |-> amp[ch[k]]]                          \* entry j = that column's amplitude
     /\ amp[rec.best] = mx
     /\ \E p \in {c \in 1..Len(amp) : amp[c] = mx} :
          \A dist \in {[c \in 1..Len(amp) |-> Dist2(pos, c, p)]} :
          \A keep \in {{c \in 1..Len(amp) : shank[c] = shank[p] /\ amp[c] * thr[2] >= thr[1] * mx}} :
          \E N \in SUBSET (1..Len(amp)) :
             /\ Cardinality(N) = Min2(nclosest, Len(amp))
             /\ \A a \in N, b \in (1..Len(amp)) \ N : dist[a] <= dist[b]      \* a valid nearest set of p
             /\ SeqSet(ch) = N \cap keep
\* explicit channel list: the list is returned as given and the columns are aligned with it
ValidExplicit(rec, U, explicit) == rec.ch = explicit /\ SeqSet(explicit) \subseteq 1..Len(U[1]) /\ rec.tmpl = Cols(U, explicit)
\* sparse storage: Ts = stored columns, cols = stored channel ids (1-based, 0 = unused), wmi4 full
ValidSparse(rec, Ts, cols, wmi4, unw) ==
  LET tmax == [k \in 1..Len(cols) |-> SeqMax([r \in 1..Len(Ts) |-> IF Ts[r][k] < 0 THEN -Ts[r][k] ELSE Ts[r][k]])]
      kept == {k \in 1..Len(cols) : tmax[k] > 0 /\ cols[k] # 0}             \* minus signal-free, minus unused
      keptSeq == [r \in 1..Cardinality(kept) |-> CHOOSE k \in kept : Cardinality({j \in kept : j < k}) = r - 1]
      chs == [r \in 1..Len(keptSeq) |-> cols[keptSeq[r]]]
      Tk == Cols(Ts, keptSeq)
      sub == [a \in 1..Len(chs) |-> [b \in 1..Len(chs) |-> wmi4[chs[a]][chs[b]]]]
      U == IF unw THEN MatMul(Tk, sub) ELSE [r \in 1..Len(Tk) |-> [k \in 1..Len(chs) |-> 4 * Tk[r][k]]]
      amp == Amp(U)                                                          \* indexed by position in chs
  IN /\ SeqSet(rec.ch) = SeqSet(chs) /\ Distinct(rec.ch) /\ Len(rec.ch) = Len(chs)
     /\ Len(rec.amp) = Len(rec.ch) /\ Len(rec.tmpl) = Len(Ts) /\ \A q \in 1..Len(rec.tmpl) : Len(rec.tmpl[q]) = Len(rec.ch)
     /\ \A j \in 1..Len(rec.ch) :
           LET k == CHOOSE q \in 1..Len(chs) : chs[q] = rec.ch[j] IN
           /\ Col(rec.tmpl, j) = Col(U, k)
           /\ rec.amp[j] = amp[k]
     /\ \A j \in 1..(Len(rec.ch) - 1) : rec.amp[j] >= rec.amp[j + 1]
     /\ Len(rec.ch) >= 1 => rec.amp[1] = SeqMax(amp)

\* ---------------------------------------------------------------------------- I-layer (dense)
VARIABLES T, wmi, pos, shank, thr, nclosest, rec, pc
vars == <<T, wmi, pos, shank, thr, nclosest, rec, pc>>
Init == T = <<>> /\ wmi = <<>> /\ pos = <<>> /\ shank = <<>> /\ thr = <<0, 1>> /\ nclosest = 0
        /\ rec = [ch |-> <<>>] /\ pc = "pick"
Pick == /\ pc = "pick" /\ T' \in [1..NS -> [1..NCH -> Vals]]
        /\ pc' = "pick2" /\ UNCHANGED <<wmi, pos, shank, thr, nclosest, rec>>
Pick2 == /\ pc = "pick2" /\ wmi' \in Wmis /\ pos' \in PosSets /\ shank' \in ShankSets
         /\ thr' \in Thrs /\ nclosest' \in NClosests
         /\ Amp(MatMul(T, wmi')) # [c \in 1..NCH |-> 0]            \* a template with some signal
         /\ pc' = "ready" /\ UNCHANGED <<T, rec>>
FindBest ==
  /\ pc = "ready"
  /\ \E U \in {MatMul(T, wmi)} : \E amp \in {Amp(U)} : \E mx \in {SeqMax(amp)} :
     LET best == CHOOSE c \in 1..NCH : amp[c] = mx /\ \A d \in 1..NCH : amp[d] = mx => c <= d   \* np.argmax: first
         peak == {c \in 1..NCH : amp[c] * thr[2] >= thr[1] * mx}
     IN \E N \in SUBSET (1..NCH) :                                        \* argsort(d)[:n]: ties unspecified
          /\ ValidNearest(N, pos, best, nclosest)
          /\ LET close == {c \in N : shank[c] = shank[best]}
                 ids == peak \cap close
             IN \E order \in Perms(ids) :                                 \* argsort(amplitude[ids])[::-1]
                  /\ \A k \in 1..(Len(order) - 1) : amp[order[k]] >= amp[order[k + 1]]
                  /\ rec' = [ch |-> order, tmpl |-> Cols(U, order),
                             amp |-> [k \in 1..Len(order) |-> amp[order[k]]], best |-> best]
  /\ pc' = "done" /\ UNCHANGED <<T, wmi, pos, shank, thr, nclosest>>
Next == Pick \/ Pick2 \/ FindBest
Spec == Init /\ [][Next]_vars
DenseOk == pc = "done" => ValidDense(rec, MatMul(T, wmi), pos, shank, nclosest, thr)

Id3 == << <<1, 0, 0>>, <<0, 1, 0>>, <<0, 0, 1>> >>
Mono3 == << <<0, 2, 0>>, <<1, 0, 0>>, <<0, 0, 1>> >>
Tri3 == << <<1, 1, 0>>, <<0, 1, -1>>, <<0, 0, 1>> >>
WmisDef == {Id3, Mono3, Tri3}
PosDef == { << <<0, 0>>, <<1, 0>>, <<0, 1>> >>, << <<0, 0>>, <<0, 2>>, <<0, 1>> >> }
ShankDef == { <<0, 0, 0>>, <<0, 1, 0>> }
ThrsDef == { <<0, 1>>, <<1, 2>>, <<1, 1>> }
====
