---- MODULE Templates ----
(* C05 - template records are aligned with their channel list (dense and sparse storage).

   Matrices are 1-based sequences of rows; channel ids in records are 0-based (as in the code).
   Values are integers: the harness scales templates / amplitudes by 4 and uses whitening inverses
   whose entries are multiples of 1/4 (monomial or unit-triangular), so T * wmi4 is exact.
   I-layer (io/model.py): FindBest - amplitude = max - min per channel, best = FIRST arg-max,
   peak set = amplitude >= thr * max, close = the n nearest channels of best (squared distance,
   argsort: the order among equidistant channels is NOT specified -> nondeterministic), restricted
   to best's shank, intersected, ordered by decreasing amplitude (order among equal amplitudes not
   specified -> nondeterministic); GetDense (optionally an explicit channel list); GetSparse -
   drop signal-free and -1 columns, unwhiten on the sub-matrix wmi[ch, ch], reorder.
   P-layer: ValidDense / ValidExplicit / ValidSparse - the statement, relational on ties.       *)
EXTENDS VIO, FiniteSets
CONSTANTS NS, NCH, Vals, Wmis, PosSets, ShankSets, Thrs, NClosests

MatMul(A, B) == [r \in 1..Len(A) |-> [c \in 1..Len(B[1]) |-> SumSeq([k \in 1..Len(B) |-> A[r][k] * B[k][c]])]]
SeqMax(s) == CHOOSE x \in SeqSet(s) : \A y \in SeqSet(s) : y <= x
SeqMin(s) == CHOOSE x \in SeqSet(s) : \A y \in SeqSet(s) : y >= x
Col(M, c) == [r \in 1..Len(M) |-> M[r][c]]
Amp(U) == [c \in 1..Len(U[1]) |-> SeqMax(Col(U, c)) - SeqMin(Col(U, c))]
Dist2(pos, a, b) == (pos[a][1] - pos[b][1]) * (pos[a][1] - pos[b][1]) + (pos[a][2] - pos[b][2]) * (pos[a][2] - pos[b][2])
\* N is a valid set of the n nearest channels of p
ValidNearest(N, pos, p, n) == LET nc == Len(pos) IN
   /\ N \subseteq 1..nc /\ Cardinality(N) = Min2(n, nc)
   /\ \A a \in N, b \in (1..nc) \ N : Dist2(pos, a, p) <= Dist2(pos, b, p)
Cols(M, ch) == [r \in 1..Len(M) |-> [k \in 1..Len(ch) |-> M[r][ch[k]]]]
Distinct(s) == Cardinality(SeqSet(s)) = Len(s)
NonIncreasingAlong(amp, ch) == \A k \in 1..(Len(ch) - 1) : amp[ch[k]] >= amp[ch[k + 1]]
Perms(S) == {s \in [1..Cardinality(S) -> S] : Cardinality({s[k] : k \in 1..Cardinality(S)}) = Cardinality(S)}

\* ---------------------------------------------------------------------------- P-layer
\* rec = [ch (1-based here), tmpl, amp, best]; U = the (un)whitened template; thr = <<num, den>>
ValidDense(rec, U, pos, shank, nclosest, thr) ==
  LET amp == Amp(U)
      mx == SeqMax(amp)
      ch == rec.ch
  IN /\ Distinct(ch) /\ Len(ch) >= 1
     /\ NonIncreasingAlong(amp, ch) /\ amp[ch[1]] = mx                       \* peak channel first
     /\ rec.tmpl = Cols(U, ch)                                               \* column j = template on channel j
     /\ rec.amp = [k \in 1..Len(ch) |-> amp[ch[k]]]                          \* entry j = that column's amplitude
     /\ amp[rec.best] = mx
     /\ \E p \in {c \in 1..Len(amp) : amp[c] = mx} :
          \E N \in SUBSET (1..Len(amp)) :
             /\ ValidNearest(N, pos, p, nclosest)
             /\ SeqSet(ch) = {c \in N : shank[c] = shank[p] /\ amp[c] * thr[2] >= thr[1] * mx}
\* explicit channel list: the list is returned as given and the columns are aligned with it
ValidExplicit(rec, U, explicit) == rec.ch = explicit /\ rec.tmpl = Cols(U, explicit)
\* sparse storage: Ts = stored columns, cols = stored channel ids (1-based, 0 = unused), wmi4 full
ValidSparse(rec, Ts, cols, wmi4, unw) ==
  LET tmax == [k \in 1..Len(cols) |-> SeqMax([r \in 1..Len(Ts) |-> IF Ts[r][k] < 0 THEN -Ts[r][k] ELSE Ts[r][k]])]
      kept == {k \in 1..Len(cols) : tmax[k] > 0 /\ cols[k] # 0}             \* minus signal-free, minus unused
      keptSeq == [r \in 1..Cardinality(kept) |-> CHOOSE k \in kept : Cardinality({j \in kept : j < k}) = r - 1]
      chs == [r \in 1..Len(keptSeq) |-> cols[keptSeq[r]]]
      Tk == Cols(Ts, keptSeq)
      sub == [a \in 1..Len(chs) |-> [b \in 1..Len(chs) |-> wmi4[chs[a]][chs[b]]]]
      U == IF unw THEN MatMul(Tk, sub) ELSE [r \in 1..Len(Tk) |-> [k \in 1..Len(chs) |-> 4 * Tk[r][k]]]
      amp == Amp(U)                                                          \* indexed by position in chs
  IN /\ SeqSet(rec.ch) = SeqSet(chs) /\ Distinct(rec.ch) /\ Len(rec.ch) = Len(chs)
     /\ \A j \in 1..Len(rec.ch) :
           LET k == CHOOSE q \in 1..Len(chs) : chs[q] = rec.ch[j] IN
           /\ Col(rec.tmpl, j) = Col(U, k)
           /\ rec.amp[j] = amp[k]
     /\ \A j \in 1..(Len(rec.ch) - 1) : rec.amp[j] >= rec.amp[j + 1]
     /\ Len(rec.ch) >= 1 => rec.amp[1] = SeqMax(amp)

\* ---------------------------------------------------------------------------- I-layer (dense)
VARIABLES T, wmi, pos, shank, thr, nclosest, rec, pc
vars == <<T, wmi, pos, shank, thr, nclosest, rec, pc>>
Init == T = <<>> /\ wmi = <<>> /\ pos = <<>> /\ shank = <<>> /\ thr = <<0, 1>> /\ nclosest = 0
        /\ rec = [ch |-> <<>>] /\ pc = "pick"
Pick == /\ pc = "pick" /\ T' \in [1..NS -> [1..NCH -> Vals]]
        /\ pc' = "pick2" /\ UNCHANGED <<wmi, pos, shank, thr, nclosest, rec>>
Pick2 == /\ pc = "pick2" /\ wmi' \in Wmis /\ pos' \in PosSets /\ shank' \in ShankSets
         /\ thr' \in Thrs /\ nclosest' \in NClosests
         /\ Amp(MatMul(T, wmi')) # [c \in 1..NCH |-> 0]            \* a template with some signal
         /\ pc' = "ready" /\ UNCHANGED <<T, rec>>
FindBest ==
  /\ pc = "ready"
  /\ LET U == MatMul(T, wmi)
         amp == Amp(U)
         mx == SeqMax(amp)
         best == CHOOSE c \in 1..NCH : amp[c] = mx /\ \A d \in 1..NCH : amp[d] = mx => c <= d   \* np.argmax: first
         peak == {c \in 1..NCH : amp[c] * thr[2] >= thr[1] * mx}
     IN \E N \in SUBSET (1..NCH) :                                        \* argsort(d)[:n]: ties unspecified
          /\ ValidNearest(N, pos, best, nclosest)
          /\ LET close == {c \in N : shank[c] = shank[best]}
                 ids == peak \cap close
             IN \E order \in Perms(ids) :                                 \* argsort(amplitude[ids])[::-1]
                  /\ \A k \in 1..(Len(order) - 1) : amp[order[k]] >= amp[order[k + 1]]
                  /\ rec' = [ch |-> order, tmpl |-> Cols(U, order),
                             amp |-> [k \in 1..Len(order) |-> amp[order[k]]], best |-> best]
  /\ pc' = "done" /\ UNCHANGED <<T, wmi, pos, shank, thr, nclosest>>
Next == Pick \/ Pick2 \/ FindBest
Spec == Init /\ [][Next]_vars
DenseOk == pc = "done" => ValidDense(rec, MatMul(T, wmi), pos, shank, nclosest, thr)

Id3 == << <<1, 0, 0>>, <<0, 1, 0>>, <<0, 0, 1>> >>
Mono3 == << <<0, 2, 0>>, <<1, 0, 0>>, <<0, 0, 1>> >>
Tri3 == << <<1, 1, 0>>, <<0, 1, -1>>, <<0, 0, 1>> >>
WmisDef == {Id3, Mono3, Tri3}
PosDef == { << <<0, 0>>, <<1, 0>>, <<0, 1>> >>, << <<0, 0>>, <<0, 2>>, <<0, 1>> >> }
ShankDef == { <<0, 0, 0>>, <<0, 1, 0>> }
ThrsDef == { <<0, 1>>, <<1, 2>>, <<1, 1>> }
====
