SPECIFICATION TSpec
CONSTANTS
  MaxN = 0
  NCh = 3
  MaxParts = 0
POSTCONDITION Accepted
