SPECIFICATION Spec
CONSTANTS
  Depth = 0
  ATargets = {"a1"}
  MaxId = 5
  KeepHist = FALSE
CONSTRAINT IdBound
VIEW ViewDirs
INVARIANT Conservation
INVARIANT TemplatesInRange
PROPERTY Immutable
PROPERTY Frame
PROPERTY MergedIdsDisjoint
