SPECIFICATION Spec
CONSTANTS
  Depth = 10
  KeepHist = TRUE
  FreeStyle = TRUE
INVARIANT EmitCase
