SPECIFICATION Spec
CONSTANTS
  MaxN = 8
  NCh = 3
  MaxParts = 8
INVARIANT EmitCase
