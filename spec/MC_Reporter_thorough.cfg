SPECIFICATION Spec
CONSTANTS
  MaxV = 6
  Depth = 0
  KeepHist = FALSE
INVARIANT FlagIsArmed
PROPERTY AnnounceIffArmed
PROPERTY OnlyUpdatesAnnounce
