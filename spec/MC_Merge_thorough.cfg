SPECIFICATION Spec
CONSTANTS
  K = 3
INVARIANT Conservation
INVARIANT OrderedByTimeProbeIndex
INVARIANT IdsDisjoint
INVARIANT IdsShifted
INVARIANT ChannelBlocks
INVARIANT TemplateBlocks
INVARIANT PcIndShifted
INVARIANT TfIndShifted
INVARIANT SpikeTemplateOnOwnBlock
INVARIANT RawIndRoundTrip
