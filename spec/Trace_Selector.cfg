SPECIFICATION TSpec
CONSTANTS
  MaxSpikes = 0
  MaxT = 0
  CluIds = {}
  KeptSet = {}
  NReqSet = {}
  ReqLists = {}
POSTCONDITION Accepted
