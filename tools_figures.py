#!/usr/bin/env python3
"""Regenerate the measured-figures table of DESIGN.md (section 0.2) from evidence/*.json (last run of each check)."""
import json
from pathlib import Path

root = Path(__file__).parent
rows = []
for p in sorted((root / 'evidence').glob('C*.json')) + sorted((root / 'growth' / 'evidence').glob('G*.json')):
    e = json.loads(p.read_text())
    c = e['coverage']
    kinds = {}
    for ph in c.get('phases', []):
        k = ph.get('kind')
        if k in ('M', 'G', 'V', 'U', 'A'):
            kinds.setdefault(k, [0, 0])
            kinds[k][0] += 1
            kinds[k][1] += int(ph.get('distinct') or ph.get('records') or ph.get('cases') or 0)
    ph = ', '.join('%s x%d' % (k, v[0]) for k, v in sorted(kinds.items()))
    rows.append('| %s | %s | %s | %s | %s | %s | %s | %s s |' % (
        e['property_id'], e['tier'], '{:,}'.format(c['states']), ph, '{:,}'.format(c['evaluations']),
        '{:,}'.format(c['traces_validated_against_impl']), e.get('known_findings_matched', 0), round(e['wall_s'])))
text = ('| id | tier | TLC distinct states (all runs) | TLC runs (M model check, G generation, V trace validation, '
        'U upstream-test traces, A Apalache) | cases / records evaluated | implementation executions compared | '
        'known-finding cases | wall |\n|---|---|---|---|---|---|---|---|\n' + '\n'.join(rows) + '\n')
d = root / 'DESIGN.md'
s = d.read_text()
a, b = '<!-- figures:begin -->\n', '<!-- figures:end -->\n'
i, j = s.index(a) + len(a), s.index(b)
d.write_text(s[:i] + text + s[j:])
print(len(rows), 'rows')
