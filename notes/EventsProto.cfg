SPECIFICATION Spec
CONSTANTS Depth = 4
INVARIANT EmitOk
INVARIANT SilentCallsNothing
CHECK_DEADLOCK FALSE
