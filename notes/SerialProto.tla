---- MODULE SerialProto ----
(* Round-0 prototype for C18: JSON encode/decode of tagged value trees (utils/_misc.py:49-134)
   and the TSV cell typing (read_tsv/_try_make_number).                                        *)
EXTENDS Naturals, Integers, Sequences, FiniteSets, TLC
CONSTANTS AsPinned
VARIABLES d, done
\* ---- value model (tagged records)
VInt(x) == [t |-> "int", v |-> x]
VStr(x) == [t |-> "str", s |-> x]
VNone == [t |-> "none"]
VBool(x) == [t |-> "bool", b |-> x]
VList(x) == [t |-> "list", l |-> x]
VNp(dt, x) == [t |-> "npscalar", dt |-> dt, v |-> x]
VNd(dt, shape, layout, data) == [t |-> "nd", dt |-> dt, shape |-> shape, layout |-> layout, data |-> data]   \* data in C order
Dtypes == {"int16", "uint8", "float32", "bool"}
Arrays == {VNd(dt, sh[1], lay, sh[2]) : dt \in Dtypes, lay \in {"C", "F", "strided"},
              sh \in {<< <<3>>, <<1, 2, 3>> >>, << <<10>>, <<0,1,2,3,4,5,6,7,8,9>> >>, << <<11>>, <<0,1,2,3,4,5,6,7,8,9,10>> >>,
                      << <<0>>, <<>> >>, << <<2, 2>>, <<1, 2, 3, 4>> >>, << <<>>, <<7>> >>, << <<11, 1>>, <<0,1,2,3,4,5,6,7,8,9,10>> >>}}
Atoms == {VInt(3), VInt(-2), VStr("abc"), VNone, VBool(TRUE), VNp("int32", 4), VList(<<VInt(1), VStr("a"), VNone>>)} \cup Arrays
Keys == {[k |-> "int", v |-> 7], [k |-> "int", v |-> 0], [k |-> "int", v |-> -1], [k |-> "str", s |-> "name"]}
Init == d \in {<<k, x>> : k \in Keys, x \in Atoms} /\ done = FALSE
Next == done = FALSE /\ done' = TRUE /\ UNCHANGED d
Spec == Init /\ [][Next]_<<d, done>>
\* ---- JSON tree: ["jnum"|"jstr"|"jnull"|"jbool"|"jarr"|"jobj"]
RECURSIVE Enc(_)
Enc(x) == CASE x.t = "int" -> [j |-> "num", v |-> x.v]
            [] x.t = "str" -> [j |-> "str", s |-> x.s]
            [] x.t = "none" -> [j |-> "null"]
            [] x.t = "bool" -> [j |-> "bool", b |-> x.b]
            [] x.t = "npscalar" -> [j |-> "num", v |-> x.v]
            [] x.t = "list" -> [j |-> "arr", a |-> [i \in 1..Len(x.l) |-> Enc(x.l[i])]]
            [] x.t = "nd" -> IF Len(x.shape) = 1 /\ x.shape[1] <= 10
                             THEN [j |-> "arr", a |-> [i \in 1..Len(x.data) |-> [j |-> "num", v |-> x.data[i]]]]
                             ELSE [j |-> "obj", nd |-> TRUE, bytes |-> x.data, dtype |-> x.dt, shape |-> x.shape]  \* ascontiguousarray: C order
RECURSIVE Dec(_)
Dec(j) == CASE j.j = "num" -> VInt(j.v)
            [] j.j = "str" -> VStr(j.s)
            [] j.j = "null" -> VNone
            [] j.j = "bool" -> VBool(j.b)
            [] j.j = "arr" -> VList([i \in 1..Len(j.a) |-> Dec(j.a[i])])
            [] j.j = "obj" -> VNd(j.dtype, j.shape, "C", j.bytes)
\* keys: stringify ints, intify digit strings on load
KeyOut(k) == IF k.k = "int" THEN [c |-> "digits", neg |-> k.v < 0, v |-> k.v] ELSE [c |-> "text", s |-> k.s]
KeyIn(q) == IF q.c = "digits" /\ (~q.neg \/ ~AsPinned) THEN [k |-> "int", v |-> q.v]        \* '-1'.isdigit() is False
            ELSE IF q.c = "digits" THEN [k |-> "str", s |-> "minus-digits"] ELSE [k |-> "str", s |-> q.s]
\* ---- P-layer: normalisation
RECURSIVE Norm(_)
Norm(x) == CASE x.t = "npscalar" -> VInt(x.v)
             [] x.t = "nd" -> IF Len(x.shape) = 1 /\ x.shape[1] <= 10 THEN VList([i \in 1..Len(x.data) |-> VInt(x.data[i])])
                              ELSE VNd(x.dt, x.shape, "C", x.data)
             [] x.t = "list" -> VList([i \in 1..Len(x.l) |-> Norm(x.l[i])])
             [] OTHER -> x
RoundTrip == /\ KeyIn(KeyOut(d[1])) = d[1]
             /\ Dec(Enc(d[2])) = Norm(d[2])
====
