---- MODULE ClustersProto ----
(* Round-0 prototype for C07 (array._spikes_per_cluster, _unique, _index_of, _spikes_in_clusters)
   and C06's from_sparse (model.py:65-113).                                                       *)
EXTENDS Naturals, Integers, Sequences, FiniteSets, TLC
CONSTANTS MaxLen, Bits
VARIABLES v, done
Alpha == {0, 2, 3, 7}
Init == /\ \E len \in 1..MaxLen : v \in [1..len -> Alpha]
        /\ done = FALSE
Next == done = FALSE /\ done' = TRUE /\ UNCHANGED v
Spec == Init /\ [][Next]_<<v, done>>
n == Len(v)
\* ---- I-layer: stable argsort, first differences in the dtype's modular arithmetic, boundaries
Before(i, j) == v[i] < v[j] \/ (v[i] = v[j] /\ i < j)
Rank(i) == Cardinality({j \in 1..n : Before(j, i)})
Order == [r \in 1..n |-> CHOOSE i \in 1..n : Rank(i) = r - 1]            \* rel_spikes (1-based)
Sorted == [r \in 1..n |-> v[Order[r]]]
Mod == 2 ^ Bits
DiffU(r) == IF r = 1 THEN 1 ELSE (Sorted[r] - Sorted[r - 1]) % Mod          \* np.diff on an unsigned dtype wraps
Idx == SelectSeq([r \in 1..n |-> r], LAMBDA r : DiffU(r) > 0)
Clusters == [k \in 1..Len(Idx) |-> Sorted[Idx[k]]]
Group(k) == LET lo == Idx[k]  hi == IF k < Len(Idx) THEN Idx[k + 1] - 1 ELSE n
            IN [r \in 1..(hi - lo + 1) |-> Order[lo + r - 1] - 1]          \* 0-based spike indices
\* ---- P-layer
Present == {v[i] : i \in 1..n}
GroupP(c) == LET S == {i \in 1..n : v[i] = c}
                 RECURSIVE f(_)
                 f(T) == IF T = {} THEN <<>> ELSE LET m == CHOOSE x \in T : \A y \in T : x <= y IN <<m - 1>> \o f(T \ {m})
             IN f(S)
SpikesPerClusterOk == /\ {Clusters[k] : k \in 1..Len(Clusters)} = Present
                      /\ Len(Clusters) = Cardinality(Present)
                      /\ \A k \in 1..Len(Clusters) : Group(k) = GroupP(Clusters[k])
\* _unique: bincount / nonzero
Bincount == [x \in 0..7 |-> Cardinality({i \in 1..n : v[i] = x})]
UniqueI == SelectSeq([x \in 1..8 |-> x - 1], LAMBDA x : Bincount[x] > 0)
UniqueOk == {UniqueI[k] : k \in 1..Len(UniqueI)} = Present /\ \A k \in 1..(Len(UniqueI) - 1) : UniqueI[k] < UniqueI[k + 1]
\* _index_of(arr, lookup): lookup table of size max+2 with last slot -1
Lookups == {<<7, 0, 3, 2>>, <<0, 2, 3, 7>>, <<2, 7, 3, 0, 5>>}
IndexOfI(arr, lk) == LET m == (CHOOSE x \in {lk[i] : i \in 1..Len(lk)} : \A i \in 1..Len(lk) : lk[i] <= x) + 1
                         tmp == [s \in 0..m |-> IF s = m THEN -1
                                                ELSE IF \E i \in 1..Len(lk) : lk[i] = s THEN (CHOOSE i \in 1..Len(lk) : lk[i] = s) - 1 ELSE 0]
                     IN [i \in 1..Len(arr) |-> tmp[IF arr[i] = -1 THEN m ELSE arr[i]]]
IndexOfOk == \A lk \in Lookups : \A i \in 1..n : lk[IndexOfI(v, lk)[i] + 1] = v[i]
\* ---- from_sparse on a tiny family: one spike row, cols = first two entries of v (if distinct), data = <<10, 20>>
ChannelLists == {<<0>>, <<2, 0>>, <<7, 3, 2>>, <<5>>, <<3, 5, 0, 2>>}
FromSparseI(cols, data, chans) ==
   LET c1 == [k \in 1..Len(cols) |-> IF \E j \in 1..Len(chans) : chans[j] = cols[k] THEN cols[k] ELSE -1]
       loc == IndexOfI(c1, chans \o <<-1>>)          \* np.r_[channel_ids, -1]: the -1 entry is the discard column
       width == Len(chans) + 1
       out == [j \in 1..width |-> IF \E k \in 1..Len(cols) : loc[k] + 1 = j
                                  THEN data[CHOOSE k \in 1..Len(cols) : loc[k] + 1 = j /\ \A k2 \in 1..Len(cols) : loc[k2] + 1 = j => k2 <= k]
                                  ELSE 0]
   IN SubSeq(out, 1, Len(chans))
DenseP(cols, data, chans) == [j \in 1..Len(chans) |-> IF \E k \in 1..Len(cols) : cols[k] = chans[j]
                                                       THEN data[CHOOSE k \in 1..Len(cols) : cols[k] = chans[j]] ELSE 0]
FromSparseOk == (n >= 2 /\ v[1] # v[2]) => \A ch \in ChannelLists : FromSparseI(<<v[1], v[2]>>, <<10, 20>>, ch) = DenseP(<<v[1], v[2]>>, <<10, 20>>, ch)
====
