SPECIFICATION Spec
CONSTANTS K = 3
AsPinned = FALSE
INVARIANT Conservation
INVARIANT OrderedByTimeProbeIndex
INVARIANT IdsDisjoint
INVARIANT IdsShifted
INVARIANT ChannelBlocks
INVARIANT TemplateBlocks
INVARIANT PcIndShifted
INVARIANT TfIndShifted
CHECK_DEADLOCK FALSE
