SPECIFICATION Spec
CONSTANTS MaxLen = 4
MaxT = 4
Ids <- IdsDef
INVARIANT Correct
INVARIANT NoOverflowBins
INVARIANT SymOk
PROPERTY Terminates
CHECK_DEADLOCK FALSE
