SPECIFICATION Spec
CONSTANTS MaxLen = 5
Bits = 16
INVARIANT SpikesPerClusterOk
INVARIANT UniqueOk
INVARIANT IndexOfOk
INVARIANT FromSparseOk
CHECK_DEADLOCK FALSE
