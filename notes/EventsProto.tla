---- MODULE EventsProto ----
(* Round-0 prototype for C19 (emitter part): utils/event.py EventEmitter. *)
EXTENDS Naturals, Sequences, FiniteSets, TLC
CONSTANTS Depth
Events == {"a", "b"}
Senders == {"s1", "s2"}
Fns == {"f1", "f2", "f3"}
VARIABLES cbs, silent, obs, called, steps
vars == <<cbs, silent, obs, called, steps>>
Init == cbs = <<>> /\ silent = FALSE /\ obs = <<"init">> /\ called = <<>> /\ steps = 0
\* ---- I-layer: emit partitions non-last / last, filters, short-circuits on single
Match(c, e, s) == c.ev = e /\ (c.sender = "none" \/ c.sender = s)
Partitioned == SelectSeq(cbs, LAMBDA c : ~c.last) \o SelectSeq(cbs, LAMBDA c : c.last)
RECURSIVE Run(_, _, _, _)
Run(q, e, s, single) == IF q = <<>> THEN <<>>
                        ELSE IF Match(Head(q), e, s) THEN (IF single THEN <<Head(q).fn>> ELSE <<Head(q).fn>> \o Run(Tail(q), e, s, single))
                        ELSE Run(Tail(q), e, s, single)
Connect(f, e, s, l) == /\ cbs' = Append(cbs, [ev |-> e, sender |-> s, fn |-> f, last |-> l])
                       /\ obs' = <<"connect">> /\ called' = <<>> /\ UNCHANGED silent
Unconnect(x) == /\ cbs' = SelectSeq(cbs, LAMBDA c : c.fn # x /\ c.sender # x)
                /\ obs' = <<"unconnect">> /\ called' = <<>> /\ UNCHANGED silent
Reset == cbs' = <<>> /\ obs' = <<"reset">> /\ called' = <<>> /\ UNCHANGED silent
Toggle == silent' = ~silent /\ obs' = <<"toggle">> /\ called' = <<>> /\ UNCHANGED cbs       \* silent() enter or exit
SetSilent(b) == silent' = b /\ obs' = <<"set">> /\ called' = <<>> /\ UNCHANGED cbs
Emit(e, s, single) == /\ called' = IF silent THEN <<>> ELSE Run(Partitioned, e, s, single)
                      /\ obs' = <<"emit", e, s, IF single THEN "single" ELSE "all", IF silent THEN "None" ELSE "results">>
                      /\ UNCHANGED <<cbs, silent>>
Next == /\ steps < Depth /\ steps' = steps + 1
        /\ \/ \E f \in Fns, e \in Events, s \in Senders \cup {"none"}, l \in BOOLEAN : Connect(f, e, s, l)
           \/ \E x \in Fns \cup Senders : Unconnect(x)
           \/ Reset \/ Toggle \/ \E b \in BOOLEAN : SetSilent(b)
           \/ \E e \in Events, s \in Senders, sg \in BOOLEAN : Emit(e, s, sg)
Spec == Init /\ [][Next]_vars
\* ---- P-layer: the statement
Registered(e, s) == {i \in 1..Len(cbs) : cbs[i].ev = e /\ (cbs[i].sender = "none" \/ cbs[i].sender = s)}
\* i is called before j iff (i plain, j last) or (same kind and i registered first)
Precedes(i, j) == (~cbs[i].last /\ cbs[j].last) \/ (cbs[i].last = cbs[j].last /\ i < j)
ExpectedOrder(e, s) == LET R == Registered(e, s)
                           rank(i) == Cardinality({j \in R : Precedes(j, i)})
                       IN [r \in 1..Cardinality(R) |-> cbs[CHOOSE i \in R : rank(i) = r - 1].fn]
EmitOk == obs[1] = "emit" =>
            LET e == obs[2]  s == obs[3]  exp == ExpectedOrder(e, s) IN
            IF obs[5] = "None" THEN called = <<>>
            ELSE IF obs[4] = "single" THEN called = (IF exp = <<>> THEN <<>> ELSE <<exp[1]>>)
            ELSE called = exp
SilentCallsNothing == (obs[1] = "emit" /\ obs[5] = "None") => called = <<>>
====
