---- MODULE ReporterProto ----
EXTENDS Naturals, Integers, Sequences, TLC
CONSTANTS MaxV, FixedReset
VARIABLES value, vmax, hasCompleted, armed, announced, lastOp
vars == <<value, vmax, hasCompleted, armed, announced, lastOp>>
\* armed (P-layer history variable): since the last announcement the value was set below the
\* maximum or the maximum was raised.  Initially nothing has been announced.
Init == value = 0 /\ vmax = 0 /\ hasCompleted = FALSE /\ armed = TRUE /\ announced = FALSE /\ lastOp = "init"
SetValue(v, op) ==
   LET hc1 == IF v < vmax THEN FALSE ELSE hasCompleted
       fire == ~hc1 /\ v >= vmax
       armed1 == armed \/ v < vmax
   IN /\ value' = v
      /\ hasCompleted' = (hc1 \/ fire)
      /\ announced' = fire
      /\ armed' = IF fire THEN FALSE ELSE armed1
      /\ lastOp' = op
      /\ UNCHANGED vmax
Increment == value < MaxV /\ SetValue(value + 1, "update")
Set == \E v \in 0..MaxV : SetValue(v, "update")
SetComplete == SetValue(vmax, "update")
SetMax == \E m \in 0..MaxV :
            /\ vmax' = m
            /\ hasCompleted' = IF m > vmax THEN FALSE ELSE hasCompleted
            /\ armed' = (armed \/ m > vmax)
            /\ announced' = FALSE /\ lastOp' = "setmax" /\ UNCHANGED value
Reset == \E m \in (0..MaxV) \cup {-1} :      \* -1 = no new maximum given
            LET nm == IF m = -1 THEN vmax ELSE m IN
            /\ value' = 0 /\ vmax' = nm
            /\ hasCompleted' = IF FixedReset /\ 0 < nm THEN FALSE ELSE hasCompleted
            /\ armed' = (armed \/ 0 < nm \/ nm > vmax)
            /\ announced' = FALSE /\ lastOp' = "reset"
Next == Increment \/ Set \/ SetComplete \/ SetMax \/ Reset
Spec == Init /\ [][Next]_vars
\* Property: a value update announces completion iff it reaches the maximum while armed.
AnnounceIffArmed == [][ (lastOp' = "update") => (announced' = (value' >= vmax' /\ (armed \/ value' < vmax'))) ]_vars
====
