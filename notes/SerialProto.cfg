SPECIFICATION Spec
CONSTANTS AsPinned = FALSE
INVARIANT RoundTrip
CHECK_DEADLOCK FALSE
