---- MODULE ChunkingProto ----
(* Round-0 prototype for C16: array.chunk_bounds, array.excerpts/get_excerpts,
   traces._get_chunk_bounds, BaseEphysReader.iter_chunks, MtscompEphysReader.iter_chunks.
   One-shot computations are modelled as operators checked over all inputs in ASSUME-free
   invariants of a trivial state machine whose single variable ranges over the inputs.      *)
EXTENDS Naturals, Integers, Sequences, FiniteSets, TLC
CONSTANTS MaxN, MaxCS, MaxFiles, MaxTotal, MaxChunks, MaxThreads

\* ------------------------------------------------------------------ chunk_bounds generator
VARIABLES mode, n, cs, ov, pc, sStart, sEnd, kStart, kEnd, out,     \* generator
          sizes, chunk,                                               \* reader bounds
          nch, nth,                                                   \* compressed iterator
          ne, es                                                      \* excerpts
vars == <<mode, n, cs, ov, pc, sStart, sEnd, kStart, kEnd, out, sizes, chunk, nch, nth, ne, es>>

Rows(a, b) == {i \in 0..(n - 1) : a <= i /\ i < b}
RECURSIVE KeptSeq(_)
KeptSeq(s) == IF s = <<>> THEN <<>>
              ELSE LET lo == s[1][3]  hi == IF s[1][4] < n THEN s[1][4] ELSE n
                   IN (IF hi > lo THEN [i \in 1..(hi - lo) |-> lo + i - 1] ELSE <<>>) \o KeptSeq(Tail(s))

RECURSIVE Compositions(_, _)
Compositions(total, k) == IF k = 1 THEN {<<total>>}
                          ELSE UNION {{<<f>> \o r : r \in Compositions(total - f, k - 1)} : f \in 1..(total - k + 1)}

InitGen == /\ mode = "gen" /\ n \in 1..MaxN /\ cs \in 1..MaxCS /\ ov \in 0..(MaxCS - 1) /\ ov < cs
           /\ pc = "first" /\ sStart = 0 /\ sEnd = 0 /\ kStart = 0 /\ kEnd = 0 /\ out = <<>>
           /\ sizes = <<>> /\ chunk = 0 /\ nch = 0 /\ nth = 0 /\ ne = 0 /\ es = 0
InitBounds == /\ mode = "bounds" /\ \E t \in 1..MaxTotal, k \in 1..MaxFiles : k <= t /\ sizes \in Compositions(t, k)
              /\ chunk \in 1..(MaxTotal + 2)
              /\ n = 0 /\ cs = 0 /\ ov = 0 /\ pc = "done" /\ sStart = 0 /\ sEnd = 0 /\ kStart = 0 /\ kEnd = 0 /\ out = <<>>
              /\ nch = 0 /\ nth = 0 /\ ne = 0 /\ es = 0
InitCbin == /\ mode = "cbin" /\ nch \in 1..MaxChunks /\ nth \in 1..MaxThreads
            /\ n = 0 /\ cs = 0 /\ ov = 0 /\ pc = "done" /\ sStart = 0 /\ sEnd = 0 /\ kStart = 0 /\ kEnd = 0 /\ out = <<>>
            /\ sizes = <<>> /\ chunk = 0 /\ ne = 0 /\ es = 0
InitExc == /\ mode = "exc" /\ n \in 0..MaxN /\ ne \in 0..6 /\ es \in 1..6
           /\ cs = 0 /\ ov = 0 /\ pc = "done" /\ sStart = 0 /\ sEnd = 0 /\ kStart = 0 /\ kEnd = 0 /\ out = <<>>
           /\ sizes = <<>> /\ chunk = 0 /\ nch = 0 /\ nth = 0
Init == InitGen \/ InitBounds \/ InitCbin \/ InitExc

First == /\ mode = "gen" /\ pc = "first"
         /\ sStart' = 0 /\ sEnd' = cs /\ kStart' = 0 /\ kEnd' = cs - (ov \div 2)
         /\ out' = Append(out, <<0, cs, 0, cs - (ov \div 2)>>)
         /\ pc' = "loop" /\ UNCHANGED <<mode, n, cs, ov, sizes, chunk, nch, nth, ne, es>>
Loop == /\ mode = "gen" /\ pc = "loop" /\ sEnd - ov + cs < n
        /\ sStart' = sEnd - ov /\ sEnd' = sEnd - ov + cs
        /\ kStart' = kEnd /\ kEnd' = (sEnd - ov + cs) - (ov \div 2)
        /\ out' = IF sStart' < sEnd' THEN Append(out, <<sStart', sEnd', kStart', kEnd'>>) ELSE out
        /\ pc' = "loop" /\ UNCHANGED <<mode, n, cs, ov, sizes, chunk, nch, nth, ne, es>>
Last == /\ mode = "gen" /\ pc = "loop" /\ ~(sEnd - ov + cs < n)
        /\ sStart' = sEnd - ov /\ sEnd' = n /\ kStart' = kEnd /\ kEnd' = n
        /\ out' = IF sStart' < sEnd' THEN Append(out, <<sStart', sEnd', kStart', kEnd'>>) ELSE out
        /\ pc' = "done" /\ UNCHANGED <<mode, n, cs, ov, sizes, chunk, nch, nth, ne, es>>
Next == First \/ Loop \/ Last
Spec == Init /\ [][Next]_vars
FairSpec == Spec /\ WF_vars(Next)

\* P-layer, generator
Tiles == (mode = "gen" /\ pc = "done") => KeptSeq(out) = [i \in 1..n |-> i - 1]
Inside == mode = "gen" => \A k \in 1..Len(out) : Rows(out[k][3], out[k][4]) \subseteq Rows(out[k][1], out[k][2])
Size == mode = "gen" => \A k \in 1..Len(out) : Cardinality(Rows(out[k][1], out[k][2])) <= cs
Terminates == (mode = "gen") ~> (pc = "done")

\* ------------------------------------------------------------------ _get_chunk_bounds
\* range(a, b, step) as a sequence
RangeSeq(a, b, step) == [i \in 1..(IF b > a THEN ((b - a - 1) \div step) + 1 ELSE 0) |-> a + (i - 1) * step]
RECURSIVE CB(_, _, _, _)
CB(szs, k, nn, b) ==
  IF k > Len(szs) THEN b
  ELSE LET ch0 == RangeSeq(nn, nn + szs[k] + 1, chunk)
           ch  == IF b # <<>> /\ ch0 # <<>> /\ ch0[1] = b[Len(b)] THEN Tail(ch0) ELSE ch0
           b1  == b \o ch
           b2  == IF b1[Len(b1)] # nn + szs[k] THEN Append(b1, nn + szs[k]) ELSE b1
       IN CB(szs, k + 1, nn + szs[k], b2)
ChunkBoundsOf(szs) == CB(szs, 1, 0, <<>>)
RECURSIVE SumSeq(_)
SumSeq(s) == IF s = <<>> THEN 0 ELSE Head(s) + SumSeq(Tail(s))
PartBounds(szs) == {SumSeq(SubSeq(szs, 1, k)) : k \in 0..Len(szs)}
BoundsValid == mode = "bounds" =>
   LET b == ChunkBoundsOf(sizes) IN
   /\ b[1] = 0 /\ b[Len(b)] = SumSeq(sizes)
   /\ \A k \in 1..(Len(b) - 1) : b[k] < b[k + 1] /\ b[k + 1] - b[k] <= chunk
   /\ PartBounds(sizes) \subseteq {b[k] : k \in 1..Len(b)}

\* ------------------------------------------------------------------ compressed iter_chunks
\* chunk bounds of the mtscomp reader are abstract: bound k is the integer k (k = 0..nch)
CeilDiv(a, b) == (a + b - 1) \div b
Max2(a, b) == IF a > b THEN a ELSE b
Min2(a, b) == IF a < b THEN a ELSE b
BatchYield(batch) == LET f0 == nth * batch
                         l0 == Min2(nth * (batch + 1), nch)
                         f1 == Max2(f0 - 1, 0)
                         l1 == Max2(f1, l0 - 1)
                     IN <<f1, l1>>
CbinYields == LET nb == CeilDiv(nch, nth)
                  ys == [b \in 1..nb |-> BatchYield(b - 1)]
                  lastl == ys[nb][2]
              IN ys \o <<<<lastl, lastl + 1>>>>
IterTiles == mode = "cbin" =>
   LET ys == CbinYields
       ne_ == SelectSeq(ys, LAMBDA y : y[1] < y[2])
   IN /\ \A k \in 1..Len(ys) : ys[k][1] <= ys[k][2]
      /\ ne_ # <<>> /\ ne_[1][1] = 0 /\ ne_[Len(ne_)][2] = nch
      /\ \A k \in 1..(Len(ne_) - 1) : ne_[k][2] = ne_[k + 1][1]

\* ------------------------------------------------------------------ excerpts / get_excerpts
ExcStep == Max2((n - es) \div (ne - 1), es)      \* Python // is floor, also for negative numerators
RECURSIVE ExcFrom(_)
ExcFrom(i) == IF i >= ne \/ i * ExcStep >= n THEN <<>> ELSE <<<<i * ExcStep, Min2(i * ExcStep + es, n)>>>> \o ExcFrom(i + 1)
Excerpts == ExcFrom(0)
\* rows returned by get_excerpts
RECURSIVE RowsOf(_)
RowsOf(e) == IF e = <<>> THEN <<>> ELSE [i \in 1..(e[1][2] - e[1][1]) |-> e[1][1] + i - 1] \o RowsOf(Tail(e))
GetExcerpts == IF n < ne * es THEN [i \in 1..n |-> i - 1]
               ELSE IF ne = 0 THEN <<>>
               ELSE IF ne = 1 THEN [i \in 1..Min2(es, n) |-> i - 1]
               ELSE RowsOf(Excerpts)
ExcerptsValid == mode = "exc" =>
   /\ ne >= 2 => LET e == Excerpts IN
        /\ Len(e) <= ne
        /\ \A k \in 1..Len(e) : 0 <= e[k][1] /\ e[k][1] < e[k][2] /\ e[k][2] <= n /\ e[k][2] - e[k][1] <= es
        /\ \A k \in 1..(Len(e) - 1) : e[k][2] <= e[k + 1][1]
   /\ LET g == GetExcerpts IN
        /\ (n < ne * es => g = [i \in 1..n |-> i - 1])
        /\ (n >= ne * es => Len(g) <= ne * es)
        /\ \A k \in 1..(Len(g) - 1) : g[k] < g[k + 1]
        /\ \A k \in 1..Len(g) : 0 <= g[k] /\ g[k] < n
====
