SPECIFICATION Spec
CONSTANTS MaxV = 3
FixedReset = TRUE
PROPERTY AnnounceIffArmed
CHECK_DEADLOCK FALSE
