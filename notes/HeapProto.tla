---- MODULE HeapProto ----
(* Round-0 prototype for C02: derivation heap of lazy readers (_append_op), term-algebra
   commutation of lazy and eager evaluation, isolation of parents and siblings.          *)
EXTENDS Naturals, Integers, Sequences, FiniteSets, TLC
CONSTANTS MaxReaders, Aliasing      \* Aliasing = TRUE models the bug `clone._ops = self._ops` (shared list)
VARIABLES ops, owner, n
\* ops: list-object id -> sequence of ops ; owner: reader id -> list-object id (aliasing shares a list object)
vars == <<ops, owner, n>>
Arith == {"neg", "add2", "rsub3", "mul2", "floordiv2", "rpow2"}
ColOps == {<<"cols", <<2, 1>>>>, <<"cols", <<1>>>>, <<"cols", <<1, 2>>>>}
OpSet == {<<a, <<>>>> : a \in Arith} \cup ColOps
Init == ops = [i \in {1} |-> <<>>] /\ owner = [r \in {1} |-> 1] /\ n = 1
Derive(r, op) ==
   /\ n < MaxReaders
   /\ IF Aliasing
      THEN /\ ops' = [ops EXCEPT ![owner[r]] = Append(@, op)]                  \* the shared list is mutated
           /\ owner' = [x \in 1..(n + 1) |-> IF x = n + 1 THEN owner[r] ELSE owner[x]]
      ELSE /\ ops' = [i \in 1..(n + 1) |-> IF i = n + 1 THEN Append(ops[owner[r]], op) ELSE ops[i]]
           /\ owner' = [x \in 1..(n + 1) |-> IF x = n + 1 THEN n + 1 ELSE owner[x]]
   /\ n' = n + 1
Next == \E r \in 1..n, op \in OpSet : Derive(r, op)
Spec == Init /\ [][Next]_vars
OpsOf(r) == ops[owner[r]]
\* ---- term algebra over a 3-row x 2-column base: a cell is <<row, col, seq of arithmetic op names>>
Base == [r \in 1..3 |-> [c \in 1..2 |-> <<r, c, <<>>>>]]
ApplyOp(M, op) == IF op[1] = "cols"
                  THEN [r \in 1..Len(M) |-> [k \in 1..Len(op[2]) |-> IF op[2][k] <= Len(M[r]) THEN M[r][op[2][k]] ELSE <<0, 0, <<>>>>]]
                  ELSE [r \in 1..Len(M) |-> [c \in 1..Len(M[r]) |-> <<M[r][c][1], M[r][c][2], Append(M[r][c][3], op[1])>>]]
RECURSIVE ApplyAll(_, _)
ApplyAll(M, os) == IF os = <<>> THEN M ELSE ApplyAll(ApplyOp(M, Head(os)), Tail(os))
RowSel == {<<1>>, <<2, 3>>, <<1, 2, 3>>, <<3>>}
Rows(M, sel) == [k \in 1..Len(sel) |-> M[sel[k]]]
Lazy(r, sel) == ApplyAll(Rows(Base, sel), OpsOf(r))
Eager(r, sel) == Rows(ApplyAll(Base, OpsOf(r)), sel)
LazyEqEager == \A r \in 1..n, sel \in RowSel : Lazy(r, sel) = Eager(r, sel)
Isolation == [][\A r \in 1..n : OpsOf(r)' = OpsOf(r)]_vars
ChildOps == [][\E r \in 1..n : \E op \in OpSet : ops'[owner'[n + 1]] = Append(OpsOf(r), op)]_vars
====
