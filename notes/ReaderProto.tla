---- MODULE ReaderProto ----
EXTENDS Naturals, Integers, Sequences, FiniteSets, TLC, Json, CSV, SequencesExt
CONSTANTS MaxN
None == 99   \* sentinel for an absent slice bound

\* ---------- P-layer: NumPy row selection on range(n) ----------
NormBound(b, n, dflt) == IF b = None THEN dflt ELSE IF b < 0 THEN (IF b + n < 0 THEN 0 ELSE b + n) ELSE (IF b > n THEN n ELSE b)
NumpySlice(n, a, b) == LET s == NormBound(a, n, 0)  e == NormBound(b, n, n)
                       IN IF e > s THEN [i \in 1..(e - s) |-> s + i - 1] ELSE <<>>
NumpyInt(n, i) == <<IF i < 0 THEN i + n ELSE i>>

\* ---------- helpers ----------
RECURSIVE Cumsum(_, _)
Cumsum(s, acc) == IF s = <<>> THEN <<>> ELSE <<acc + Head(s)>> \o Cumsum(Tail(s), acc + Head(s))
Bounds(parts) == <<0>> \o Cumsum(parts, 0)
\* np.searchsorted(bounds, x, 'right') - 1  (0-based chunk index)
FindChunk(bounds, x) == Cardinality({k \in 1..Len(bounds) : bounds[k] <= x}) - 1
PyOr(x, d) == IF x = None \/ x = 0 THEN d ELSE x      \* Python's `x or d`
PyMod(x, m) == x % m                                    \* m > 0: TLC % is non-negative, like Python for m > 0
Min2(a, b) == IF a < b THEN a ELSE b
Max2(a, b) == IF a > b THEN a ELSE b

\* ---------- I-layer: transcription of _get_subitems (slice and int branches) ----------
SplitSlice(bounds, a, b) ==
  LET last == bounds[Len(bounds)]
      s0 == PyOr(a, bounds[1])
      e0 == PyOr(b, last)
      s1 == IF s0 < 0 THEN PyMod(s0, last) ELSE s0
      s  == Min2(s1, last)
      e1 == IF e0 < 0 THEN PyMod(e0, last) ELSE e0
      e  == Min2(e1, last)
      fc == FindChunk(bounds, s)
      lc == FindChunk(bounds, e - 1)
  IN [k \in 1..(IF lc >= fc THEN lc - fc + 1 ELSE 0) |->
        LET ch == fc + k - 1   i0 == bounds[ch + 1]   i1 == bounds[ch + 2]
        IN <<ch, Max2(0, s - i0), Min2(i1 - i0, e - i0)>>]
SplitInt(bounds, i) ==
  LET last == bounds[Len(bounds)]
      j == IF i < 0 THEN PyMod(i, last) ELSE i
      ch == FindChunk(bounds, j)
  IN <<<<ch, j - bounds[ch + 1], j - bounds[ch + 1] + 1>>>>
\* list branch: item is a strictly increasing sequence of global indices (0-based)
SplitList(bounds, item) ==
  LET chunks == [i \in 1..Len(item) |-> FindChunk(bounds, item[i])]
      uniq == {chunks[i] : i \in 1..Len(item)}
      RECURSIVE Asc(_)
      Asc(S) == IF S = {} THEN <<>> ELSE LET m == CHOOSE x \in S : \A y \in S : x <= y IN <<m>> \o Asc(S \ {m})
      us == Asc(uniq)
  IN [k \in 1..Len(us) |-> LET ch == us[k]  i0 == bounds[ch + 1]  i1 == bounds[ch + 2]
                                sel == SelectSeq(item, LAMBDA x : i0 <= x /\ x < i1)
                            IN <<ch, [j \in 1..Len(sel) |-> sel[j] - i0]>>]
RECURSIVE StackList(_, _)
StackList(bounds, sub) == IF sub = <<>> THEN <<>> ELSE
   LET h == Head(sub) IN [i \in 1..Len(h[2]) |-> bounds[h[1] + 1] + h[2][i]] \o StackList(bounds, Tail(sub))
AscSeq(S) == LET RECURSIVE f(_)
                   f(T) == IF T = {} THEN <<>> ELSE LET m == CHOOSE x \in T : \A y \in T : x <= y IN <<m>> \o f(T \ {m})
               IN f(S)
\* rows read from each part, concatenated (global ids)
RECURSIVE Stack(_, _)
Stack(bounds, sub) == IF sub = <<>> THEN <<>> ELSE
   LET h == Head(sub) IN [i \in 1..(IF h[3] > h[2] THEN h[3] - h[2] ELSE 0) |-> bounds[h[1] + 1] + h[2] + i - 1] \o Stack(bounds, Tail(sub))

VARIABLES parts, req, sub, out, pc
vars == <<parts, req, sub, out, pc>>
RECURSIVE Compositions(_)
Compositions(n) == IF n = 0 THEN {<<>>} ELSE UNION {{<<f>> \o r : r \in Compositions(n - f)} : f \in 1..n}
N(p) == Bounds(p)[Len(p) + 1]
BoundVals(n) == (-n..n) \cup {None}
Init == /\ parts \in UNION {Compositions(n) : n \in 1..MaxN}
        /\ req = <<>> /\ sub = <<>> /\ out = <<>> /\ pc = "idle"
Request == /\ pc = "idle"
           /\ \/ \E i \in (-N(parts))..(N(parts) - 1) : req' = <<"int", i, 0>>
              \/ \E a \in BoundVals(N(parts)), b \in BoundVals(N(parts)) :
                    /\ NumpySlice(N(parts), a, b) # <<>>
                    /\ req' = <<"slice", a, b>>
              \/ \E S \in (SUBSET (0..(N(parts) - 1))) \ {{}} : req' = <<"list", AscSeq(S), 0>>
           /\ pc' = "req" /\ UNCHANGED <<parts, sub, out>>
Split == /\ pc = "req"
         /\ sub' = IF req[1] = "int" THEN SplitInt(Bounds(parts), req[2])
                   ELSE IF req[1] = "list" THEN SplitList(Bounds(parts), req[2])
                   ELSE SplitSlice(Bounds(parts), req[2], req[3])
         /\ pc' = "split" /\ UNCHANGED <<parts, req, out>>
Read == /\ pc = "split" /\ out' = (IF req[1] = "list" THEN StackList(Bounds(parts), sub) ELSE Stack(Bounds(parts), sub)) /\ pc' = "done" /\ UNCHANGED <<parts, req, sub>>
Next == Request \/ Split \/ Read
Spec == Init /\ [][Next]_vars
Expected == IF req[1] = "int" THEN NumpyInt(N(parts), req[2])
            ELSE IF req[1] = "list" THEN req[2]
            ELSE NumpySlice(N(parts), req[2], req[3])
SplitCorrect == pc = "done" => out = Expected
WellFormed == (pc = "split" /\ req[1] # "list") =>
                 /\ sub # <<>>
                 /\ \A k \in 1..Len(sub) : /\ sub[k][2] < sub[k][3] /\ sub[k][2] >= 0
                                           /\ sub[k][3] <= parts[sub[k][1] + 1]
                 /\ \A q \in 1..(Len(sub) - 1) : sub[q][1] < sub[q + 1][1]
====
