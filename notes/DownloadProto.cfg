SPECIFICATION Spec
CONSTANTS MaxScript = 3
FlakyMd5 = TRUE
INVARIANT ReturnedImpliesValid
INVARIANT AtMostTwoGets
INVARIANT PersistentMismatchRaises
PROPERTY Terminates
PROPERTY NoRedundantGet
PROPERTY ExactlyOneRetry
CHECK_DEADLOCK FALSE
