---- MODULE TmplTrace ----
EXTENDS Naturals, Integers, Sequences, FiniteSets, TLC, Json, IOUtils
Trace == ndJsonDeserialize("/tmp/scratch/tla/c05_trace.ndjson")
VARIABLE i
\* all matrices are 1-based sequences of rows; channels in records are 0-based
RECURSIVE SumSeq(_)
SumSeq(s) == IF s = <<>> THEN 0 ELSE Head(s) + SumSeq(Tail(s))
MatMul(A, B) == [r \in 1..Len(A) |-> [c \in 1..Len(B[1]) |-> SumSeq([k \in 1..Len(B) |-> A[r][k] * B[k][c]])]]
SeqMax(s) == CHOOSE x \in {s[k] : k \in 1..Len(s)} : \A y \in {s[k] : k \in 1..Len(s)} : y <= x
SeqMin(s) == CHOOSE x \in {s[k] : k \in 1..Len(s)} : \A y \in {s[k] : k \in 1..Len(s)} : y >= x
Col(M, c) == [r \in 1..Len(M) |-> M[r][c]]
Amp(U) == [c \in 1..Len(U[1]) |-> SeqMax(Col(U, c)) - SeqMin(Col(U, c))]
Dist2(pos, a, b) == (pos[a][1] - pos[b][1]) * (pos[a][1] - pos[b][1]) + (pos[a][2] - pos[b][2]) * (pos[a][2] - pos[b][2])
\* N is a valid set of the n nearest channels of p
ValidNearest(N, pos, p, n) == LET nc == Len(pos) IN
   /\ N \subseteq 1..nc /\ Cardinality(N) = (IF n < nc THEN n ELSE nc)
   /\ \A a \in N, b \in (1..nc) \ N : Dist2(pos, a, p) <= Dist2(pos, b, p)
ValidRecord(e) ==
  LET U == IF e.unw THEN MatMul(e.T, e.wmi4) ELSE e.T
      amp == Amp(U)
      nc == Len(amp)
      mx == SeqMax(amp)
      ch == [k \in 1..Len(e.ch) |-> e.ch[k] + 1]
      chset == {ch[k] : k \in 1..Len(ch)}
  IN /\ Cardinality(chset) = Len(ch)                                  \* distinct
     /\ \A k \in 1..(Len(ch) - 1) : amp[ch[k]] >= amp[ch[k + 1]]       \* decreasing amplitude
     /\ Len(ch) >= 1 /\ amp[ch[1]] = mx                                \* peak first
     /\ Len(e.amp) = Len(ch) /\ \A k \in 1..Len(ch) : e.amp[k] = amp[ch[k]]
     /\ \A k \in 1..Len(ch) : Col(e.tmpl, k) = Col(U, ch[k])
     /\ amp[e.best + 1] = mx
     /\ \E p \in {c \in 1..nc : amp[c] = mx} :
          \E N \in SUBSET (1..nc) :
             /\ ValidNearest(N, e.pos, p, e.nclosest)
             /\ chset = {c \in N : e.shank[c] = e.shank[p] /\ amp[c] * e.thr[2] >= e.thr[1] * mx}
Init == i = 1 /\ TLCSet(1, {})
Next == /\ i <= Len(Trace)
        /\ IF ValidRecord(Trace[i]) THEN TRUE ELSE TLCSet(1, TLCGet(1) \cup {Trace[i].id})
        /\ i' = i + 1
Spec == Init /\ [][Next]_i
Accepted == /\ TLCGet("stats").diameter - 1 = Len(Trace)
            /\ PrintT(<<"REJECTED", TLCGet(1)>>)
            /\ TLCGet(1) = {}
====
