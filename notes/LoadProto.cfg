SPECIFICATION Spec
CONSTANTS AsPinned = FALSE
INVARIANT WellFormedLoads
INVARIANT KSWins
INVARIANT Defaults
INVARIANT LoadFrame
CHECK_DEADLOCK FALSE
