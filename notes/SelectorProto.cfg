SPECIFICATION Spec
CONSTANTS MaxSpikes = 3
MaxT = 3
INVARIANT KeptOk
INVARIANT ParityIsMembership
INVARIANT ResultOk
CHECK_DEADLOCK FALSE
