---- MODULE WaveProto ----
(* Round-0 prototype for C03: _extract_waveform window arithmetic, iter_waveforms chunk assignment,
   export_waveforms / NpyWriter declared-vs-written bookkeeping.                                 *)
EXTENDS Naturals, Integers, Sequences, FiniteSets, TLC
CONSTANTS MaxN, MaxSpikes, AsPinned
VARIABLES n, grid, spikes, nsw, dt, fk, unsignedSamples,      \* inputs
          k, written, writtenDt, declDt, declCount, pc, err
vars == <<n, grid, spikes, nsw, dt, fk, unsignedSamples, k, written, writtenDt, declDt, declCount, pc, err>>
ZERO == -1                                       \* the zero cell
\* ---------------- P-layer: the window of spike s is rows s - nsw\div 2 .. +nsw-1, ZERO outside [0,n)
Window(s) == [j \in 1..nsw |-> LET r == s - (nsw \div 2) + j - 1 IN IF r >= 0 /\ r < n THEN r ELSE ZERO]
\* ---------------- I-layer: _extract_waveform
\* unsigned arithmetic of numpy scalars: (sample - a) wraps modulo 2^64; modelled as "huge"
HUGE == 1000000
ExtractOne(s) ==
  LET a == nsw \div 2
      b == nsw - a
      t0 == IF AsPinned /\ unsignedSamples /\ s - a < 0 THEN HUGE ELSE s - a
      t1 == s + b
      lo == IF t0 > 0 THEN t0 ELSE 0
      \* traces[max(0,t0):t1] through the reader: an empty selection raises (np.vstack of nothing)
      body == IF lo < (IF t1 < n THEN t1 ELSE n) THEN [i \in 1..((IF t1 < n THEN t1 ELSE n) - lo) |-> lo + i - 1] ELSE <<>>
      top == IF t0 < 0 THEN [i \in 1..(IF AsPinned THEN nsw - Len(body) ELSE -t0) |-> ZERO] ELSE <<>>
      w1 == top \o body
      bot == IF t1 > n THEN [i \in 1..(nsw - Len(w1)) |-> ZERO] ELSE <<>>
  IN IF body = <<>> THEN <<-99>> ELSE w1 \o bot
\* ---------------- inputs
RECURSIVE SortedSeqs(_, _)
SortedSeqs(len, lo) == IF len = 0 THEN {<<>>} ELSE UNION {{<<v>> \o r : r \in SortedSeqs(len - 1, v)} : v \in lo..(n - 1)}
Grids(nn) == {g \in SUBSET (0..nn) : 0 \in g /\ nn \in g}
SetToSortedSeq(S) == LET RECURSIVE f(_)
                         f(T) == IF T = {} THEN <<>> ELSE LET m == CHOOSE x \in T : \A y \in T : x <= y IN <<m>> \o f(T \ {m})
                     IN f(S)
Init == /\ n \in 1..MaxN /\ nsw \in 1..4 /\ dt \in {"int16", "float32", "float64"} /\ fk \in {"int", "float"}
        /\ unsignedSamples \in BOOLEAN
        /\ grid \in {SetToSortedSeq(g) : g \in Grids(n)}
        /\ \E len \in 1..MaxSpikes : spikes \in SortedSeqs(len, 0)
        /\ k = 1 /\ written = <<>> /\ writtenDt = "none" /\ pc = "open" /\ err = FALSE
        /\ declDt = "none" /\ declCount = 0
\* NumPy-2 result dtype of  waveforms * sample2unit
Promote(d, f) == IF d = "int16" THEN (IF f = "int" THEN "int16" ELSE "float64") ELSE d
Open == /\ pc = "open" /\ declDt' = "float64" /\ declCount' = Len(spikes) /\ pc' = "chunks"
        /\ UNCHANGED <<n, grid, spikes, nsw, dt, fk, unsignedSamples, k, written, writtenDt, err>>
InChunk(s, i0, i1) == i0 <= s /\ s < i1             \* _find_chunks([i0,i1], s) == 0
ProcessChunk ==
  /\ pc = "chunks" /\ k < Len(grid)
  /\ LET i0 == grid[k]  i1 == grid[k + 1]
         idx == SelectSeq([i \in 1..Len(spikes) |-> i], LAMBDA i : InChunk(spikes[i], i0, i1))
         ws == [j \in 1..Len(idx) |-> ExtractOne(spikes[idx[j]])]
         bad == \E j \in 1..Len(ws) : ws[j] = <<-99>>
     IN IF bad THEN /\ err' = TRUE /\ pc' = "raised" /\ UNCHANGED <<written, writtenDt, k>>
        ELSE /\ written' = written \o [j \in 1..Len(idx) |-> <<idx[j], ws[j]>>]
             /\ writtenDt' = IF idx = <<>> THEN writtenDt
                             ELSE IF AsPinned THEN Promote(dt, fk) ELSE declDt     \* repaired: cast to the declared dtype
             /\ k' = k + 1 /\ UNCHANGED <<err, pc>>
  /\ UNCHANGED <<n, grid, spikes, nsw, dt, fk, unsignedSamples, declDt, declCount>>
Close == /\ pc = "chunks" /\ k = Len(grid) /\ pc' = "done"
         /\ UNCHANGED <<n, grid, spikes, nsw, dt, fk, unsignedSamples, k, written, writtenDt, declDt, declCount, err>>
Next == Open \/ ProcessChunk \/ Close
Spec == Init /\ [][Next]_vars
\* ---------------- properties
NeverRaises == ~err
EachSpikeOnceInOrder == pc = "done" => /\ Len(written) = Len(spikes)
                                       /\ \A i \in 1..Len(written) : written[i][1] = i
WindowsCorrect == pc = "done" => \A i \in 1..Len(written) : written[i][2] = Window(spikes[i])
DeclaredEqualsWritten == pc = "done" => /\ declCount = Len(written) /\ (written # <<>> => writtenDt = declDt)
====
