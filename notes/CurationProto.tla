---- MODULE CurationProto ----
(* Round-0 prototype for C08: curation histories (merge / split / reassign) and
   model.get_merge_map, the _load_data branch, cluster_waveforms (all-channel case).      *)
EXTENDS Naturals, Integers, Sequences, FiniteSets, TLC
CONSTANTS NSpikes, NTemplates, Depth, MaxId, AsPinned
VARIABLES st, sc, steps
vars == <<st, sc, steps>>
Init == /\ st \in [1..NSpikes -> 0..(NTemplates - 1)] /\ sc = st /\ steps = 0
MaxC == CHOOSE x \in {sc[i] : i \in 1..NSpikes} : \A i \in 1..NSpikes : sc[i] <= x
Used == {sc[i] : i \in 1..NSpikes}
Merge == \E a \in Used, b \in Used, new \in (MaxC + 1)..(MaxC + 2) :
            /\ a < b /\ new <= MaxId
            /\ sc' = [i \in 1..NSpikes |-> IF sc[i] = a \/ sc[i] = b THEN new ELSE sc[i]]
Split == \E a \in Used : LET S == {i \in 1..NSpikes : sc[i] = a} IN
            /\ Cardinality(S) >= 2 /\ MaxC + 2 <= MaxId
            /\ \E P \in SUBSET S : /\ P # {} /\ P # S
                                  /\ sc' = [i \in 1..NSpikes |-> IF i \in P THEN MaxC + 1 ELSE IF i \in S THEN MaxC + 2 ELSE sc[i]]
Reassign == \E i \in 1..NSpikes, new \in 0..MaxId : new # sc[i] /\ sc' = [sc EXCEPT ![i] = new]
Next == steps < Depth /\ steps' = steps + 1 /\ UNCHANGED st /\ (Merge \/ Split \/ Reassign)
Spec == Init /\ [][Next]_vars
\* ---- I-layer: get_merge_map (loop over unique templates, unique cluster ids of their spikes)
MaxCNow == CHOOSE x \in {sc[i] : i \in 1..NSpikes} : \A i \in 1..NSpikes : sc[i] <= x
TemplatesUsed == {st[i] : i \in 1..NSpikes}
SetToSeq(S) == LET RECURSIVE f(_)
                   f(T) == IF T = {} THEN <<>> ELSE LET m == CHOOSE x \in T : \A y \in T : x <= y IN <<m>> \o f(T \ {m})
               IN f(S)
RECURSIVE MM(_, _)
MM(tseq, acc) == IF tseq = <<>> THEN acc
                 ELSE LET t == Head(tseq)
                          cl == {sc[i] : i \in {i \in 1..NSpikes : st[i] = t}}
                      IN MM(Tail(tseq), [c \in 0..MaxCNow |-> IF c \in cl THEN Append(acc[c], t) ELSE acc[c]])
MergeMapI == MM(SetToSeq(TemplatesUsed), [c \in 0..MaxCNow |-> <<>>])
NanIdxI == {c \in 0..MaxCNow : MergeMapI[c] = <<>>}
Curated == sc # st
NTemplatesFile == NTemplates                    \* templates.npy always holds all templates
NClustersI == IF Curated THEN MaxCNow + 1
              ELSE IF AsPinned THEN (CHOOSE x \in TemplatesUsed : \A y \in TemplatesUsed : y <= x) + 1 ELSE NTemplatesFile
\* ---- P-layer
Provenance(c) == {st[i] : i \in {i \in 1..NSpikes : sc[i] = c}}
MergeMapOk == Curated => /\ \A c \in 0..MaxCNow : {MergeMapI[c][k] : k \in 1..Len(MergeMapI[c])} = Provenance(c)
                         /\ \A c \in 0..MaxCNow : Len(MergeMapI[c]) = Cardinality(Provenance(c))
                         /\ NanIdxI = {c \in 0..MaxCNow : Provenance(c) = {}}
NClustersOk == ~Curated => NClustersI = NTemplatesFile
\* weighted mean of abstract one-number templates  W[t] = 10*(t+1):  <<sum count*W, sum count>>
W(t) == 10 * (t + 1)
Count(c, t) == Cardinality({i \in 1..NSpikes : sc[i] = c /\ st[i] = t})
MeanI(c) == LET ts == MergeMapI[c] IN
            <<LET RECURSIVE s(_) s(q) == IF q = <<>> THEN 0 ELSE Count(c, Head(q)) * W(Head(q)) + s(Tail(q)) IN s(ts),
              LET RECURSIVE k(_) k(q) == IF q = <<>> THEN 0 ELSE Count(c, Head(q)) + k(Tail(q)) IN k(ts)>>
MeanP(c) == LET S == {i \in 1..NSpikes : sc[i] = c} IN
            <<LET RECURSIVE s(_) s(T) == IF T = {} THEN 0 ELSE LET i == CHOOSE x \in T : TRUE IN W(st[i]) + s(T \ {i}) IN s(S), Cardinality(S)>>
MeanOk == Curated => \A c \in 0..MaxCNow : Provenance(c) # {} => MeanI(c) = MeanP(c)
====
