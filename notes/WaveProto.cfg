SPECIFICATION Spec
CONSTANTS MaxN = 6
MaxSpikes = 2
AsPinned = FALSE
INVARIANT NeverRaises
INVARIANT EachSpikeOnceInOrder
INVARIANT WindowsCorrect
INVARIANT DeclaredEqualsWritten
CHECK_DEADLOCK FALSE
