SPECIFICATION FairSpec
CONSTANTS MaxN = 30
MaxCS = 12
MaxFiles = 3
MaxTotal = 9
MaxChunks = 9
MaxThreads = 4
INVARIANT Tiles
INVARIANT Inside
INVARIANT Size
INVARIANT BoundsValid
INVARIANT IterTiles
INVARIANT ExcerptsValid
PROPERTY Terminates
CHECK_DEADLOCK FALSE
