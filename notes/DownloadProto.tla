---- MODULE DownloadProto ----
(* Round-0 prototype for C20: datasets.download_file under scripted server behaviour. *)
EXTENDS Naturals, Sequences, FiniteSets, TLC
CONSTANTS MaxScript, FlakyMd5        \* FlakyMd5: checksum availability may change between requests (outside the property)
VARIABLES file, script, md5, md5script, pc, gets, status
vars == <<file, script, md5, md5script, pc, gets, status>>
Resp == {"good", "corrupt", "e404"}
Md5Modes == {"correct", "wrong", "missing"}
RECURSIVE Seqs(_, _)
Seqs(S, len) == IF len = 0 THEN {<<>>} ELSE {<<x>> \o r : x \in S, r \in Seqs(S, len - 1)}
Init == /\ file \in {"absent", "valid", "corrupt"}
        /\ script \in UNION {Seqs(Resp, l) : l \in 0..MaxScript}
        /\ md5 \in Md5Modes
        /\ md5script \in (IF FlakyMd5 THEN Seqs(Md5Modes, 3) ELSE {<<>>})
        /\ pc = "start" /\ gets = 0 /\ status = "running"
\* tri-state check: TRUE / FALSE / "none"
CurMd5 == IF FlakyMd5 THEN Head(md5script) ELSE md5
Check(f, m) == IF m = "missing" THEN "none" ELSE IF m = "correct" THEN (IF f = "valid" THEN "true" ELSE "false") ELSE "false"
ConsumeMd5 == md5script' = (IF FlakyMd5 THEN Tail(md5script) ELSE md5script)
\* GET of the data URL: consumes one scripted response; exhausted script = connection error
Fetch(next) == IF script = <<>> \/ Head(script) = "e404"
               THEN /\ status' = "raised" /\ pc' = "end" /\ file' = file
                    /\ script' = (IF script = <<>> THEN script ELSE Tail(script)) /\ gets' = gets + 1
               ELSE /\ file' = (IF Head(script) = "good" THEN "valid" ELSE "corrupt")
                    /\ script' = Tail(script) /\ gets' = gets + 1 /\ pc' = next /\ status' = status
PreCheck == /\ pc = "start"
            /\ IF file = "absent" THEN pc' = "fetch1" /\ status' = status /\ UNCHANGED md5script
               ELSE /\ ConsumeMd5
                    /\ IF Check(file, CurMd5) = "true" THEN pc' = "end" /\ status' = "returned"
                       ELSE pc' = "fetch1" /\ status' = status
            /\ UNCHANGED <<file, script, md5, gets>>
Fetch1 == pc = "fetch1" /\ Fetch("verify1") /\ UNCHANGED <<md5, md5script>>
Verify1 == /\ pc = "verify1" /\ ConsumeMd5
           /\ IF Check(file, CurMd5) = "false" THEN pc' = "fetch2" /\ status' = status
              ELSE pc' = "end" /\ status' = "returned"
           /\ UNCHANGED <<file, script, md5, gets>>
Fetch2 == pc = "fetch2" /\ Fetch("verify2") /\ UNCHANGED <<md5, md5script>>
Verify2 == /\ pc = "verify2" /\ ConsumeMd5
           /\ IF Check(file, CurMd5) = "false" THEN status' = "raised" ELSE status' = "returned"
           /\ pc' = "end" /\ UNCHANGED <<file, script, md5, gets>>
Next == PreCheck \/ Fetch1 \/ Verify1 \/ Fetch2 \/ Verify2
Spec == Init /\ [][Next]_vars /\ WF_vars(Next)
\* ---- P-layer
ReturnedImpliesValid == (status = "returned" /\ ~FlakyMd5 /\ md5 # "missing") => (md5 = "correct" /\ file = "valid")
AtMostTwoGets == gets <= 2
Terminates == <>(pc = "end")
NoRedundantGet == [][(pc = "start" /\ file = "valid" /\ ~FlakyMd5 /\ md5 = "correct") => (pc' = "end" /\ gets' = 0)]_vars
ExactlyOneRetry == [][(pc = "verify1" /\ ~FlakyMd5 /\ Check(file, md5) = "false") => pc' = "fetch2"]_vars
PersistentMismatchRaises == (pc = "end" /\ ~FlakyMd5 /\ md5 # "missing" /\ ~(md5 = "correct" /\ file = "valid")) => status = "raised"
====
