SPECIFICATION Spec
CONSTANTS MaxReaders = 4
Aliasing = TRUE
INVARIANT LazyEqEager
PROPERTY Isolation
CHECK_DEADLOCK FALSE
