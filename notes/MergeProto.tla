---- MODULE MergeProto ----
(* Prototype of the Merger pipeline (phylib/io/merge.py) for round-0 design grounding.
   Probes are abstract records; files of the output directory are variables.          *)
EXTENDS Naturals, Integers, Sequences, FiniteSets, TLC
CONSTANTS K,            \* number of probes
          AsPinned      \* TRUE: transcribe the pinned code; FALSE: the repaired transcription
VARIABLES probes, pc, spikeOrder, outTimes, outClu, outTmp, cluOff, tmpOff,
          chanOff, outChanMap, outChanProbe, outTemplates, outPcInd, outTfInd
vars == <<probes, pc, spikeOrder, outTimes, outClu, outTmp, cluOff, tmpOff, chanOff, outChanMap, outChanProbe, outTemplates, outPcInd, outTfInd>>

RECURSIVE SumTo(_, _)
SumTo(f, n) == IF n = 0 THEN 0 ELSE f[n] + SumTo(f, n - 1)
SeqMaxOf(s) == CHOOSE x \in {s[i] : i \in 1..Len(s)} : \A i \in 1..Len(s) : s[i] <= x
RECURSIVE ConcatAll(_, _)
ConcatAll(f, n) == IF n = 0 THEN <<>> ELSE ConcatAll(f, n - 1) \o f[n]

\* a probe: times (non-decreasing), clusters, templates per spike; nch channels; ntm templates;
\* chmap: raw channel numbers; pcind: per template one stored channel index; tfind: per template one template index
ProbeSet == { [times |-> t, sc |-> c, st |-> s, nch |-> nc, ntm |-> nt,
               chmap |-> cm, pcind |-> [i \in 1..nt |-> nc - 1], tfind |-> [i \in 1..nt |-> nt - 1]] :
              t \in {<<0>>, <<0, 1>>}, nc \in 1..2, nt \in 1..2, cm \in {<<0>>, <<2>>, <<0, 1>>, <<1, 0>>, <<0, 3>>},
              c \in {<<0>>, <<2>>, <<0, 2>>, <<2, 0>>}, s \in {<<0>>, <<1>>, <<0, 1>>, <<1, 0>>} }
WellFormed(p) == /\ Len(p.times) = Len(p.sc) /\ Len(p.sc) = Len(p.st) /\ Len(p.chmap) = p.nch
                 /\ \A i \in 1..Len(p.st) : p.st[i] < p.ntm
Init == /\ probes \in [1..K -> {p \in ProbeSet : WellFormed(p)}]
        /\ pc = "times" /\ spikeOrder = <<>> /\ outTimes = <<>> /\ outClu = <<>> /\ outTmp = <<>>
        /\ cluOff = <<>> /\ tmpOff = <<>> /\ chanOff = <<>> /\ outChanMap = <<>> /\ outChanProbe = <<>>
        /\ outTemplates = <<>> /\ outPcInd = <<>> /\ outTfInd = <<>>

\* tagged spikes <<probe, index>> in concatenation order
Tagged == ConcatAll([k \in 1..K |-> [i \in 1..Len(probes[k].times) |-> <<k, i>>]], K)
TimeOf(x) == probes[x[1]].times[x[2]]
\* stable argsort by time of the concatenation = sort by <<time, position in concatenation>>
Before(x, y) == \/ TimeOf(x) < TimeOf(y)
                \/ TimeOf(x) = TimeOf(y) /\ (x[1] < y[1] \/ (x[1] = y[1] /\ x[2] < y[2]))
StableOrder == LET T == Tagged  n == Len(T)
                   rank(i) == Cardinality({j \in 1..n : Before(T[j], T[i])})
               IN [r \in 1..n |-> T[CHOOSE i \in 1..n : rank(i) = r - 1]]

WriteTimes == /\ pc = "times" /\ spikeOrder' = StableOrder
              /\ outTimes' = [r \in 1..Len(StableOrder) |-> TimeOf(StableOrder[r])]
              /\ pc' = "clusters"
              /\ UNCHANGED <<probes, outClu, outTmp, cluOff, tmpOff, chanOff, outChanMap, outChanProbe, outTemplates, outPcInd, outTfInd>>
RECURSIVE RunOff(_, _, _)
RunOff(sizes, k, acc) == IF k > Len(sizes) THEN <<>> ELSE <<acc>> \o RunOff(sizes, k + 1, acc + sizes[k])
WriteClusters ==
   /\ pc = "clusters"
   /\ cluOff' = RunOff([k \in 1..K |-> SeqMaxOf(probes[k].sc) + 1], 1, 0)
   /\ tmpOff' = RunOff([k \in 1..K |-> SeqMaxOf(probes[k].st) + 1], 1, 0)
   /\ outClu' = [r \in 1..Len(spikeOrder) |-> probes[spikeOrder[r][1]].sc[spikeOrder[r][2]] + cluOff'[spikeOrder[r][1]]]
   /\ outTmp' = [r \in 1..Len(spikeOrder) |-> probes[spikeOrder[r][1]].st[spikeOrder[r][2]] + tmpOff'[spikeOrder[r][1]]]
   /\ pc' = "channels"
   /\ UNCHANGED <<probes, spikeOrder, outTimes, chanOff, outChanMap, outChanProbe, outTemplates, outPcInd, outTfInd>>
\* channel map offsets: running maximum of the shifted maps (merge.py:195-200)
RECURSIVE ChanOffs(_, _)
ChanOffs(k, off) == IF k > K THEN <<>> ELSE <<off>> \o ChanOffs(k + 1, SeqMaxOf(probes[k].chmap) + off)
WriteChannels ==
   /\ pc = "channels"
   /\ chanOff' = ChanOffs(1, 0)
   /\ outChanMap' = ConcatAll([k \in 1..K |-> [i \in 1..probes[k].nch |-> probes[k].chmap[i] + chanOff'[k]]], K)
   /\ outChanProbe' = ConcatAll([k \in 1..K |-> [i \in 1..probes[k].nch |-> k - 1]], K)
   /\ pc' = "templates"
   /\ UNCHANGED <<probes, spikeOrder, outTimes, outClu, outTmp, cluOff, tmpOff, outTemplates, outPcInd, outTfInd>>
\* a template is abstracted by the set of merged channel columns that carry its waveform
NchBefore(k) == SumTo([j \in 1..K |-> probes[j].nch], k - 1)
NtmBefore(k) == SumTo([j \in 1..K |-> probes[j].ntm], k - 1)
BlockStart(k) == IF AsPinned THEN (IF k > 1 THEN probes[k - 1].nch ELSE 0) ELSE NchBefore(k)
WriteTemplates ==
   /\ pc = "templates"
   /\ outTemplates' = ConcatAll([k \in 1..K |-> [t \in 1..probes[k].ntm |-> (BlockStart(k) + 1)..(BlockStart(k) + probes[k].nch)]], K)
   /\ pc' = "tdata"
   /\ UNCHANGED <<probes, spikeOrder, outTimes, outClu, outTmp, cluOff, tmpOff, chanOff, outChanMap, outChanProbe, outPcInd, outTfInd>>
WriteTemplateData ==
   /\ pc = "tdata"
   /\ outPcInd' = ConcatAll([k \in 1..K |-> [t \in 1..probes[k].ntm |-> probes[k].pcind[t] + (IF AsPinned THEN chanOff[k] ELSE NchBefore(k))]], K)
   /\ outTfInd' = ConcatAll([k \in 1..K |-> [t \in 1..probes[k].ntm |-> probes[k].tfind[t] + (IF AsPinned THEN chanOff[k] ELSE NtmBefore(k))]], K)
   /\ pc' = "done"
   /\ UNCHANGED <<probes, spikeOrder, outTimes, outClu, outTmp, cluOff, tmpOff, chanOff, outChanMap, outChanProbe, outTemplates>>
Next == WriteTimes \/ WriteClusters \/ WriteChannels \/ WriteTemplates \/ WriteTemplateData
Spec == Init /\ [][Next]_vars

\* ---------------- P-layer ----------------
Done == pc = "done"
Conservation == Done => /\ Len(spikeOrder) = Len(Tagged)
                        /\ {spikeOrder[r] : r \in 1..Len(spikeOrder)} = {Tagged[i] : i \in 1..Len(Tagged)}
OrderedByTimeProbeIndex == Done => \A r \in 1..(Len(spikeOrder) - 1) : Before(spikeOrder[r], spikeOrder[r + 1])
IdsDisjoint == Done => \A r, q \in 1..Len(spikeOrder) :
                          spikeOrder[r][1] # spikeOrder[q][1] => outClu[r] # outClu[q] /\ outTmp[r] # outTmp[q]
IdsShifted == Done => \A r \in 1..Len(spikeOrder) : LET k == spikeOrder[r][1]  i == spikeOrder[r][2] IN
                         /\ outClu[r] - probes[k].sc[i] = SumTo([j \in 1..K |-> SeqMaxOf(probes[j].sc) + 1], k - 1)
                         /\ outTmp[r] - probes[k].st[i] = SumTo([j \in 1..K |-> SeqMaxOf(probes[j].st) + 1], k - 1)
ChannelBlocks == Done => outChanProbe = ConcatAll([k \in 1..K |-> [i \in 1..probes[k].nch |-> k - 1]], K)
TemplateBlocks == Done => \A k \in 1..K : \A t \in 1..probes[k].ntm :
                     outTemplates[NtmBefore(k) + t] = {c \in 1..Len(outChanProbe) : outChanProbe[c] = k - 1}
PcIndShifted == Done => \A k \in 1..K : \A t \in 1..probes[k].ntm :
                     /\ outChanProbe[outPcInd[NtmBefore(k) + t] + 1] = k - 1          \* points into its own block
                     /\ outPcInd[NtmBefore(k) + t] - NchBefore(k) = probes[k].pcind[t]
\* a merged spike's template id must index a template row lying on the spike's own probe block
SpikeTemplateOnOwnBlock == Done => \A r \in 1..Len(spikeOrder) :
                     outTemplates[outTmp[r] + 1] = {c \in 1..Len(outChanProbe) : outChanProbe[c] = spikeOrder[r][1] - 1}
\* ---- ALF export of the merged dataset: alf.make_channel_objects re-expresses raw indices per probe
RECURSIVE AlfRaw(_, _)
AlfRaw(k, off) == IF k > K THEN <<>> ELSE
   LET blk == {c \in 1..Len(outChanProbe) : outChanProbe[c] = k - 1}
       vals == [c \in 1..Len(outChanMap) |-> outChanMap[c]]
       mx == CHOOSE x \in {outChanMap[c] : c \in blk} : \A c \in blk : outChanMap[c] <= x
       lo == CHOOSE c \in blk : \A d \in blk : c <= d
   IN [i \in 1..Cardinality(blk) |-> outChanMap[lo + i - 1] - off] \o AlfRaw(k + 1, IF AsPinned THEN off + mx ELSE mx)
RawIndRoundTrip == Done => AlfRaw(1, 0) = ConcatAll([k \in 1..K |-> probes[k].chmap], K)
TfIndShifted == Done => \A k \in 1..K : \A t \in 1..probes[k].ntm :
                     outTfInd[NtmBefore(k) + t] - NtmBefore(k) = probes[k].tfind[t]
====
