SPECIFICATION Spec
CONSTANTS MaxN = 6
INVARIANT SplitCorrect
INVARIANT WellFormed
CHECK_DEADLOCK FALSE
