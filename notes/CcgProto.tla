---- MODULE CcgProto ----
(* Round-0 prototype for C15: stats/ccg.py correlograms() shift loop, I-layer vs brute-force P-layer *)
EXTENDS Naturals, Integers, Sequences, FiniteSets, TLC
CONSTANTS MaxLen, MaxT, Ids       \* Ids: the caller's cluster-id list (a sequence, any order)
VARIABLES t, c, bin, half, shift, mask, counts, pc
vars == <<t, c, bin, half, shift, mask, counts, pc>>
NC == Len(Ids)
IdSet == {Ids[i] : i \in 1..NC}
IndexOf(x) == CHOOSE i \in 1..NC : Ids[i] = x
RECURSIVE NonDecr(_, _)
NonDecr(len, lo) == IF len = 0 THEN {<<>>} ELSE UNION {{<<v>> \o r : r \in NonDecr(len - 1, v)} : v \in lo..MaxT}
Zero == [i \in 1..NC |-> [j \in 1..NC |-> [k \in 0..half |-> 0]]]
Init == /\ \E len \in 1..MaxLen : t \in NonDecr(len, 0) /\ c \in [1..len -> IdSet]
        /\ bin \in 1..2 /\ half \in 0..2
        /\ shift = 1 /\ mask = [i \in 1..Len(t) |-> TRUE] /\ pc = "loop"
        /\ counts = [i \in 1..NC |-> [j \in 1..NC |-> [k \in 0..2 |-> 0]]]
n == Len(t)
\* one iteration of `while mask[:-shift].any()`
Live == \E i \in 1..(n - shift) : mask[i]
Diff(i) == (t[i + shift] - t[i]) \div bin
Shift == /\ pc = "loop" /\ Live
         /\ LET mask1 == [i \in 1..n |-> IF i <= n - shift /\ Diff(i) > half THEN FALSE ELSE mask[i]]
                sel == {i \in 1..(n - shift) : mask1[i]}
            IN /\ mask' = mask1
               /\ counts' = [a \in 1..NC |-> [b \in 1..NC |-> [k \in 0..2 |->
                      counts[a][b][k] + Cardinality({i \in sel : IndexOf(c[i]) = a /\ IndexOf(c[i + shift]) = b /\ Diff(i) = k})]]]
         /\ shift' = shift + 1 /\ UNCHANGED <<t, c, bin, half, pc>>
Stop == /\ pc = "loop" /\ ~Live /\ pc' = "done" /\ UNCHANGED <<t, c, bin, half, shift, mask, counts>>
Next == Shift \/ Stop
Spec == Init /\ [][Next]_vars /\ WF_vars(Next)
PairCount(a, b, k) == Cardinality({p \in (1..n) \X (1..n) : p[1] < p[2] /\ IndexOf(c[p[1]]) = a /\ IndexOf(c[p[2]]) = b
                                                          /\ (t[p[2]] - t[p[1]]) \div bin = k})
Correct == pc = "done" => \A a \in 1..NC, b \in 1..NC, k \in 0..half : counts[a][b][k] = PairCount(a, b, k)
NoOverflowBins == \A a \in 1..NC, b \in 1..NC, k \in 0..2 : k > half => counts[a][b][k] = 0
Terminates == <>(pc = "done")
\* symmetrised form
Sym(i, j, k) == IF k > 0 THEN counts[i][j][k] ELSE IF k < 0 THEN counts[j][i][-k]
                ELSE (IF counts[i][j][0] > counts[j][i][0] THEN counts[i][j][0] ELSE counts[j][i][0])
SymOk == pc = "done" => \A i \in 1..NC, j \in 1..NC, k \in (-half)..half : Sym(i, j, k) = Sym(j, i, -k)
IdsDef == <<5, 0, 2>>
====
