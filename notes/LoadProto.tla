---- MODULE LoadProto ----
(* Round-0 prototype for C04: file-name resolution, defaults and the frame condition of
   TemplateModel._load_data over the lattice of present/absent files and naming variants.
   Contents are abstract ids; this prototype checks *which* file feeds each attribute and
   what loading creates, not values.                                                       *)
EXTENDS Naturals, Sequences, FiniteSets, TLC
CONSTANTS AsPinned
VARIABLES fs, model, status, created, modified, allNanTemplate
vars == <<fs, model, status, created, modified, allNanTemplate>>
\* logical item -> <<KS name, ALF name>>   ("-" = no such variant)
Names == [ times |-> <<"spike_times.npy", "spikes.times.npy">>,
           templates_of_spikes |-> <<"spike_templates.npy", "spikes.templates.npy">>,
           clusters |-> <<"spike_clusters.npy", "spikes.clusters.npy">>,
           amps |-> <<"amplitudes.npy", "spikes.amps.npy">>,
           chmap |-> <<"channel_map.npy", "channels.rawInd.npy">>,
           pos |-> <<"channel_positions.npy", "channels.localCoordinates.npy">>,
           shanks |-> <<"channel_shanks.npy", "channels.shanks.npy">>,
           probes |-> <<"channel_probe.npy", "channels.probes.npy">>,
           tmpl |-> <<"templates.npy", "templates.waveforms.npy">>,
           wm |-> <<"whitening_mat.npy", "-">>,
           wmi |-> <<"whitening_mat_inv.npy", "-">>,
           sim |-> <<"similar_templates.npy", "-">> ]
Mandatory == {"times", "templates_of_spikes", "chmap", "pos", "tmpl"}
Optional == {"clusters", "amps", "shanks", "probes", "wm", "wmi", "sim"}
Items == Mandatory \cup Optional
\* a directory: for each item, which variants exist: subset of {1 (KS), 2 (ALF)}
Init == /\ \E alf \in BOOLEAN, present \in SUBSET Optional, both \in SUBSET Items :
             fs = [it \in Items |->
                     IF it \in Mandatory \/ it \in present
                     THEN (IF it \in both /\ Names[it][2] # "-" THEN {1, 2}
                           ELSE IF alf /\ Names[it][2] # "-" THEN {2} ELSE {1})
                     ELSE {}]
        /\ allNanTemplate \in BOOLEAN
        /\ model = [it \in Items |-> "unset"] /\ status = "init" /\ created = {} /\ modified = {}
\* _find_path(*names): first name (in the order given) that exists
First(it, order) == IF order[1] \in fs[it] THEN order[1] ELSE IF Len(order) > 1 /\ order[2] \in fs[it] THEN order[2] ELSE 0
File(it, v) == Names[it][v]
Load ==
  /\ status = "init"
  /\ LET src(it) == First(it, <<1, 2>>)
         \* the spike_clusters fallback (model.py:614): pinned code looks for the KS template file or the ALF *clusters* file
         fallback == IF AsPinned THEN (IF 1 \in fs["templates_of_spikes"] THEN File("templates_of_spikes", 1) ELSE "missing")
                     ELSE (IF src("templates_of_spikes") # 0 THEN File("templates_of_spikes", src("templates_of_spikes")) ELSE "missing")
         cluMissing == src("clusters") = 0
         wmiMissing == src("wmi") = 0
     IN IF cluMissing /\ fallback = "missing"
        THEN /\ status' = "ioerror" /\ UNCHANGED <<model, created, modified>>
        ELSE /\ model' = [it \in Items |->
                  IF src(it) # 0 THEN File(it, src(it))
                  ELSE IF it = "clusters" THEN fallback                 \* copy of spike templates
                  ELSE IF it = "wmi" THEN "computed"
                  ELSE "default"]
             /\ created' = (IF cluMissing THEN {"spike_clusters.npy"} ELSE {}) \cup (IF wmiMissing THEN {"whitening_mat_inv.npy"} ELSE {})
             /\ modified' = IF AsPinned /\ allNanTemplate THEN {File("tmpl", src("tmpl"))} ELSE {}   \* mmap r+ write-through
             /\ status' = "loaded"
  /\ UNCHANGED <<fs, allNanTemplate>>
Spec == Init /\ [][Load]_vars
\* ---- P-layer
WellFormedLoads == status # "ioerror"                         \* every generated directory is well-formed
KSWins == status = "loaded" => \A it \in Items : (1 \in fs[it] => model[it] = File(it, 1)) /\ (fs[it] = {2} => model[it] = File(it, 2))
Defaults == status = "loaded" => /\ (fs["amps"] = {} => model["amps"] = "default")
                                 /\ (fs["shanks"] = {} => model["shanks"] = "default")
                                 /\ (fs["probes"] = {} => model["probes"] = "default")
                                 /\ (fs["wm"] = {} => model["wm"] = "default")
                                 /\ (fs["sim"] = {} => model["sim"] = "default")
                                 /\ (fs["clusters"] = {} => model["clusters"] \in {File("templates_of_spikes", 1), File("templates_of_spikes", 2)})
LoadFrame == status = "loaded" => /\ modified = {}
                                  /\ created \subseteq {"spike_clusters.npy", "whitening_mat_inv.npy"}
                                  /\ ("spike_clusters.npy" \in created <=> fs["clusters"] = {})
                                  /\ ("whitening_mat_inv.npy" \in created <=> fs["wmi"] = {})
====
