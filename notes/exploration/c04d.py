# lattice probe for loading: presence/absence x naming x vector shape
from gen import *
from phylib.io.model import load_model
import itertools, collections, traceback, logging
logging.disable(logging.CRITICAL)
OPT=['spike_clusters','amplitudes','whitening','shanks','probes','features','tfeatures','similar','raw']
agg=collections.Counter(); ex={}
def build(td,rng,flags,alf,col1,sparse_t,extra):
    td.mkdir(parents=True)
    ns,nt,nc,nsw=12,3,4,4
    sr=128.
    def sv(name,a):
        if col1 and a.ndim==1: a=a.reshape(-1,1)
        np.save(td/name,a)
    samples=np.sort(rng.randint(0,50,size=ns)).astype(np.uint64)
    st=rng.randint(0,nt,size=ns).astype(np.uint32)
    if alf:
        sv('spikes.times.npy',samples/sr); 
        if rng.rand()<.5: sv('spikes.samples.npy',samples)
        sv('spikes.templates.npy',st)
    else:
        sv('spike_times.npy',samples); sv('spike_templates.npy',st)
    d=dict(samples=samples,st=st)
    if flags['spike_clusters']:
        sc=(st.astype(np.int32)+rng.randint(0,2,size=ns)*3); sv('spikes.clusters.npy' if alf else 'spike_clusters.npy',sc); d['sc']=sc
    if flags['amplitudes']:
        a=rng.randint(1,5,size=ns).astype(np.float64); sv('spikes.amps.npy' if alf else 'amplitudes.npy',a); d['amps']=a
    cm=rng.permutation(nc+extra)[:nc].astype(np.int32); sv('channels.rawInd.npy' if alf else 'channel_map.npy',cm); d['cm']=cm
    pos=np.c_[rng.permutation(nc)%2*10.0, np.arange(nc)*20.0]; np.save(td/('channels.localCoordinates.npy' if alf else 'channel_positions.npy'),pos); d['pos']=pos
    if flags['shanks']: s=rng.randint(0,2,size=nc); sv('channels.shanks.npy' if alf else 'channel_shanks.npy',s); d['shanks']=s
    if flags['probes']: p_=rng.randint(0,2,size=nc); sv('channels.probes.npy' if alf else 'channel_probe.npy',p_); d['probes']=p_
    nloc=3 if sparse_t else nc
    T=rng.randint(-8,9,size=(nt,nsw,nloc)).astype(np.float32); np.save(td/('templates.waveforms.npy' if alf else 'templates.npy'),T); d['T']=T
    if sparse_t:
        ti=np.stack([rng.permutation(nc)[:nloc] for _ in range(nt)]).astype(np.int32); np.save(td/('templates.waveformsChannels.npy' if alf else 'template_ind.npy'),ti); d['ti']=ti
    if flags['whitening']:
        P=np.eye(nc)[rng.permutation(nc)]*(2.0**rng.randint(-1,2,size=nc)); np.save(td/'whitening_mat.npy',P); d['wm']=P
    if flags['similar']: S=rng.randint(0,5,size=(nt,nt)).astype(np.float32); np.save(td/'similar_templates.npy',S); d['sim']=S
    if flags['features']:
        np.save(td/'pc_feature_ind.npy',np.stack([rng.permutation(nc)[:2] for _ in range(nt)]).astype(np.uint32))
        np.save(td/'pc_features.npy',rng.randint(-4,5,size=(ns,3,2)).astype(np.float32))
    if flags['tfeatures']:
        np.save(td/'template_features.npy',rng.randint(-4,5,size=(ns,2)).astype(np.float32))
        np.save(td/'template_feature_ind.npy',np.stack([rng.permutation(nt)[:2] for _ in range(nt)]).astype(np.uint32))
    ncd=nc+extra
    raw=rng.randint(-50,50,size=(60,ncd)).astype(np.int16); d['raw']=raw
    if flags['raw']: raw.tofile(td/'raw.dat')
    sv('spike_extra.npy',rng.randint(0,9,size=ns).astype(np.float64))
    with open(td/'params.py','w') as f:
        f.write("dat_path = %r\nn_channels_dat = %d\ndtype = 'int16'\noffset = 0\nsample_rate = %r\nhp_filtered = False\n"%('raw.dat' if flags['raw'] else [],ncd,sr))
    return d
n=0
root=Path(tempfile.mkdtemp())
for bits in itertools.product([0,1],repeat=len(OPT)):
    flags=dict(zip(OPT,bits))
    for alf,col1,sparse_t,extra in itertools.product([0,1],[0,1],[0,1],[0,2]):
        if (sum(bits)+alf+col1+sparse_t)%3!=0: continue   # thin the lattice
        n+=1
        rng=np.random.RandomState(n)
        td=root/('d%d'%n)
        d=build(td,rng,flags,alf,col1,sparse_t,extra)
        h0=hashes(td)
        key=('alf' if alf else 'ks')
        try:
            m=load_model(td/'params.py')
        except Exception as e:
            import re; k=(key,type(e).__name__,re.sub(r'[0-9]+','N',str(e))[-70:]); agg[k]+=1; ex.setdefault(k,(flags,alf,col1,sparse_t,traceback.format_exc()[-300:])); continue
        h1=hashes(td)
        new=set(h1)-set(h0); changed=[k for k in h0 if h0[k]!=h1[k]]
        allowed=set()
        if not flags['spike_clusters']: allowed.add('spike_clusters.npy')
        allowed.add('whitening_mat_inv.npy')
        if changed or not new<=allowed: agg['frame']+=1; ex.setdefault('frame',(flags,alf,new,changed))
        chk=[('samples',np.array_equal(m.spike_samples,d['samples'])),('times',np.array_equal(m.spike_times,d['samples']/128.)),
             ('st',np.array_equal(m.spike_templates,d['st'])),('sc',np.array_equal(m.spike_clusters,d.get('sc',d['st']))),
             ('amps',(m.amplitudes is None) if 'amps' not in d else np.array_equal(m.amplitudes,d['amps'])),
             ('cm',np.array_equal(m.channel_mapping,d['cm'])),('pos',np.array_equal(m.channel_positions,d['pos'])),
             ('shanks',np.array_equal(m.channel_shanks,d.get('shanks',np.zeros(4)))),('probes',np.array_equal(m.channel_probes,d.get('probes',np.zeros(4)))),
             ('T',np.array_equal(m.sparse_templates.data,d['T'])),('wm',np.array_equal(m.wm,d.get('wm',np.eye(4)))),('wmi',np.array_equal(m.wmi@m.wm,np.eye(4))),
             ('sim',np.array_equal(m.similar_templates,d.get('sim',np.zeros((3,3))))),
             ('traces',(m.traces is None) if not flags['raw'] else np.array_equal(m.traces[:],d['raw'][:,d['cm']])),
             ('attr','extra' in m.spike_attributes and m.spike_attributes['extra'].shape==(12,))]
        for nm,ok in chk:
            if not ok: agg[(key,nm)]+=1; ex.setdefault((key,nm),(flags,alf,col1,sparse_t))
        m.close()
print(n,agg)
for k,v in ex.items(): print(k,str(v)[:500])
