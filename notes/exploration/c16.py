import sys, itertools, tempfile, os, warnings
sys.path.insert(0,'/tmp/scratch/phylib')
import numpy as np
from phylib.io.array import chunk_bounds, excerpts, get_excerpts, data_chunk
from phylib.io.traces import _get_chunk_bounds
import collections
bad=collections.Counter(); ex={}
for n in range(1,31):
  for cs in range(1,13):
    for ov in range(0,cs):
      ch=list(chunk_bounds(n,cs,ov))
      data=np.arange(n)
      kept=np.concatenate([data[k0:k1] for (_,_,k0,k1) in ch]) if ch else np.array([])
      ok=np.array_equal(kept,data)
      ok2=all(s0<=k0<=k1<=min(s1,n) for (s0,s1,k0,k1) in ch)   # kept part inside its chunk's data
      ok3=all(len(data[s0:s1])<=cs for (s0,s1,_,_) in ch)
      if not ok: bad['tile']+=1; ex.setdefault('tile',(n,cs,ov,ch))
      if not ok2: bad['inside']+=1; ex.setdefault('inside',(n,cs,ov,ch))
      if not ok3: bad['size']+=1; ex.setdefault('size',(n,cs,ov,ch))
print(bad); 
for k,v in ex.items(): print(k,v)
bad=collections.Counter(); ex={}
for n in range(0,25):
  for ne in range(0,7):
    for es in range(1,7):
      data=np.arange(n)
      try:
        out=get_excerpts(data,n_excerpts=ne,excerpt_size=es)
      except Exception as e:
        bad['exc']+=1; ex.setdefault('exc',(n,ne,es,repr(e))); continue
      if n < ne*es:
        if not np.array_equal(out,data): bad['short']+=1; ex.setdefault('short',(n,ne,es,out))
      else:
        ok= len(out)<=ne*es and np.all(np.diff(out)>0) if len(out)>1 else len(out)<=ne*es
        if not ok: bad['exc2']+=1; ex.setdefault('exc2',(n,ne,es,out))
      if ne>=2:
        e=list(excerpts(n,n_excerpts=ne,excerpt_size=es))
        ok=len(e)<=ne and all(0<=a<b<=n and b-a<=es for a,b in e) and all(e[i][1]<=e[i+1][0] for i in range(len(e)-1))
        if not ok: bad['excerpts']+=1; ex.setdefault('excerpts',(n,ne,es,e))
print(bad)
for k,v in ex.items(): print(k,v)
bad=collections.Counter(); ex={}
def comps(n,k):
    if k==1: yield [n]; return
    for f in range(0,n+1):
        for r in comps(n-f,k-1): yield [f]+r
for total in range(1,10):
  for k in range(1,4):
    for sizes in comps(total,k):
      if any(s==0 for s in sizes): continue
      for cs in range(1,12):
        b=_get_chunk_bounds(sizes,cs)
        pb=[0]+list(np.cumsum(sizes))
        ok=b[0]==0 and b[-1]==total and all(x<y for x,y in zip(b,b[1:])) and set(pb)<=set(b) and all(y-x<=cs for x,y in zip(b,b[1:]))
        if not ok: bad['cb']+=1; ex.setdefault('cb',(sizes,cs,b))
print(bad, ex)
