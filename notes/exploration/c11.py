from gen import *
from phylib.io.model import load_model
from phylib.io.merge import Merger
from phylib.utils._misc import _write_tsv_simple
import collections, shutil
from c08 import curate
def run(seed,k,verbose=False):
    rng=np.random.RandomState(seed)
    root=Path(tempfile.mkdtemp())
    gs=[];subs=[]
    for i in range(k):
        td=root/('p%d'%i)
        nc=rng.choice([3,4,5]); nt=rng.choice([2,3,4])
        g=make(td,rng,nc=nc,nt=nt,raw=False,ns=rng.randint(3,9),curated=(curate if rng.rand()<.5 else (lambda st,r: st)),wm='perm',nloc=2,n_extra=rng.randint(0,2))
        # identity-ish channel map? keep permuted
        np.save(td/'whitening_mat_inv.npy',np.linalg.inv(np.load(td/'whitening_mat.npy')))
        if rng.rand()<.6: _write_tsv_simple(td/'cluster_KSLabel.tsv','KSLabel',{int(c):'good' if c%2 else 'mua' for c in np.unique(np.load(td/'spike_clusters.npy'))})
        g['dir']=td; gs.append(g); subs.append(td)
    h0={str(s):hashes(s) for s in subs}
    out=root/'m'
    res={}
    try:
        m=Merger(subs,out).merge()
    except Exception as e:
        import traceback; res['exc']=traceback.format_exc()[-600:]; return res
    h1={str(s):hashes(s) for s in subs}
    res['inputs_unchanged']=h0==h1
    # spikes
    T=[np.load(s/'spike_times.npy').squeeze() for s in subs]
    A=[np.load(s/'amplitudes.npy').squeeze() for s in subs]
    SC=[np.load(s/'spike_clusters.npy').squeeze() for s in subs]
    ST=[np.load(s/'spike_templates.npy').squeeze() for s in subs]
    recs=[]
    co=0;to=0;coffs=[];toffs=[]
    for i in range(k):
        coffs.append(co);toffs.append(to)
        for j in range(len(T[i])): recs.append((int(T[i][j]),i,j,A[i][j],int(SC[i][j])+co,int(ST[i][j])+to))
        co+=int(SC[i].max())+1; to+=int(ST[i].max())+1
    recs.sort(key=lambda r:(r[0],r[1],r[2]))
    mt=np.load(out/'spike_times.npy'); ma=np.load(out/'amplitudes.npy'); msc=np.load(out/'spike_clusters.npy'); mst=np.load(out/'spike_templates.npy')
    res['times']=list(mt)==[r[0] for r in recs]
    res['amps']=list(ma)==[r[3] for r in recs]
    res['clusters']=list(msc)==[r[4] for r in recs]
    res['templates']=list(mst)==[r[5] for r in recs]
    cp=np.load(out/'cluster_probes.npy')
    res['cluster_probes']=list(cp)==sum([[i]*(int(SC[i].max())+1) for i in range(k)],[])
    # channels
    ncs=[g['T'].shape[2] for g in gs]; nts=[g['T'].shape[0] for g in gs]
    chp=np.load(out/'channel_probe.npy'); res['channel_probe']=list(chp)==sum([[i]*ncs[i] for i in range(k)],[])
    cmap=np.load(out/'channel_map.npy'); res['cmap']=cmap.tolist()
    res['cmap_distinct']=len(set(cmap.tolist()))==len(cmap)
    pos=np.load(out/'channel_positions.npy')
    o=0; okpos=True; xr=[]
    for i in range(k):
        blk=pos[o:o+ncs[i]]; d=blk-gs[i]['pos']
        if not (np.all(d[:,1]==0) and np.all(d[:,0]==d[0,0])): okpos=False
        xr.append((blk[:,0].min(),blk[:,0].max())); o+=ncs[i]
    res['pos']=okpos; res['apart']=all(xr[i][1]<xr[i+1][0] for i in range(k-1))
    MT=np.load(out/'templates.npy'); okT=MT.shape==(sum(nts),4,sum(ncs))
    o=0;to=0
    for i in range(k):
        for t in range(nts[i]):
            e=np.zeros((4,sum(ncs)),dtype=np.float32); e[:,o:o+ncs[i]]=gs[i]['T'][t]
            if not np.array_equal(MT[to+t],e): okT=False
        o+=ncs[i];to+=nts[i]
    res['templates_block']=okT
    pfi=np.load(out/'pc_feature_ind.npy'); e=np.concatenate([np.load(s/'pc_feature_ind.npy').astype(int)+sum(ncs[:i]) for i,s in enumerate(subs)])
    res['pc_feature_ind']=np.array_equal(pfi,e)
    tfi=np.load(out/'template_feature_ind.npy'); e=np.concatenate([np.load(s/'template_feature_ind.npy').astype(int)+sum(nts[:i]) for i,s in enumerate(subs)])
    res['template_feature_ind']=np.array_equal(tfi,e) if tfi.shape==e.shape else ('shape',tfi.shape,e.shape)
    from scipy.linalg import block_diag
    for fn in ['whitening_mat.npy','similar_templates.npy','whitening_mat_inv.npy']:
        res[fn]=np.array_equal(np.load(out/fn),block_diag(*[np.load(s/fn) for s in subs]))
    from phylib.utils._misc import read_python
    p=read_python(out/'params.py'); res['params']=(p['sample_rate'],p['n_channels_dat'],sum(read_python(s/'params.py')['n_channels_dat'] for s in subs))
    res['model']=(m.n_spikes,m.n_channels,m.n_templates)
    return res
if __name__=='__main__':
    agg=collections.Counter()
    for k in [1,2,3]:
        for seed in range(15):
            r=run(seed,k)
            for kk,v in r.items():
                if v is not True and kk not in('cmap','params','model'): agg[(k,kk)]+=1
            if 'exc' in r and seed<3: print(k,seed,r['exc'])
    for k_,v in sorted(agg.items()): print(k_,v)
    print(run(1,3))
