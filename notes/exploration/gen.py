IND_DT="int32"
import sys
sys.path.insert(0,'/tmp/scratch/phylib')
import numpy as np, tempfile, os, hashlib
from pathlib import Path
def make(td, rng, ns=20, nt=4, nc=6, nsw=4, n_extra=0, sr=100., curated=None, raw=True, wm='perm', shanks=None, probes=None,
         sparse_feat=True, amps=True, col1=False, raw_n=60, raw_dtype=np.int16, offset=0, feat_rows=False, tf=True, sparse_templates=False,nloc=3):
    td=Path(td); td.mkdir(exist_ok=True,parents=True)
    samples=np.sort(rng.randint(0,raw_n,size=ns)).astype(np.uint64)
    st=rng.randint(0,nt,size=ns).astype(IND_DT)
    def sv(name,a):
        if col1 and a.ndim==1: a=a.reshape(-1,1)
        np.save(td/name,a)
    sv('spike_times.npy',samples); sv('spike_templates.npy',st)
    if curated is not None: sv('spike_clusters.npy',curated(st,rng).astype(np.int32))
    if amps: sv('amplitudes.npy',rng.randint(1,5,size=ns).astype(np.float64))
    cm=rng.permutation(nc+n_extra)[:nc].astype(np.int32)
    sv('channel_map.npy',cm)
    pos=np.c_[rng.permutation(nc)%2*10.0, np.arange(nc)*20.0]
    np.save(td/'channel_positions.npy',pos)
    if shanks is not None: sv('channel_shanks.npy',np.asarray(shanks))
    if probes is not None: sv('channel_probe.npy',np.asarray(probes))
    T=rng.randint(-8,9,size=(nt,nsw,nc)).astype(np.float32)
    np.save(td/'templates.npy',T)
    if wm=='perm':
        P=np.eye(nc)[rng.permutation(nc)]*(2.0**rng.randint(-1,2,size=nc))
        np.save(td/'whitening_mat.npy',P)
    np.save(td/'similar_templates.npy',rng.randint(0,5,size=(nt,nt)).astype(np.float32))
    if sparse_feat:
        ind=np.stack([rng.permutation(nc)[:nloc] for _ in range(nt)]).astype(IND_DT)
        np.save(td/'pc_feature_ind.npy',ind)
        rows=np.sort(rng.choice(ns,size=ns//2,replace=False)) if feat_rows else np.arange(ns)
        F=rng.randint(-4,5,size=(len(rows),3,nloc)).astype(np.float32)
        np.save(td/'pc_features.npy',F)
        if feat_rows: np.save(td/'pc_feature_spike_ids.npy',rows)
    if tf:
        nl=2
        np.save(td/'template_features.npy',rng.randint(-4,5,size=(ns,nl)).astype(np.float32))
        np.save(td/'template_feature_ind.npy',np.stack([rng.permutation(nt)[:nl] for _ in range(nt)]).astype(IND_DT))
    ncd=nc+n_extra
    rawarr=rng.randint(-50,50,size=(raw_n,ncd)).astype(raw_dtype)
    if raw:
        with open(td/'raw.dat','wb') as f: f.write(b'\0'*offset); f.write(rawarr.tobytes())
    with open(td/'params.py','w') as f:
        f.write("dat_path = %r\nn_channels_dat = %d\ndtype = %r\noffset = %d\nsample_rate = %r\nhp_filtered = False\n"%( 'raw.dat' if raw else [], ncd, np.dtype(raw_dtype).name, offset, sr))
    return dict(samples=samples,st=st,cm=cm,pos=pos,T=T,raw=rawarr)
def hashes(td):
    return {p.name:hashlib.md5(p.read_bytes()).hexdigest() for p in sorted(Path(td).iterdir()) if p.is_file()}
