from gen import *
from phylib.io.model import load_model
from phylib.io.merge import Merger
from phylib.io.alf import EphysAlfCreator
import time, logging
logging.disable(logging.CRITICAL)
rng=np.random.RandomState(0)
root=Path(tempfile.mkdtemp())
t0=time.time()
for i in range(100):
    g=make(root/('d%d'%i),rng,nc=6,nt=4,ns=20,raw=True,wm='perm')
t1=time.time()
for i in range(100):
    m=load_model(root/('d%d'%i)/'params.py'); m.close()
t2=time.time()
for i in range(30):
    m=load_model(root/('d%d'%i)/'params.py'); EphysAlfCreator(m).convert(root/('alf%d'%i)); m.close()
t3=time.time()
print('make %.1f ms  load %.1f ms  alf %.1f ms'%((t1-t0)*10,(t2-t1)*10,(t3-t2)*1000/30))
