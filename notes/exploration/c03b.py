from gen import *
from phylib.io.model import load_model
from phylib.io.traces import get_spike_waveforms, extract_waveforms
import collections, logging
logging.disable(logging.CRITICAL)
agg=collections.Counter(); ex={}
for seed in range(30):
    rng=np.random.RandomState(seed)
    td=Path(tempfile.mkdtemp())/'d'
    g=make(td,rng,nc=6,nt=3,ns=25,raw=True,wm='perm',raw_n=80,sparse_feat=False,tf=False,n_extra=seed%2)
    m=load_model(td/'params.py'); m.n_closest_channels=3
    m.save_spikes_subset_waveforms(max_n_spikes_per_template=4,max_n_channels=3,sample2unit=[1.,2.,1][seed%3])
    f=[1.,2.,1][seed%3]
    sw=m.spike_waveforms
    if sw is None: agg['nostore']+=1; continue
    ids=np.atleast_1d(sw.spike_ids); chs=np.atleast_2d(sw.spike_channels)
    if not np.all(np.diff(ids)>0): agg['ids_not_increasing']+=1
    raw=g['raw'][:,g['cm']]
    def win(s,chans):
        out=np.zeros((m.n_samples_waveforms,len(chans)))
        a=m.n_samples_waveforms//2
        for k in range(m.n_samples_waveforms):
            r=int(s)-a+k
            if 0<=r<raw.shape[0]:
                for j,c in enumerate(chans):
                    if c>=0: out[k,j]=raw[r,c]
        return out
    # store content = windows*factor
    for i,sid in enumerate(ids):
        e=win(g['samples'][sid],chs[i])*f
        if not np.array_equal(sw.waveforms[i],e): agg['store']+=1; ex.setdefault('store',(seed,sid,chs[i]))
    for trial in range(10):
        q=rng.permutation(ids)[:rng.randint(1,len(ids)+1)]
        cq=rng.permutation(6)[:rng.randint(1,5)]
        w=m.get_waveforms(q,cq)
        for i,sid in enumerate(q):
            row=list(ids).index(sid)
            e=win(g['samples'][sid],[c if c in chs[row] else -1 for c in cq])*f
            if not np.array_equal(w[i],e): agg['lookup']+=1; ex.setdefault('lookup',(seed,q,cq,sid))
    m.close()
print(agg)
for k,v in ex.items(): print(k,str(v)[:400])
