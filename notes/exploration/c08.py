from gen import *
from phylib.io.model import load_model
import collections
bad=collections.Counter(); ex={}
def curate(st,rng):
    sc=st.astype(np.int64).copy()
    mx=sc.max()
    for _ in range(rng.randint(1,4)):
        kind=rng.randint(0,3)
        ids=np.unique(sc)
        if kind==0 and len(ids)>=2: # merge
            a,b=rng.choice(ids,2,replace=False); mx+=1+rng.randint(0,2); sc[(sc==a)|(sc==b)]=mx
        elif kind==1: # split
            a=rng.choice(ids); idx=np.where(sc==a)[0]
            if len(idx)>=2:
                k=rng.randint(1,len(idx)); mx+=1; sc[idx[:k]]=mx; mx+=1; sc[idx[k:]]=mx
        else:
            i=rng.randint(0,len(sc)); mx+=1; sc[i]=mx
    return sc
for seed in range(80):
    rng=np.random.RandomState(seed)
    td=Path(tempfile.mkdtemp())/'d'
    g=make(td,rng,nc=5,nt=4,raw=False,curated=curate if seed%4 else (lambda st,rng: st), wm='perm' if seed%2 else None, sparse_feat=False, tf=False)
    try: m=load_model(td/'params.py')
    except Exception as e:
        bad['load_exc']+=1; ex.setdefault('load_exc',(seed,repr(e))); continue
    sc=m.spike_clusters; st=m.spike_templates
    same=np.array_equal(sc,st)
    if same:
        ok=m.n_clusters==st.max()+1 and m.sparse_clusters.data is m.sparse_templates.data
        if not ok: bad['same']+=1
    else:
        mm=m.merge_map
        ok=set(mm.keys())==set(range(sc.max()+1))
        for c in range(sc.max()+1):
            e=sorted(set(st[sc==c].tolist()))
            if sorted(map(int,mm[c]))!=e: ok=False
        if sorted(map(int,m.nan_idx))!=[c for c in range(sc.max()+1) if not np.any(sc==c)]: ok=False
        if not ok: bad['map']+=1; ex.setdefault('map',(seed,mm,m.nan_idx))
        D=m.sparse_clusters.data
        for c in range(sc.max()+1):
            ts=sorted(set(st[sc==c].tolist()))
            if len(ts)==0:
                if np.any(D[c]!=0): bad['empty_nonzero']+=1
            elif len(ts)==1:
                if not np.array_equal(D[c],g['T'][ts[0]]): bad['single']+=1; ex.setdefault('single',(seed,c,ts))
            else:
                cnt=np.bincount(st[sc==c],minlength=m.n_templates)
                mx=cnt.max(); cands=[t for t in range(m.n_templates) if cnt[t]==mx]
                okc=False
                for dom in cands:
                    chd=m.get_template(dom,unwhiten=False).channel_ids
                    acc=np.zeros((m.n_samples_waveforms,m.n_channels))
                    for t in ts:
                        b=m.get_template(t,unwhiten=False)
                        full=np.zeros((m.n_samples_waveforms,m.n_channels)); full[:,b.channel_ids]=b.template
                        acc+=cnt[t]*full
                    acc/=cnt.sum()
                    e=np.zeros_like(acc); e[:,chd]=acc[:,chd]
                    if np.allclose(D[c],e): okc=True
                if not okc: bad['multi']+=1; ex.setdefault('multi',(seed,c,ts,cnt))
    m.close()
print(bad)
for k,v in ex.items(): print(k,v)
