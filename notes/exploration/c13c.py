from gen import *
from phylib.io.model import load_model
from phylib.io.alf import EphysAlfCreator
rng=np.random.RandomState(0)
root=Path(tempfile.mkdtemp()); td=root/'d'
g=make(td,rng,nc=4,nt=3,ns=10,raw=True,wm='perm')
(td/'temp_wh.dat').write_bytes(b'x'*10)
m=load_model(td/'params.py')
h0=hashes(td)
for target in [td, str(td)+'/', td/'..'/'d']:
    try: EphysAlfCreator(m).convert(target); print('NO RAISE')
    except IOError as e: print('IOError ok')
print('unchanged after guard:', hashes(td)==h0)
out=EphysAlfCreator(m).convert(root/'alf')
h1=hashes(td)
print('deleted',set(h0)-set(h1),'new',set(h1)-set(h0),'changed',[k for k in h0 if k in h1 and h0[k]!=h1[k]])
