import sys
sys.path.insert(0,'/tmp/scratch/phylib')
import numpy as np
from phylib.io.model import compute_features
rng=np.random.RandomState(0)
bad=0
for trial in range(200):
    nsmp=rng.randint(3,7); nc=rng.randint(1,4)
    # per channel: choose magnitudes per sample axis distinct
    k=rng.randint(3,nsmp+1)  # number of active axes
    w=[]
    mags={c: rng.permutation(np.arange(1,9))[:nsmp] for c in range(nc)}
    axes=rng.permutation(nsmp)[:k]
    for a in axes:
        for sgn in (+1,-1):
            x=np.zeros((nsmp,nc))
            for c in range(nc): x[a,c]=sgn*mags[c][a]
            w.append(x)
    w=np.array(w); rng.shuffle(w)
    F=compute_features(w)  # (nspk, nc, 3)
    for c in range(nc):
        var=np.array([ (w[:,a,c]**2).sum() for a in range(nsmp)])
        order=np.argsort(-var,kind='stable')
        if len(set(var[order[:4]]))<min(4,nsmp): continue
        for i in range(3):
            ki=order[i]
            P=np.outer(F[:,c,i],F[:,c,i]); E=np.outer(w[:,ki,c],w[:,ki,c])
            if not np.allclose(P,E,atol=1e-4): bad+=1; print('bad',trial,c,i,F[:,c,i],w[:,ki,c]); break
print('bad',bad, F.dtype)
print(np.abs(F-np.round(F)).max())
