import sys
sys.path.insert(0,'/tmp/scratch/phylib')
from phylib.io.array import chunk_bounds
bad=0
for n in range(1,31):
  for cs in range(1,13):
    for ov in range(0,cs):
      for (s0,s1,k0,k1) in chunk_bounds(n,cs,ov):
        K=set(range(k0,min(k1,n))); S=set(range(s0,min(s1,n)))
        if not K<=S or not (s0<=k0<=k1<=s1):
          bad+=1
          if bad<5: print(n,cs,ov,(s0,s1,k0,k1))
print(bad)
