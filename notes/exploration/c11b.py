from gen import *
from phylib.io.model import load_model
from phylib.io.merge import Merger
from phylib.utils._misc import _write_tsv_simple, _read_tsv_simple
from c08 import curate
import collections, logging
logging.disable(logging.CRITICAL)
agg=collections.Counter(); ex={}
for seed in range(60):
    rng=np.random.RandomState(seed)
    k=rng.randint(1,5)
    root=Path(tempfile.mkdtemp()); subs=[]; metas=[]; scs=[]
    for i in range(k):
        td=root/('p%d'%i)
        g=make(td,rng,nc=rng.choice([3,4]),nt=3,raw=False,ns=rng.randint(3,8),curated=(curate if rng.rand()<.5 else (lambda st,r: st)),wm='perm',nloc=2)
        sc=np.load(td/'spike_clusters.npy'); scs.append(sc)
        meta={}
        for fn,field,vals in [('cluster_KSLabel.tsv','KSLabel',['good','mua']),('cluster_Amplitude.tsv','Amplitude',[1.5,20,3.25]),('cluster_ContamPct.tsv','ContamPct',[0,100,12.5])]:
            if rng.rand()<.6:
                d={int(c):vals[rng.randint(len(vals))] for c in np.unique(sc)}
                _write_tsv_simple(td/fn,field,d); meta[fn]=(field,d)
        metas.append(meta); subs.append(td)
    try:
        m=Merger(subs,root/'m').merge()
    except Exception as e:
        import traceback; agg['exc']+=1; ex.setdefault('exc',(seed,traceback.format_exc()[-500:])); continue
    offs=np.cumsum([0]+[int(s.max())+1 for s in scs])
    for fn in ['cluster_KSLabel.tsv','cluster_Amplitude.tsv','cluster_ContamPct.tsv']:
        exp={}
        for i in range(k):
            if fn in metas[i]:
                for c,v in metas[i][fn][1].items(): exp[c+int(offs[i])]=v
        p=root/'m'/fn
        if not exp:
            if p.exists(): agg['unexpected_file']+=1
            continue
        if not p.exists(): agg['missing_file']+=1; ex.setdefault('missing_file',(seed,fn)); continue
        field,got=_read_tsv_simple(p)
        if got!=exp: agg['tsv']+=1; ex.setdefault('tsv',(seed,fn,got,exp))
        fields={metas[i][fn][0] for i in range(k) if fn in metas[i]}
        if field not in fields: agg['field']+=1
        # model metadata
        if m.metadata.get(field)!=exp: agg['model_md']+=1; ex.setdefault('model_md',(seed,fn,m.metadata.get(field),exp))
    cp=np.load(root/'m'/'cluster_probes.npy')
    if list(cp)!=sum([[i]*(int(scs[i].max())+1) for i in range(k)],[]): agg['cp']+=1
    # probes.description.tsv
    if not (root/'m'/'probes.description.tsv').exists(): agg['nodesc']+=1
    m.close()
print(agg)
for kk,v in ex.items(): print(kk,str(v)[:600])
