import sys, itertools, collections
sys.path.insert(0,'/tmp/scratch/phylib')
import numpy as np
from phylib.io.array import _spikes_per_cluster, _spikes_in_clusters, _unique, _index_of, _flatten_per_cluster, grouped_mean
bad=collections.Counter(); ex={}
alpha=[0,2,3,7]
for dt in [np.int32,np.int64,np.uint16,np.uint32]:
  for L in range(1,7):
    for v in itertools.product(alpha,repeat=L):
      sc=np.array(v,dtype=dt)
      try:
        spc=_spikes_per_cluster(sc)
        exp={c:[i for i,x in enumerate(v) if x==c] for c in set(v)}
        got={int(k):list(map(int,val)) for k,val in spc.items()}
        if got!=exp: bad[('spc',dt.__name__)]+=1; ex.setdefault(('spc',dt.__name__),(v,got,exp))
        u=_unique(sc)
        if list(u)!=sorted(set(v)): bad[('uniq',dt.__name__)]+=1; ex.setdefault(('uniq',dt.__name__),(v,u))
        for req in [[0],[2,7],[7,2],[5],[],[3,5,0]]:
          s=_spikes_in_clusters(sc,req)
          e=[i for i,x in enumerate(v) if x in req]
          if list(s)!=e: bad[('sic',dt.__name__)]+=1; ex.setdefault(('sic',dt.__name__),(v,req,s))
        ids=np.arange(L)*3+1
        spc2=_spikes_per_cluster(sc,ids)
        got={int(k):list(map(int,val)) for k,val in spc2.items()}
        exp2={c:[int(ids[i]) for i in e] for c,e in exp.items()}
        if got!=exp2: bad[('spc_ids',dt.__name__)]+=1; ex.setdefault(('spc_ids',dt.__name__),(v,got,exp2))
        f=_flatten_per_cluster(spc)
        if list(f)!=list(range(L)): bad[('flat',dt.__name__)]+=1
        gm=grouped_mean(np.arange(L)*2.0, sc)
        eg=[np.mean([2.0*i for i in exp[c]]) for c in sorted(exp)]
        if not np.allclose(gm,eg): bad[('gm',dt.__name__)]+=1; ex.setdefault(('gm',dt.__name__),(v,gm,eg))
        lk=np.array([7,0,3,2]); io=_index_of(sc,lk)
        if list(io)!=[list(lk).index(x) for x in v]: bad[('idx',dt.__name__)]+=1; ex.setdefault(('idx',dt.__name__),(v,io))
      except Exception as e:
        bad[('exc',dt.__name__,type(e).__name__)]+=1; ex.setdefault(('exc',dt.__name__),(v,repr(e)))
print(bad)
for k,v in ex.items(): print(k,v)
