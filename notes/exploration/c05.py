from gen import *
from phylib.io.model import load_model, from_sparse
import collections
bad=collections.Counter(); ex={}
for seed in range(60):
    rng=np.random.RandomState(seed)
    td=Path(tempfile.mkdtemp())/'d'
    nc=rng.choice([3,6,14]); 
    shanks=rng.randint(0,2,size=nc) if seed%2 else None
    g=make(td,rng,nc=nc,nt=4,shanks=shanks,wm='perm' if seed%3 else None, raw=False)
    m=load_model(td/'params.py')
    for thr in [None,0,0.5,1.0]:
      for unw in [True,False]:
        for t in range(m.n_templates):
            try:
                b=m.get_template(t,amplitude_threshold=thr,unwhiten=unw)
            except Exception as e:
                bad['exc']+=1; ex.setdefault('exc',(seed,t,thr,unw,repr(e))); continue
            full=(g['T'][t]@m.wmi).astype(np.float32) if unw else g['T'][t]
            amp=full.max(0)-full.min(0)
            ch=b.channel_ids
            ok_cols=np.array_equal(b.template,full[:,ch])
            ok_amp=len(b.amplitude)==len(ch) and np.array_equal(b.amplitude,amp[ch])
            ok_order=np.all(np.diff(amp[ch])<=0) and amp[ch[0]]==amp.max() and amp[b.best_channel]==amp.max() and len(set(ch))==len(ch)
            best=b.best_channel
            d=((m.channel_positions-m.channel_positions[best])**2).sum(1)
            near=set(np.argsort(d,kind='stable')[:12])
            exp=set(c for c in range(nc) if c in near and m.channel_shanks[c]==m.channel_shanks[best] and amp[c]>=(thr or 0)*amp[best])
            ok_set=set(ch)==exp
            for nm,ok in [('cols',ok_cols),('amp',ok_amp),('order',ok_order),('set',ok_set)]:
                if not ok: bad[nm]+=1; ex.setdefault(nm,(seed,t,thr,unw,ch,b.amplitude,amp))
    m.close()
print(bad)
for k,v in ex.items(): print(k,v)
