from gen import *
from phylib.io.model import load_model
rng=np.random.RandomState(3)
td=Path(tempfile.mkdtemp())/'d'
g=make(td,rng,nc=6,nt=4,raw=False)
rows=np.array([1,4,5,9,12]); TF=np.load(td/'template_features.npy')[rows]; np.save(td/'template_features.npy',TF); np.save(td/'template_feature_spike_ids.npy',rows)
m=load_model(td/'params.py')
for sp in [[4,9],[9,4],[1,2,4],[2,3]]:
    try: print(sp, m.get_template_features(np.array(sp)).shape)
    except Exception as e: print(sp,'EXC',repr(e))
