import sys, itertools, tempfile, os
sys.path.insert(0,'/tmp/scratch/phylib')
import numpy as np
from phylib.io.traces import get_ephys_reader
from pathlib import Path
td=Path(tempfile.mkdtemp())
n,nc=6,4
arr=(np.arange(n*nc).reshape(n,nc)+1).astype(np.int16)
p1=td/'a.bin'; p2=td/'b.bin'; arr[:2].tofile(p1); arr[2:].tofile(p2)
r=get_ephys_reader([p1,p2], n_channels=nc, dtype=np.int16, sample_rate=100.)
for it in [2, slice(1,4), [1,3], np.array([1,3]), np.array([2]), [2], np.array([0,1,2,3,4,5])]:
    for cols in [slice(None), slice(1,3), slice(None,None,-1), [0,2], [3,1,0,2], np.array([3,1,0,2])]:
        try:
            got=r[it,cols]
            exp=arr[it][:,cols] if not isinstance(it,int) else arr[[it]][:,cols]
            ok=np.array_equal(got,exp) and got.dtype==exp.dtype
            if not ok: print('MISMATCH',it,cols,got,exp)
        except Exception as e:
            print('EXC',repr(it),repr(cols),repr(e))
# offsets
for off in [0,1,7]:
    p=td/('o%d.bin'%off)
    with open(p,'wb') as f: f.write(b'\x01'*off); f.write(arr.tobytes())
    r=get_ephys_reader(p, n_channels=nc, dtype=np.int16, sample_rate=100., offset=off)
    print(off, r.shape, np.array_equal(r[:],arr))
# npy & array
np.save(td/'x.npy',arr)
r=get_ephys_reader(td/'x.npy', sample_rate=100.); print(r.shape, r.dtype, np.array_equal(r[:],arr), r.duration)
r=get_ephys_reader(arr, sample_rate=100.); print(r.shape, r.dtype, np.array_equal(r[1:3,[1,0]],arr[1:3,[1,0]]))
# cbin
import mtscomp
big=np.random.randint(-100,100,size=(250,nc)).astype(np.int16)
big.tofile(td/'big.bin')
mtscomp.compress(td/'big.bin', td/'big.cbin', td/'big.ch', sample_rate=100., n_channels=nc, dtype=np.int16, chunk_duration=.5, check_after_compress=False)
r=get_ephys_reader(td/'big.cbin')
print('cbin', r.shape, r.dtype, r.chunk_bounds[:5], r.part_bounds)
for it in [0,-1,249,slice(10,130),slice(-30,None),slice(None,50), [1,60,200], np.array([1,60,200])]:
    try:
        got=r[it]; exp=big[[it]] if isinstance(it,int) else big[it]
        print(it, got.shape==exp.shape and np.array_equal(got,exp))
    except Exception as e: print('EXC',it,repr(e))
print(list(r.iter_chunks(cache=False))[:8])
