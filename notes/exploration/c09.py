from gen import *
from phylib.io.model import load_model
from c08 import curate
import collections
bad=collections.Counter(); ex={}
for seed in range(80):
    rng=np.random.RandomState(seed)
    td=Path(tempfile.mkdtemp())/'d'
    nt=5
    g=make(td,rng,nc=5,nt=nt,raw=False,curated=curate if seed%3 else None, wm='perm' if seed%2 else None, sparse_feat=True, tf=False, ns=12)
    # force some templates w/o spikes: including highest
    try: m=load_model(td/'params.py')
    except Exception as e:
        bad['load_exc']+=1; ex.setdefault('load_exc',(seed,repr(e))); continue
    for use in ['templates','clusters']:
      for s2u in [1.,2,0.5]:
        try:
            sa,tw,ta=m.get_amplitudes_true(s2u,use=use)
        except Exception as e:
            bad['gat_exc_'+use]+=1; ex.setdefault('gat_exc_'+use,(seed,use,repr(e),m.spike_templates,m.spike_clusters,m.n_templates,m.n_clusters)); continue
        sp=m.sparse_templates if use=='templates' else m.sparse_clusters
        ids=m.spike_templates if use=='templates' else m.spike_clusters
        n=m.n_templates if use=='templates' else m.n_clusters
        W=np.stack([sp.data[i]@m.wmi for i in range(n)]) 
        ptp=(W.max(1)-W.min(1)).max(1)
        esa=m.amplitudes*ptp[ids]*s2u
        if not np.allclose(sa,esa): bad['sa']+=1; ex.setdefault('sa',(seed,use))
        if len(ta)!=n: bad['ta_len_'+use]+=1; ex.setdefault('ta_len_'+use,(seed,use,len(ta),n,ids))
        for i in range(min(n,len(ta))):
            mem=esa[ids==i]
            if len(mem)==0:
                if not np.isnan(ta[i]): bad['ta_nan']+=1
            else:
                if not np.isclose(ta[i],mem.mean()): bad['ta']+=1
                if ptp[i]>0:
                  tp=(tw[i].max(0)-tw[i].min(0)).max()
                  if not np.isclose(tp,ta[i]): bad['tw']+=1; ex.setdefault('tw',(seed,use,i,tp,ta[i]))
    # _amplitudes
    for nm,ids in [('templates_amplitudes',m.spike_templates),('clusters_amplitudes',m.spike_clusters)]:
        a=getattr(m,nm); u=np.unique(ids)
        e=[m.amplitudes[ids==i].mean() for i in u]
        if not np.allclose(a,e): bad[nm]+=1
    # channels
    tc=m.templates_channels; e=[np.argmax(g['T'][t].max(0)-g['T'][t].min(0)) for t in range(nt)]
    if list(tc)!=e: bad['tc']+=1
    du=m.templates_waveforms_durations
    e=[(g['T'][t][:,tc[t]].argmax()-g['T'][t][:,tc[t]].argmin())/m.sample_rate*1e3 for t in range(nt)]
    if not np.allclose(du,e): bad['dur']+=1
    d=m.get_depths()
    F=np.load(td/'pc_features.npy'); ind=np.load(td/'pc_feature_ind.npy')
    with np.errstate(all='ignore'):
      for s in range(m.n_spikes):
        f=np.maximum(F[s,0,:],0)**2; y=m.channel_positions[ind[m.spike_templates[s]],1]
        e=(f*y).sum()/f.sum()
        if not (np.isclose(d[s],e) or (np.isnan(e) and np.isnan(d[s]))): bad['depth']+=1; ex.setdefault('depth',(seed,s,d[s],e))
    m.close()
print(bad)
for k,v in ex.items(): print(k,str(v)[:600])
