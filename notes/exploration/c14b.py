from c11 import *
from phylib.io.alf import EphysAlfCreator
import traceback
for k in [1,2,3]:
  for seed in range(6):
    rng=np.random.RandomState(seed)
    root=Path(tempfile.mkdtemp()); subs=[]; cms=[]
    for i in range(k):
        td=root/('p%d'%i)
        g=make(td,rng,nc=rng.choice([3,4,5]),nt=3,raw=False,ns=6,wm='perm',nloc=2,n_extra=rng.randint(0,2),sparse_feat=True,tf=True,curated=lambda st,r: st)
        subs.append(td); cms.append(g['cm'])
    m=Merger(subs,root/'m').merge()
    try:
        out=EphysAlfCreator(m).convert(root/'alf')
        ri=np.load(root/'alf'/'channels.rawInd.npy')
        print(k,seed,'rawInd ok' if np.array_equal(ri,np.concatenate(cms)) else ('rawInd BAD',ri,np.concatenate(cms)), 'wfch same probe:', all(len(set(m.channel_probes[r]))==1 for r in np.load(root/'alf'/'templates.waveformsChannels.npy')))
    except Exception as e:
        print(k,seed,'EXC',traceback.format_exc()[-400:])
