from gen import *
from phylib.io.model import load_model
import collections, traceback
agg=collections.Counter(); ex={}
for seed in range(30):
    rng=np.random.RandomState(seed)
    root=Path(tempfile.mkdtemp()); td=root/'d'
    g=make(td,rng,nc=4,nt=3,ns=12,raw=True,wm='perm',sparse_feat=False,tf=False,raw_n=40)
    st0=np.load(td/'spike_templates.npy').copy(); t0=np.load(td/'spike_times.npy').copy()
    m=load_model(td/'params.py')
    ref_sc=m.spike_clusters.copy(); ref_md={}
    foreign={}
    for step in range(12):
        op=rng.choice(['ssc','smd','foreign','bad','subset','reload'])
        try:
            if op=='ssc':
                sc=ref_sc.copy(); i=rng.randint(0,len(sc),size=3); sc[i]=rng.randint(0,8); m.save_spike_clusters(sc); ref_sc=sc
            elif op=='smd':
                f=rng.choice(['group','note','q']); d={int(c):rng.choice([None,3,2.5,'good','a b']) for c in rng.randint(0,6,size=3)}
                d={k:(v if v is None or isinstance(v,str) else (int(v) if float(v).is_integer() else float(v))) for k,v in d.items()}
                m.save_metadata(f,d); ref_md[f]={k:v for k,v in d.items() if v is not None}
            elif op=='foreign':
                (td/'extra.csv').write_text('cluster_id,fx\n1,7\n2,hello\n'); foreign={'fx':{1:7,2:'hello'}}
            elif op=='bad':
                (td/'error.tsv').write_text(rng.choice(['','\x00\x01garbage','cluster_id\n','a\tb\n1\n']))
            elif op=='subset':
                m.save_spikes_subset_waveforms(max_n_spikes_per_template=3,max_n_channels=2)
            elif op=='reload':
                m.close(); m=load_model(td/'params.py')
                if not np.array_equal(m.spike_clusters,ref_sc): agg['sc']+=1; ex.setdefault('sc',(seed,step))
                exp=dict(ref_md); exp.update(foreign)
                got={k:v for k,v in m.metadata.items()}
                if got!=exp: agg['md']+=1; ex.setdefault('md',(seed,step,got,exp))
                if not np.array_equal(m.spike_templates,st0.squeeze()) or not np.array_equal(m.spike_samples,t0.squeeze()): agg['st']+=1
                if m.spike_waveforms is not None:
                    ids=m.spike_waveforms.spike_ids
                    for s in ids:
                        ch=m.spike_waveforms.spike_channels[list(ids).index(s)]
                        ch=ch[ch>=0]
                        a=m.get_waveforms(np.array([s]),ch)
                        sw=m.spike_waveforms; m.spike_waveforms=None
                        b=m.get_waveforms(np.array([s]),ch); m.spike_waveforms=sw
                        if not np.array_equal(a,b): agg['wf']+=1; ex.setdefault('wf',(seed,step,s,ch))
        except Exception as e:
            agg['exc_'+op]+=1; ex.setdefault('exc_'+op,(seed,step,traceback.format_exc()[-500:]))
    m.close()
print(agg)
for k,v in ex.items(): print(k,str(v)[:1200])
