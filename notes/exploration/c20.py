import sys, itertools, tempfile, hashlib
sys.path.insert(0,'/tmp/scratch/phylib')
from pathlib import Path
import responses
from phylib.io.datasets import download_file
GOOD=b'good-bytes'*100; BAD=b'bad!'*50
URL='http://test/data'
sumgood=hashlib.md5(GOOD).hexdigest()
td=Path(tempfile.mkdtemp())
res=[]
viol=0; n=0
for L in range(0,4):
  for script in itertools.product(['good','corrupt','404'],repeat=L):
    for md5 in ['correct','wrong','missing']:
      for prior in ['absent','valid','corrupt']:
        n+=1
        p=td/'f'
        if p.exists(): p.unlink()
        if prior=='valid': p.write_bytes(GOOD)
        if prior=='corrupt': p.write_bytes(BAD)
        log=[]; it=iter(script)
        def data_cb(req):
            log.append('GET data')
            try: r=next(it)
            except StopIteration: raise ConnectionError('script exhausted')
            if r=='404': return (404,{},b'')
            return (200,{},GOOD if r=='good' else BAD)
        def md5_cb(req):
            log.append('GET md5')
            if md5=='missing': return (404,{},b'')
            return (200,{},(sumgood if md5=='correct' else 'f'*32)+'  data')
        with responses.RequestsMock(assert_all_requests_are_fired=False) as rs:
            rs.add_callback(responses.GET,URL,callback=data_cb)
            rs.add_callback(responses.GET,URL+'.md5',callback=md5_cb)
            try:
                out=download_file(URL,p); status='returned'
            except Exception as e:
                status='raised:'+type(e).__name__
        fin='absent' if not p.exists() else 'valid' if p.read_bytes()==GOOD else 'corrupt'
        published_ok = (fin=='valid') if md5=='correct' else False if md5=='wrong' else None
        ngets=log.count('GET data')
        if status=='returned' and md5!='missing' and published_ok is not True: viol+=1; print('VIOL',script,md5,prior,log,fin)
        if prior=='valid' and md5=='correct' and ngets!=0: viol+=1; print('VIOL redownload',script,md5,prior)
        res.append((script,md5,prior,status,fin,ngets))
print(n,'viol',viol)
import collections
print(collections.Counter((r[3],r[5]) for r in res))
