import sys, itertools, tempfile, os, warnings
sys.path.insert(0,'/tmp/scratch/phylib')
import numpy as np
from pathlib import Path
from phylib.io import traces as T
from phylib.io.traces import get_ephys_reader, extract_waveforms, export_waveforms, get_spike_waveforms
from phylib.utils import Bunch
td=Path(tempfile.mkdtemp())
def ref(arr, s, n, chans):
    out=np.zeros((n,len(chans)),dtype=arr.dtype)
    a=n//2
    for k in range(n):
        row=int(s)-a+k
        if 0<=row<arr.shape[0]:
            for j,c in enumerate(chans):
                if c!=-1: out[k,j]=arr[row,c]
    return out
N,nc=23,4
for dt in [np.int16,np.float32,np.float64]:
  arr=(np.arange(N*nc).reshape(N,nc)+1).astype(dt)
  r=get_ephys_reader(arr,sample_rate=100.)
  for sdt in [np.int64,np.uint64,np.int32,np.uint32]:
    ss=np.array([0,1,2,5,10,11,20,21,22],dtype=sdt)
    for n in [1,2,3,4,5]:
      for chans in [[0,1],[2,-1,0],[3]]:
        try:
          w=extract_waveforms(r,ss,np.array(chans),n_samples_waveforms=n)
          for i,s in enumerate(ss):
            if not np.array_equal(w[i],ref(arr,s,n,chans)):
                print('MISMATCH extract',dt.__name__,sdt.__name__,n,chans,int(s)); raise StopIteration
        except StopIteration: pass
        except Exception as e:
          print('EXC extract',dt.__name__,sdt.__name__,n,chans,repr(e)[:150])
# export with chunking
T.DEFAULT_CHUNK_DURATION_SAVE=T.DEFAULT_CHUNK_DURATION
for dt in [np.int16,np.float32,np.float64]:
  arr=(np.arange(N*nc).reshape(N,nc)+1).astype(dt)
  for chunk in [1,2,3,5,7,23,100]:
    T.DEFAULT_CHUNK_DURATION=chunk/100.
    r=get_ephys_reader(arr,sample_rate=100.)
    ss=np.array([0,1,2,5,10,11,20,21,22],dtype=np.uint64)
    sc=np.array([[0,1,-1]]*len(ss)); sc[3]=[2,3,0]
    for n in [3,4]:
      for s2u in [1,2,0.5,None]:
        p=td/'w.npy'
        try:
          export_waveforms(p,r,ss,sc,n_samples_waveforms=n,sample2unit=s2u)
          w=np.load(p)
          okshape=w.shape==(len(ss),n,3)
          exp=np.stack([ref(arr,s,n,sc[i]) for i,s in enumerate(ss)])*(1 if s2u is None else s2u)
          if not okshape or not np.array_equal(w,exp):
            print('MISMATCH export',dt.__name__,chunk,n,s2u,w.dtype,exp.dtype, w.shape)
        except Exception as e:
          print('EXC export',dt.__name__,chunk,n,s2u,repr(e)[:150])
