from gen import *
from phylib.io.model import load_model
from phylib.io.alf import EphysAlfCreator
from c08 import curate
import collections, traceback
agg=collections.Counter(); ex={}
for seed in range(40):
    rng=np.random.RandomState(seed)
    root=Path(tempfile.mkdtemp()); td=root/'d'
    cur=curate if seed%3==0 else None if seed%3==1 else (lambda st,r: st)
    nc=rng.choice([4,6,14])
    g=make(td,rng,nc=nc,nt=4,ns=15,raw=bool(seed%2),curated=cur,wm='perm',sparse_feat=bool(seed%4),probes=None,raw_dtype=np.int16)
    m=load_model(td/'params.py')
    h0=hashes(td)
    label='' if seed%2 else 'probe00'
    try:
        out=EphysAlfCreator(m).convert(root/'alf',label=label,ampfactor=[1,2.5][seed%2])
    except Exception as e:
        agg['exc']+=1; ex.setdefault('exc',(seed,traceback.format_exc()[-700:])); continue
    h1=hashes(td)
    new=set(h1)-set(h0); changed=[k for k in h0 if h0[k]!=h1.get(k)]
    if changed or not new<= {'_phy_spikes_subset.waveforms.npy','_phy_spikes_subset.spikes.npy','_phy_spikes_subset.channels.npy'}: agg['src']+=1; ex.setdefault('src',(seed,new,changed))
    files=sorted(p.name for p in (root/'alf').iterdir())
    if seed<2: print(files)
    ns=m.n_spikes; ncl=(m.spike_clusters.max()+1) if not np.array_equal(m.spike_clusters,m.spike_templates) else m.n_templates
    for f in (root/'alf').iterdir():
        pre=f.name.split('.')[0]
        if pre in('spikes','clusters','templates','channels'):
            if label and f.name.split('.')[-2]!=label: agg['label']+=1; ex.setdefault('label',(seed,f.name))
            if f.suffix=='.npy': n0=np.load(f).shape[0]
            else: n0=len(f.read_text().splitlines())-1
            e={'spikes':ns,'clusters':ncl,'templates':m.n_templates,'channels':m.n_channels}[pre]
            if n0!=e: agg['dim_'+pre]+=1; ex.setdefault('dim_'+pre,(seed,f.name,n0,e))
    # reload
    for nm in ['spike_times','spike_samples','spike_clusters','spike_templates','channel_mapping','channel_positions']:
        a=getattr(out,nm); b=getattr(m,nm)
        if not (a.shape==b.shape and np.array_equal(a,b)): agg['reload_'+nm]+=1; ex.setdefault('reload_'+nm,(seed,a[:5],b[:5]))
    m.close(); out.close()
print(agg)
for k,v in ex.items(): print(k,str(v)[:900])
