import sys, itertools, collections
sys.path.insert(0,'/tmp/scratch/phylib')
import numpy as np
from math import ceil
from phylib.io.array import SpikeSelector, _spikes_per_cluster
bad=collections.Counter(); ex={}
rng=np.random.RandomState(0)
for trial in range(3000):
    L=rng.randint(1,15)
    t=np.sort(rng.randint(0,20,size=L))
    c=rng.choice([0,1,4],size=L)
    nb=rng.randint(2,8)
    cb=sorted(set([0,20]+list(rng.randint(1,20,size=nb-2))))
    nk=rng.randint(1,6)
    spc=_spikes_per_cluster(c)
    ss=SpikeSelector(get_spikes_per_cluster=lambda cl: spc.get(cl,np.array([],dtype=np.int64)),spike_times=t,chunk_bounds=cb,n_chunks_kept=nk)
    ck=ss.chunks_kept
    nch=len(cb)-1
    stride=max(1,int(ceil(nch/nk)))
    exp_kept=[(cb[i],cb[i+1]) for i in range(0,nch,stride)]
    got_kept=list(zip(ck[0::2],ck[1::2]))
    if got_kept!=exp_kept or len(got_kept)>nk: bad['kept']+=1; ex.setdefault('kept',(cb,nk,got_kept))
    for n in [None,0,1,2,100]:
      for req in [[0],[1,4],[4,0,1],[7],[],[0,7]]:
        for sc_ in [False,True]:
          for sub in [None, np.arange(0,L,2)]:
            out=ss(n,req,subset_chunks=sc_,subset_spikes=sub)
            ok=np.all(np.diff(out)>0) if len(out)>1 else True
            for cl in req:
                elig=[i for i in range(L) if c[i]==cl and (not sc_ or any(a<=t[i]<b for a,b in got_kept)) and (sub is None or i in sub)]
                sel=[i for i in out if c[i]==cl]
                if not set(sel)<=set(elig): ok=False
                if n and n>0 and len(elig)>n:
                    if len(sel)!=n: ok=False
                else:
                    if sorted(sel)!=elig: ok=False
            if not all(c[i] in req for i in out): ok=False
            if not ok: bad['sel']+=1; ex.setdefault('sel',(t,c,cb,nk,n,req,sc_,sub,out))
print(bad)
for k,v in ex.items(): print(k,v)
