from gen import *
from phylib.io.model import load_model
from phylib.io.alf import EphysAlfCreator
import logging; logging.disable(logging.CRITICAL)
rng=np.random.RandomState(0)
root=Path(tempfile.mkdtemp()); td=root/'d'
g=make(td,rng,nc=4,nt=4,ns=10,raw=False,wm='perm',sparse_feat=False,tf=False)
st=np.load(td/'spike_templates.npy'); st[st==1]=0; np.save(td/'spike_templates.npy',st)   # template 1 has no spikes
m=load_model(td/'params.py')
out=EphysAlfCreator(m).convert(root/'alf')
print('spike_templates',m.spike_templates,'nan_idx',m.nan_idx)
for f in ['clusters.depths.npy','clusters.amps.npy','clusters.peakToTrough.npy','clusters.channels.npy','templates.amps.npy']:
    print(f,np.load(root/'alf'/f))
print('spikes.depths',np.load(root/'alf'/'spikes.depths.npy'))
