from gen import *
from phylib.io.model import load_model
import logging; logging.disable(logging.CRITICAL)
rng=np.random.RandomState(3)
td=Path(tempfile.mkdtemp())/'d'
g=make(td,rng,nc=6,nt=4,raw=False)
rows=np.array([1,4,5,9,12]); TF0=np.load(td/'template_features.npy'); TF=TF0[rows]; np.save(td/'template_features.npy',TF); np.save(td/'template_feature_spike_ids.npy',rows)
tind=np.load(td/'template_feature_ind.npy')
m=load_model(td/'params.py')
def exp(s):
    t=g['st'][s]; r=list(rows).index(s)
    return [TF[r,list(tind[t]).index(tt)] if tt in tind[t] else 0 for tt in range(m.n_templates)]
for sp in [[4,9],[9,4],[12,1,5]]:
    out=m.get_template_features(np.array(sp))
    print(sp,[list(out[i])==exp(s) for i,s in enumerate(sp)])
# pc features with row table, unsorted
F=np.load(td/'pc_features.npy'); ind=np.load(td/'pc_feature_ind.npy')
rows2=np.array([0,2,3,7,8,11]); np.save(td/'pc_features.npy',F[rows2]); np.save(td/'pc_feature_spike_ids.npy',rows2)
m=load_model(td/'params.py')
for sp in [[3,7],[7,3],[11,0,8]]:
    out=m.get_features(np.array(sp),np.arange(6))
    ok=[]
    for i,s in enumerate(sp):
        t=g['st'][s]; r=list(rows2).index(s)
        e=np.zeros((6,3)); 
        for j,c in enumerate(ind[t]): e[c]=F[rows2][r,:,j]
        ok.append(np.array_equal(out[i],e))
    print('pc',sp,ok)
