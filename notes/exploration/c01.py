import sys, itertools, tempfile, os
sys.path.insert(0,'/tmp/scratch/phylib')
import numpy as np
from phylib.io.traces import get_ephys_reader, _get_subitems
from pathlib import Path
import collections
fails=collections.Counter(); ex={}
def compositions(n):
    if n==0: yield []; return
    for first in range(1,n+1):
        for rest in compositions(n-first): yield [first]+rest
td=Path(tempfile.mkdtemp())
for n in range(1,6):
  for comp in compositions(n):
    nc=3
    arr=(np.arange(n*nc).reshape(n,nc)+1).astype(np.int16)
    paths=[]; o=0
    for k,sz in enumerate(comp):
        p=td/('f%d_%d_%s.bin'%(n,k,'_'.join(map(str,comp)))); arr[o:o+sz].tofile(p); paths.append(p); o+=sz
    r=get_ephys_reader(paths, n_channels=nc, dtype=np.int16, sample_rate=100.)
    assert r.shape==arr.shape, (r.shape, arr.shape)
    items=[]
    for i in range(-n,n): items.append(i)
    for a in [None]+list(range(-n,n+1)):
        for b in [None]+list(range(-n,n+1)):
            s=slice(a,b)
            if len(arr[s])>=1: items.append(s)
    for k in range(1,n+1):
        for idx in itertools.combinations(range(n),k):
            items.append(list(idx)); items.append(np.array(idx))
    for it in items:
        exp=arr[it] if not isinstance(it,int) else arr[it:it+1 if it!=-1 else None]
        if isinstance(it,int): exp=arr[[it]]
        try:
            got=r[it]
            ok = got.shape==exp.shape and np.array_equal(got,exp)
        except Exception as e:
            ok=False; got=repr(e)
        if not ok:
            key=('int' if isinstance(it,int) else type(it).__name__)
            fails[key]+=1
            ex.setdefault(key,(comp,it,got,exp))
print(fails)
for k,v in ex.items(): print(k,v)
