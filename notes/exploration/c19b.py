import sys, random
sys.path.insert(0,'/tmp/scratch/phylib')
from phylib.utils.event import EventEmitter, ProgressReporter, connect, reset as greset
import numpy as np
from phylib.stats.ccg import firing_rate
bad=0
for seed in range(3000):
    rng=random.Random(seed)
    e=EventEmitter(); log=[]
    senders={'s1':object(),'s2':object()}
    fns={}
    def mk(name):
        def f(sender,*a,**k): log.append((name,sender,a,tuple(sorted(k.items())))); return name
        return f
    for nm in ['f1','f2','f3']: fns[nm]=mk(nm)
    model=[]; silent=False
    for step in range(12):
        op=rng.choice(['connect','connect','unconnect','reset','toggle','set','emit','emit','emit'])
        if op=='connect':
            fn=rng.choice(list(fns)); ev=rng.choice('ab'); s=rng.choice(['s1','s2',None]); last=rng.random()<.3
            kw={'last':True} if last else {}
            if rng.random()<.5:
                g=fns[fn]; g.__name__='on_'+ev; e.connect(g,sender=senders.get(s),**kw)
            else:
                e.connect(fns[fn],event=ev,sender=senders.get(s),**kw)
            model.append((ev,s,fn,last))
        elif op=='unconnect':
            x=rng.choice(['f1','f2','f3','s1','s2'])
            e.unconnect(fns[x] if x in fns else senders[x])
            model=[c for c in model if c[2]!=x and c[1]!=x]
        elif op=='reset': e.reset(); model=[]
        elif op=='toggle':
            cm=e.silent(); cm.__enter__(); silent=not silent
        elif op=='set':
            b=rng.random()<.5; e.set_silent(b); silent=b
        else:
            ev=rng.choice('ab'); s=rng.choice(['s1','s2']); single=rng.random()<.3
            del log[:]
            kw={'single':True} if single else {}
            ret=e.emit(ev,senders[s],1,'x',key=2,**kw)
            exp=[c[2] for c in model if not c[3] and c[0]==ev and c[1] in (None,s)]+[c[2] for c in model if c[3] and c[0]==ev and c[1] in (None,s)]
            if silent: ok=(ret is None and log==[])
            elif single: ok=(ret==(exp[0] if exp else []) and [l[0] for l in log]==exp[:1])
            else: ok=(ret==exp and [l[0] for l in log]==exp)
            ok=ok and all(l[1] is senders[s] and l[2]==(1,'x') and l[3]==(('key',2),) for l in log)
            if not ok: bad+=1; print('BAD',seed,step,ret,exp,log[:2]); break
print('emitter bad',bad)
# firing rate
rng=np.random.RandomState(0); b2=0
for t in range(500):
    ids=list(rng.permutation([0,3,5,9])[:rng.randint(1,5)])
    sc=rng.choice(ids,size=rng.randint(1,20)) if rng.rand()<.9 else np.array([ids[0]])
    fr=firing_rate(sc,cluster_ids=ids,bin_size=.5,duration=8.)
    cnt=np.array([np.sum(sc==i) for i in ids])
    if not np.array_equal(fr,np.outer(cnt,cnt)*(.5/8.)): b2+=1
print('firing bad',b2)
