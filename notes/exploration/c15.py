import sys, itertools, collections
sys.path.insert(0,'/tmp/scratch/phylib')
import numpy as np
from phylib.stats.ccg import correlograms, firing_rate
bad=collections.Counter(); ex={}
def brute(t,c,cl,binsize,half):
    n=len(cl); out=np.zeros((n,n,half+1),dtype=int)
    for a in range(len(t)):
        for b in range(a+1,len(t)):
            if c[a] in cl and c[b] in cl:
                k=(t[b]-t[a])//binsize
                if k<=half: out[cl.index(c[a]),cl.index(c[b]),k]+=1
    return out
cnt=0
for L in range(1,6):
  for t in itertools.combinations_with_replacement(range(0,7),L):
    for c in itertools.product([0,1,5],repeat=L):
      for (binsize,half,cl) in [(1,2,[0,1,5]),(2,1,[5,0,1]),(1,3,[1,5,0,3]),(3,0,[0,1,5])]:
        cnt+=1
        try:
          got=correlograms(np.array(t,dtype=float),np.array(c),cluster_ids=cl,sample_rate=1.,bin_size=binsize,window_size=2*half*binsize+binsize*.5 if half else binsize*.5,symmetrize=False)
          exp=brute(t,c,cl,binsize,half)
          if got.shape!=exp.shape or not np.array_equal(got,exp):
            bad['one']+=1; ex.setdefault('one',(t,c,binsize,half,cl,got.tolist(),exp.tolist()))
          s=correlograms(np.array(t,dtype=float),np.array(c),cluster_ids=cl,sample_rate=1.,bin_size=binsize,window_size=2*half*binsize+binsize*.5 if half else binsize*.5,symmetrize=True)
          ok=s.shape[2]==2*half+1 and all(s[i,j,half+k]==s[j,i,half-k] for i in range(len(cl)) for j in range(len(cl)) for k in range(-half,half+1))
          ok=ok and np.array_equal(s[:,:,half+1:],exp[:,:,1:]) and np.array_equal(s[:,:,half],np.maximum(exp[:,:,0],exp[:,:,0].T))
          if not ok: bad['sym']+=1; ex.setdefault('sym',(t,c,binsize,half,cl))
        except Exception as e:
          bad['exc']+=1; ex.setdefault('exc',(t,c,binsize,half,cl,repr(e)))
print(cnt,bad)
for k,v in ex.items(): print(k,v)
print(firing_rate(np.array([0,0,5,1]),cluster_ids=[5,3,0,1],bin_size=.5,duration=10.))
