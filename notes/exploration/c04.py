from gen import *
from phylib.io.model import load_model
import warnings
rng=np.random.RandomState(1)
td=Path(tempfile.mkdtemp())/'d'
g=make(td,rng,n_extra=2,col1=True,shanks=[0,0,0,1,1,1])
h0=hashes(td)
m=load_model(td/'params.py')
h1=hashes(td)
print('new files',set(h1)-set(h0),'changed',[k for k in h0 if h0[k]!=h1[k]])
print(m.spike_samples.dtype,m.spike_samples[:5],m.spike_times[:5],m.spike_clusters.dtype,m.spike_templates.dtype)
print(m.channel_mapping,m.channel_shanks,m.channel_probes,m.n_templates,m.n_clusters)
print('traces',m.traces.shape, np.array_equal(m.traces[:],g['raw'][:,g['cm']]))
print('wmi ok',np.array_equal(m.wmi@m.wm,np.eye(6)))
print(m.amplitudes[:4], m.sparse_features.data.shape, m.sparse_features.cols.shape, m.sparse_features.rows)
print(m.metadata, m.spike_attributes)
m.close()
