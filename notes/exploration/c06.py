from gen import *
from phylib.io.model import load_model, from_sparse
import collections, itertools
bad=collections.Counter(); ex={}
# from_sparse direct
rng=np.random.RandomState(0)
for trial in range(2000):
    ns=rng.randint(0,4); nl=rng.randint(1,4); extra=() if trial%2 else (2,)
    data=rng.randint(1,9,size=(ns,nl)+extra).astype(np.float32)
    cols=np.array([rng.permutation(6)[:nl] for _ in range(ns)]).reshape(ns,nl).astype(rng.choice([np.int32,np.uint32,np.int64]))
    k=rng.randint(1,7); ch=rng.permutation(8)[:k]
    try:
        out=from_sparse(data,cols,ch)
        exp=np.zeros((ns,k)+extra,dtype=np.float32)
        for s in range(ns):
            for j in range(nl):
                if cols[s,j] in ch: exp[s,list(ch).index(cols[s,j])]=data[s,j]
        if out.shape!=exp.shape or not np.array_equal(out,exp): bad['fs']+=1; ex.setdefault('fs',(data,cols,ch,out))
    except Exception as e:
        bad['fs_exc']+=1; ex.setdefault('fs_exc',(data.shape,cols,ch,repr(e)))
for seed in range(40):
    rng=np.random.RandomState(seed)
    td=Path(tempfile.mkdtemp())/'d'
    g=make(td,rng,nc=6,nt=4,raw=False,feat_rows=bool(seed%2))
    m=load_model(td/'params.py')
    F=np.load(td/'pc_features.npy'); ind=np.load(td/'pc_feature_ind.npy')
    rows=np.load(td/'pc_feature_spike_ids.npy') if seed%2 else np.arange(m.n_spikes)
    for trial in range(10):
        k=rng.randint(1,7); ch=rng.permutation(6)[:k]
        sp=np.sort(rng.choice(m.n_spikes,size=rng.randint(0,8),replace=False))
        try:
            out=m.get_features(sp,ch)
        except Exception as e:
            bad['gf_exc']+=1; ex.setdefault('gf_exc',(seed,sp,ch,repr(e))); continue
        ok=out.shape==(len(sp),k,3)
        for i,s in enumerate(sp):
            if s in rows:
                r=list(rows).index(s)
                for j,c in enumerate(ch):
                    t=g['st'][s]
                    if c in ind[t]:
                        e=F[r,:,list(ind[t]).index(c)]
                    else: e=np.zeros(3)
                    if not np.array_equal(out[i,j],e): ok=False
        if not ok: bad['gf']+=1; ex.setdefault('gf',(seed,sp,ch,out))
        # template features
        try:
            tfo=m.get_template_features(sp)
            TF=np.load(td/'template_features.npy'); tind=np.load(td/'template_feature_ind.npy')
            ok=tfo.shape==(len(sp),m.n_templates)
            for i,s in enumerate(sp):
                for tt in range(m.n_templates):
                    t=g['st'][s]
                    e=TF[s,list(tind[t]).index(tt)] if tt in tind[t] else 0
                    if tfo[i,tt]!=e: ok=False
            if not ok: bad['tf']+=1; ex.setdefault('tf',(seed,sp,tfo))
        except Exception as e:
            bad['tf_exc']+=1; ex.setdefault('tf_exc',(seed,sp,repr(e)))
    m.close()
print(bad)
for k,v in ex.items(): print(k,v)
