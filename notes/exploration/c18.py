import sys, itertools, collections, tempfile
sys.path.insert(0,'/tmp/scratch/phylib')
import numpy as np
from pathlib import Path
from phylib.utils._misc import save_json, load_json, read_tsv, write_tsv, _read_tsv_simple, _write_tsv_simple, read_python, write_python
td=Path(tempfile.mkdtemp())
def eq(a,b):
    if isinstance(a,np.ndarray) or isinstance(b,np.ndarray):
        if isinstance(a,np.ndarray) and isinstance(b,np.ndarray):
            return a.dtype==b.dtype and a.shape==b.shape and np.array_equal(a,b,equal_nan=False)
        return False
    if isinstance(a,dict): return isinstance(b,dict) and a.keys()==b.keys() and all(eq(a[k],b[k]) for k in a)
    if isinstance(a,list): return isinstance(b,list) and len(a)==len(b) and all(eq(x,y) for x,y in zip(a,b))
    return type(a)==type(b) and a==b
cases={}
for dt in ['int8','uint8','int16','uint16','int32','uint32','int64','uint64','float16','float32','float64','bool','complex64']:
    for shape in [(0,),(3,),(10,),(11,),(2,3),(2,3,2),(),(0,3),(11,1)]:
        a=(np.arange(int(np.prod(shape))).reshape(shape)%2 if dt=='bool' else np.arange(int(np.prod(shape))).reshape(shape)).astype(dt)
        cases[('arr',dt,shape)]=a
        if len(shape)==2 and shape[0]>0:
            cases[('arrT',dt,shape)]=a.T
            cases[('arrF',dt,shape)]=np.asfortranarray(a)
            cases[('arrS',dt,shape)]=a[:,::2]
cases['int']=3; cases['float']=1.5; cases['str']='abc'; cases['none']=None; cases['bool']=True; cases['list']=[1,'a',None,2.5]; cases['nested']={'a':{'b':[1,2]}}
cases['npint']=np.int32(4); cases['npfloat']=np.float32(1.5)
cases['big1d']=np.arange(11)
cases['nested_intkey']={'a':{1:2}}
for k,v in cases.items():
    p=td/'x.json'
    try:
        save_json(p,{'k':v, 7:v}); out=load_json(p)
        exp=v
        if isinstance(v,np.ndarray) and v.ndim==1 and v.shape[0]<=10: exp=v.tolist()
        if isinstance(v,np.generic): exp=v.item()
        if set(out.keys())!={'k',7} or not eq(out['k'],exp) or not eq(out[7],exp):
            print('MISMATCH',k,repr(out.get('k'))[:80], repr(exp)[:80])
    except Exception as e:
        print('EXC',k,repr(e)[:120])
save_json(td/'y.json',{-1:1,0:2,'5':3,'a':4}); print(load_json(td/'y.json'))
# tsv
rows=[{'cluster_id':1,'a':1.5,'b':'x,y'},{'cluster_id':2,'b':'he said "hi"\t'},{'cluster_id':3,'a':2,'c':'1e5x'},{}]
for ext in ['tsv','csv']:
    p=td/('t.'+ext); write_tsv(p,rows,first_field='cluster_id'); print(ext, read_tsv(p)); print(repr(p.read_text()))
_write_tsv_simple(td/'s.tsv','grp',{3:'good',1:2,10:1.25,7:'a b'}); print(_read_tsv_simple(td/'s.tsv'))
write_python(td/'p.py',{'a':1,'b':'x','c':[1,2],'d':2.5,'e':None,'f':True, 'g':'it"s'}); 
try: print(read_python(td/'p.py'))
except Exception as e: print('EXC py',repr(e))
