import sys, json
from gen import *
from phylib.io.model import load_model
out=open('/tmp/scratch/tla/c05_trace.ndjson','w')
tid=0
for seed in range(40):
    rng=np.random.RandomState(seed)
    td=Path(tempfile.mkdtemp())/'d'
    nc=int(rng.choice([3,5,7])); nt=3
    shanks=rng.randint(0,2,size=nc)
    g=make(td,rng,nc=nc,nt=nt,shanks=shanks,wm='perm' if seed%3 else None, raw=False, sparse_feat=False, tf=False)
    pos=np.c_[rng.randint(0,3,size=nc)*10, rng.randint(0,3,size=nc)*10].astype(float)
    # make positions distinct
    pos=np.array([[ (i%3)*10, (i//3)*10] for i in rng.permutation(nc)],dtype=float)
    np.save(td/'channel_positions.npy',pos)
    m=load_model(td/'params.py'); m.n_closest_channels=int(rng.choice([2,3,12]))
    wmi4=(m.wmi*4); assert np.all(wmi4==np.round(wmi4))
    for t in range(nt):
        for thr in [(0,1),(1,2),(1,1)]:
            for unw in [True,False]:
                b=m.get_template(t,amplitude_threshold=thr[0]/thr[1],unwhiten=unw)
                sc=4 if unw else 1
                rec=dict(id=tid,T=g['T'][t].astype(int).tolist(),wmi4=wmi4.astype(int).tolist(),unw=unw,pos=pos.astype(int).tolist(),shank=shanks.tolist(),
                         nclosest=m.n_closest_channels,thr=list(thr),
                         ch=[int(c) for c in b.channel_ids],tmpl=(b.template*sc).astype(int).tolist(),amp=[int(a*sc) for a in b.amplitude],best=int(b.best_channel))
                assert np.all(b.template*sc==np.round(b.template*sc))
                out.write(json.dumps(rec)+'\n'); tid+=1
    m.close()
out.close(); print(tid)
