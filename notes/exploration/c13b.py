from gen import *
from phylib.io.model import load_model
from phylib.io.alf import EphysAlfCreator
import traceback
rng=np.random.RandomState(0)
root=Path(tempfile.mkdtemp()); td=root/'d'
g=make(td,rng,nc=4,nt=5,ns=10,raw=False,wm='perm')
st=np.load(td/'spike_templates.npy'); st[st==4]=0; np.save(td/'spike_templates.npy',st)
m=load_model(td/'params.py')
print(m.n_templates,m.n_clusters)
for use in ['templates','clusters']:
    try: r=m.get_amplitudes_true(1.,use=use); print(use,[x.shape for x in r])
    except Exception as e: print(use,'EXC',repr(e))
try: EphysAlfCreator(m).convert(root/'alf'); print(sorted(p.name for p in (root/'alf').iterdir()))
except Exception as e: print(traceback.format_exc()[-500:])
