import sys, tempfile
sys.path.insert(0,'/tmp/scratch/phylib')
import numpy as np, mtscomp
from pathlib import Path
from phylib.io.traces import get_ephys_reader, MtscompEphysReader, export_waveforms, extract_waveforms
td=Path(tempfile.mkdtemp())
nc=3
bad=0
for N in [1,7,50,99,100,101,250]:
  big=np.random.RandomState(N).randint(-100,100,size=(N,nc)).astype(np.int16)
  big.tofile(td/'big.bin')
  for cd in [0.05,0.1,0.5,1.0,5.0]:
    for p in ['big.cbin','big.ch']:
        if (td/p).exists(): (td/p).unlink()
    mtscomp.compress(td/'big.bin', td/'big.cbin', td/'big.ch', sample_rate=100., n_channels=nc, dtype=np.int16, chunk_duration=cd, check_after_compress=False)
    for nt in [1,2,3,8]:
      for cache in [False,True]:
        r0=mtscomp.Reader(n_threads=nt); r0.open(td/'big.cbin')
        r=get_ephys_reader(r0)
        cb=list(r.chunk_bounds)
        ok=cb[0]==0 and cb[-1]==N and all(a<b for a,b in zip(cb,cb[1:]))
        iv=[(a,b) for a,b in r.iter_chunks(cache=cache)]
        ne=[(a,b) for a,b in iv if a<b]
        tile= ne and ne[0][0]==0 and ne[-1][1]==N and all(ne[i][1]==ne[i+1][0] for i in range(len(ne)-1)) and all(a<=b for a,b in iv)
        if not ok or not tile:
            bad+=1
            if bad<6: print('BAD',N,cd,nt,cache,cb,iv, r0.n_batches, r0.batch_size)
        # waveforms over cbin
        ss=np.array(sorted(set([0,N-1]+[b for b in cb if b<N]+[max(0,b-1) for b in cb])),dtype=np.int64)
        sc=np.tile([0,2],(len(ss),1))
        export_waveforms(td/'w.npy',r,ss,sc,n_samples_waveforms=4,sample2unit=1.,cache=cache)
        w=np.load(td/'w.npy'); e=extract_waveforms(get_ephys_reader(big,sample_rate=100.),ss,np.array([0,2]),n_samples_waveforms=4)
        if not np.array_equal(w,e): bad+=1; print('WBAD',N,cd,nt,cache)
        r0.close()
print('bad',bad)
