from gen import *
from phylib.io.model import load_model
rng=np.random.RandomState(2)
for variant in range(4):
    td2=Path(tempfile.mkdtemp())/'d'
    g=make(td2,rng,raw=False,sparse_feat=False,tf=False,curated=(lambda st,r: st) if variant%2 else None, sr=128.)
    s=np.load(td2/'spike_times.npy'); (td2/'spike_times.npy').unlink(); np.save(td2/'spikes.times.npy',s/128.)
    if variant>=2: np.save(td2/'spikes.samples.npy',s)
    ren=[('spike_templates.npy','spikes.templates.npy'),('amplitudes.npy','spikes.amps.npy'),('channel_map.npy','channels.rawInd.npy'),('channel_positions.npy','channels.localCoordinates.npy'),('templates.npy','templates.waveforms.npy')]
    if variant%2: ren.append(('spike_clusters.npy','spikes.clusters.npy'))
    for a,b in ren: (td2/a).rename(td2/b)
    h0=hashes(td2)
    try:
        m=load_model(td2/'params.py'); print(variant,'alf ok',m.spike_samples.dtype,np.array_equal(m.spike_samples,s), np.array_equal(m.spike_times,s/128.), m.spike_clusters[:4])
        h1=hashes(td2); print('  new',set(h1)-set(h0),'changed',[k for k in h0 if h0[k]!=h1[k]])
        m.close()
    except Exception as e:
        print(variant,'EXC',repr(e)[:200])
