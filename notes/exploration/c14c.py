from gen import *
from phylib.io.model import load_model
from phylib.io.merge import Merger
from phylib.io.alf import EphysAlfCreator
from c08 import curate
import collections, traceback, logging
logging.disable(logging.CRITICAL)
agg=collections.Counter(); ex={}
for seed in range(40):
    rng=np.random.RandomState(seed)
    k=rng.randint(2,5)
    root=Path(tempfile.mkdtemp()); subs=[]; cms=[]
    for i in range(k):
        td=root/('p%d'%i)
        g=make(td,rng,nc=rng.choice([3,4,5]),nt=3,raw=False,ns=8,curated=(curate if rng.rand()<.4 else (lambda st,r: st)),wm='perm',nloc=2,n_extra=rng.randint(0,2))
        subs.append(td); cms.append(g['cm'])
    try:
        m=Merger(subs,root/'m').merge()
        m.n_closest_channels=2
        out=EphysAlfCreator(m).convert(root/'alf',ampfactor=[1,2.5][seed%2])
    except Exception as e:
        agg['exc']+=1; ex.setdefault('exc',(seed,traceback.format_exc()[-600:])); continue
    af=[1,2.5][seed%2]
    L=lambda n: np.load(root/'alf'/n)
    if not np.array_equal(L('channels.rawInd.npy'),np.concatenate(cms)): agg['rawInd']+=1
    for kind,sp,ids,n in [('templates',m.sparse_templates,m.spike_templates,m.n_templates),('clusters',m.sparse_clusters,m.spike_clusters,m.n_clusters)]:
        W=np.stack([sp.data[i]@m.wmi for i in range(n)])
        ptp=(W.max(1)-W.min(1)); amp_au=ptp.max(1); peak=np.argmax(sp.data.max(1)-sp.data.min(1),axis=1)
        sa=m.amplitudes*amp_au[ids]
        wf=L(kind+'.waveforms.npy'); wc=L(kind+'.waveformsChannels.npy'); am=L(kind+'.amps.npy')
        if wf.shape[0]!=n or wc.shape[0]!=n or am.shape[0]!=n: agg[kind+'_dim']+=1; ex.setdefault(kind+'_dim',(seed,wf.shape,n)); continue
        for i in range(n):
            mem=sa[ids==i]
            if len(mem)==0: continue
            if not np.isclose(am[i],mem.mean()*af): agg[kind+'_amp']+=1
            if amp_au[i]>0:
                e=W[i]*(mem.mean()/amp_au[i])*af
                if not np.allclose(wf[i],e[:,wc[i]],rtol=1e-5): agg[kind+'_wf']+=1; ex.setdefault(kind+'_wf',(seed,i))
            if wc[i][0]!=peak[i]: agg[kind+'_peakfirst']+=1
            pr=m.channel_probes
            same=[c for c in wc[i] if pr[c]==pr[peak[i]]]
            nprobe=int((pr==pr[peak[i]]).sum())
            if len(same)!=min(len(wc[i]),nprobe): agg[kind+'_otherprobe']+=1; ex.setdefault(kind+'_otherprobe',(seed,i,wc[i],pr))
    m.close(); out.close()
print(agg)
for kk,v in ex.items(): print(kk,str(v)[:700])
