from gen import *
import gen
from phylib.io.model import load_model
from phylib.io.merge import Merger
from phylib.io.alf import EphysAlfCreator
from c08 import curate
import collections, traceback, logging
logging.disable(logging.CRITICAL)
agg=collections.Counter(); ex={}
for seed in range(150):
    rng=np.random.RandomState(1000+seed)
    gen.IND_DT=['int32','uint32'][seed%2]
    k=rng.randint(1,5)
    root=Path(tempfile.mkdtemp()); subs=[]; G=[]
    try:
        for i in range(k):
            td=root/('p%d'%i)
            nt=int(rng.choice([2,3,5]))
            g=make(td,rng,nc=int(rng.choice([3,4,6])),nt=nt,raw=False,ns=int(rng.randint(2,10)),curated=(curate if rng.rand()<.5 else (lambda st,r: st)),wm='perm',nloc=2,n_extra=int(rng.randint(0,2)),col1=bool(rng.rand()<.3))
            subs.append(td); G.append(g)
        m=Merger(subs,root/'m').merge()
        m.n_closest_channels=2
        # invariants
        ncs=[g['T'].shape[2] for g in G]; nts=[g['T'].shape[0] for g in G]
        mt=m.sparse_templates.data
        tot=sum(len(g['st']) for g in G)
        if m.n_spikes!=tot: agg['nspikes']+=1
        if m.n_templates!=sum(nts) or m.n_channels!=sum(ncs): agg['counts']+=1
        # each spike's template lies on one probe block, and spikes of probe i (by amplitude/time multiset) are conserved
        blocks=np.concatenate([[i]*n for i,n in enumerate(ncs)])
        for t in np.unique(m.spike_templates):
            on=np.nonzero(np.abs(mt[t]).sum(0))[0]
            if len(set(blocks[on]))>1: agg['tmpl_multi_block']+=1
        tprobe=np.concatenate([[i]*n for i,n in enumerate(nts)])
        sp_probe=tprobe[m.spike_templates]
        for i,g in enumerate(G):
            a=np.sort(m.spike_samples[sp_probe==i]); b=np.sort(g['samples'])
            if not np.array_equal(a,b): agg['conservation']+=1; ex.setdefault('conservation',(seed,i,a,b))
        out=EphysAlfCreator(m).convert(root/'alf',label=['','x'][seed%2],ampfactor=[1,2.5][seed%2])
        for nm in ['spike_times','spike_samples','spike_clusters','spike_templates','channel_positions']:
            a=getattr(out,nm); b=getattr(m,nm)
            if not (a.shape==b.shape and np.array_equal(a,b)): agg['reload_'+nm]+=1; ex.setdefault('reload_'+nm,(seed,a[:6],b[:6]))
        ri=np.load(next((root/'alf').glob('channels.rawInd*.npy')))
        if not np.array_equal(ri,np.concatenate([g['cm'] for g in G])): agg['rawInd']+=1
        m.close(); out.close()
    except Exception as e:
        key=('exc',type(e).__name__,str(e)[:50]); agg[key]+=1; ex.setdefault(key,(seed,traceback.format_exc()[-700:]))
print(agg)
for kk,v in ex.items(): print(kk,str(v)[:900])
