from gen import *
from phylib.io.model import load_model
import collections
bad=collections.Counter(); ex={}
for seed in range(40):
    rng=np.random.RandomState(seed)
    td=Path(tempfile.mkdtemp())/'d'
    nc=6; nt=4; nloc=4
    g=make(td,rng,nc=nc,nt=nt,raw=False,sparse_feat=False,tf=False,wm='perm' if seed%2 else None)
    # make sparse templates
    cols=np.stack([rng.permutation(nc)[:nloc] for _ in range(nt)]).astype(np.int32)
    data=rng.randint(-8,9,size=(nt,4,nloc)).astype(np.float32)
    for t in range(nt):
        if rng.rand()<.5: cols[t,rng.randint(nloc)]=-1
        if rng.rand()<.5: data[t,:,rng.randint(nloc)]=0
    np.save(td/'templates.npy',data); np.save(td/'template_ind.npy',cols)
    try: m=load_model(td/'params.py')
    except Exception as e:
        bad['load']+=1; ex.setdefault('load',(seed,repr(e))); continue
    for t in range(nt):
      for unw in [True,False]:
        try: b=m.get_template(t,unwhiten=unw)
        except Exception as e:
            bad['exc']+=1; ex.setdefault('exc',(seed,t,repr(e))); continue
        keep=[j for j in range(nloc) if cols[t,j]!=-1 and np.abs(data[t,:,j]).max()>np.abs(data[t]).max()*1e-6]
        ch=cols[t,keep]
        W=data[t][:,keep]
        U=(W@m.wmi[np.ix_(ch,ch)]).astype(np.float32) if unw else W
        amp={int(c):U[:,i].max()-U[:,i].min() for i,c in enumerate(ch)}
        if set(map(int,b.channel_ids))!=set(map(int,ch)): bad['set']+=1; ex.setdefault('set',(seed,t,b.channel_ids,ch))
        else:
            for j,c in enumerate(b.channel_ids):
                i=list(ch).index(c)
                if not np.array_equal(b.template[:,j],U[:,i]): bad['col']+=1
                if b.amplitude[j]!=amp[int(c)]: bad['amp']+=1; ex.setdefault('amp',(seed,t,unw,b.channel_ids,b.amplitude,amp))
            a=[amp[int(c)] for c in b.channel_ids]
            if any(x<y for x,y in zip(a,a[1:])): bad['order']+=1
            if amp[int(b.best_channel)]!=max(a): bad['best']+=1
    m.close()
print(bad)
for k,v in ex.items(): print(k,str(v)[:700])
