from gen import *
from phylib.io.model import load_model
rng=np.random.RandomState(1)
td=Path(tempfile.mkdtemp())/'d'
g=make(td,rng,raw=False)
T=np.load(td/'templates.npy'); T[1]=np.nan; T[2,0,0]=np.inf; np.save(td/'templates.npy',T)
A=np.load(td/'amplitudes.npy'); A[3]=np.nan; A[4]=-np.inf; np.save(td/'amplitudes.npy',A)
h0=hashes(td)
m=load_model(td/'params.py')
h1=hashes(td)
print('new',set(h1)-set(h0),'changed',[k for k in h0 if h0[k]!=h1[k]])
print(m.amplitudes[:6], m.sparse_templates.data[1].sum(), m.sparse_templates.data[2,0,0])
m.close()
# ALF names
td2=Path(tempfile.mkdtemp())/'d'
g=make(td2,rng,raw=False,sparse_feat=False,tf=False)
s=np.load(td2/'spike_times.npy'); (td2/'spike_times.npy').unlink(); np.save(td2/'spikes.times.npy',s/100.)
for a,b in [('spike_templates.npy','spikes.templates.npy'),('amplitudes.npy','spikes.amps.npy'),('channel_map.npy','channels.rawInd.npy'),('channel_positions.npy','channels.localCoordinates.npy'),('templates.npy','templates.waveforms.npy')]:
    (td2/a).rename(td2/b)
h0=hashes(td2)
try:
    m=load_model(td2/'params.py'); print('alf ok',m.spike_samples.dtype,np.array_equal(m.spike_samples,s), np.array_equal(m.spike_times,s/100.))
    h1=hashes(td2); print('new',set(h1)-set(h0),'changed',[k for k in h0 if h0[k]!=h1[k]])
except Exception as e:
    import traceback; traceback.print_exc()
