from gen import *
from phylib.io.model import load_model
from phylib.io.merge import Merger
rng=np.random.RandomState(5)
root=Path(tempfile.mkdtemp()); subs=[]
for i in range(2):
    td=root/('p%d'%i)
    g=make(td,rng,nc=3,nt=3,raw=False,ns=6,wm='perm',nloc=2,curated=lambda st,r: st)
    if i==0:
        st=np.load(td/'spike_templates.npy'); st[st==2]=0; np.save(td/'spike_templates.npy',st); np.save(td/'spike_clusters.npy',st.astype(np.int32))
    subs.append(td)
m=Merger(subs,root/'m').merge()
mt=np.load(root/'m'/'templates.npy'); st=m.spike_templates
print('n_templates',m.n_templates,'merged spike_templates',st)
# each spike's template row must be nonzero only on its probe's channel block
T=np.load(subs[0]/'spike_times.npy').squeeze(); 
for r,t in enumerate(st):
    blk=np.nonzero(np.abs(mt[t]).sum(0))[0]
    print(r,int(t),'waveform on channels',blk.tolist())
