import sys
sys.path.insert(0,'/tmp/scratch/phylib')
from phylib.utils.event import ProgressReporter, connect, reset, emit, EventEmitter
pr=ProgressReporter()
log=[]
@connect(sender=pr)
def on_complete(sender,**kw): log.append('complete')
pr.value_max=2
pr.value=2; print(log)
pr.reset(); print('after reset',pr.value,pr._has_completed)
pr.value=2; print(log)
pr.reset(3); pr.value=3; print(log)
pr.reset(); pr.value=1; pr.value=3; print(log)
# value_max=0 initial: increment
pr2=ProgressReporter(); l2=[]
connect(lambda s,**k: l2.append('c'),event='complete',sender=pr2)
pr2.increment(); pr2.increment(); print(l2)
e=EventEmitter()
print(e.emit('x',None,single=True))
