from c11 import *
rng=np.random.RandomState(1)
import c11
# replicate run(1,3) dirs
r=None
import glob
root=None
orig=Path.mkdir
res=run(1,3)
import tempfile,os
latest=max(glob.glob(tempfile.gettempdir()+'/tmp*'),key=os.path.getmtime)
for i in range(3): print(np.load(Path(latest)/('p%d'%i)/'channel_map.npy').squeeze(), np.load(Path(latest)/('p%d'%i)/'channel_map.npy').dtype)
print(np.load(Path(latest)/'m'/'channel_map.npy'))
