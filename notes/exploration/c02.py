import sys, itertools, tempfile, os, warnings
sys.path.insert(0,'/tmp/scratch/phylib')
import numpy as np
warnings.simplefilter('ignore')
np.seterr(all='ignore')
from phylib.io.traces import get_ephys_reader
import operator as op
OPS={
 'pos':lambda x,a:+x,'neg':lambda x,a:-x,
 'add':lambda x,a:x+a,'radd':lambda x,a:a+x,'sub':lambda x,a:x-a,'rsub':lambda x,a:a-x,
 'mul':lambda x,a:x*a,'rmul':lambda x,a:a*x,'truediv':lambda x,a:x/a,'rtruediv':lambda x,a:a/x,
 'floordiv':lambda x,a:x//a,'rfloordiv':lambda x,a:a//x,'pow':lambda x,a:x**a,'rpow':lambda x,a:a**x,
 'cols':lambda x,a:x[:,a],
}
import collections
fails=collections.Counter(); ex={}
for dt in [np.int16,np.float32,np.float64,np.uint8]:
  arr=(np.arange(12).reshape(4,3)+1).astype(dt)
  r0=get_ephys_reader(arr,sample_rate=100.)
  names=list(OPS)
  for depth in [1,2]:
    for prog in itertools.product(names,repeat=depth):
      for args in itertools.product([2,3.5,-1],repeat=depth):
        r=r0; e=arr; bad=False
        try:
          for o,a in zip(prog,args):
            aa=[2,0] if o=='cols' else a
            e2=None
            try: e2=OPS[o](e,aa)
            except Exception as ex1: e2=ex1
            r=OPS[o](r,aa)
            e=e2
            if isinstance(e,Exception): break
          if isinstance(e,Exception):
            try:
              got=r[1:3]; 
              fails[('eager raised, lazy ok',dt.__name__)]+=1; ex.setdefault(('eager raised',dt.__name__),(prog,args,repr(e)))
            except Exception as ee: pass
            continue
          got=r[1:3]; exp=e[1:3]
          if not (got.dtype==exp.dtype and np.array_equal(got,exp,equal_nan=True)):
            fails[(prog[0] if depth==1 else 'd2',dt.__name__)]+=1; ex.setdefault((prog,dt.__name__),(args,got,exp))
        except Exception as ee:
          fails[('exc',dt.__name__,type(ee).__name__)]+=1; ex.setdefault(('exc',dt.__name__,type(ee).__name__),(prog,args,repr(ee)))
print(fails)
for k,v in list(ex.items())[:12]: print(k,v)
