from gen import *
from phylib.io.model import load_model
from phylib.io.alf import EphysAlfCreator
from phylib.utils._misc import _write_tsv_simple
from c08 import curate
import collections, traceback, logging, itertools
logging.disable(logging.CRITICAL)
agg=collections.Counter(); ex={}
n=0
for raw,feat,cur,probes,ksl,twh,label in itertools.product([0,1],[0,1],[0,1,2],[0,1],[0,1],[0,1],['','pr0']):
    n+=1
    rng=np.random.RandomState(n)
    root=Path(tempfile.mkdtemp()); td=root/'d'
    nc=int(rng.choice([4,6,14]))
    curf=None if cur==0 else (lambda st,r: st) if cur==1 else curate
    g=make(td,rng,nc=nc,nt=4,ns=15,raw=bool(raw),curated=curf,wm='perm',sparse_feat=bool(feat),tf=bool(feat),probes=np.zeros(nc,dtype=np.int32) if probes else None)
    if ksl: _write_tsv_simple(td/'cluster_KSLabel.tsv','KSLabel',{0:'good',1:'mua'})
    if twh: (td/'temp_wh.dat').write_bytes(b'12345')
    m=load_model(td/'params.py')
    h0=hashes(td)
    try:
        out=EphysAlfCreator(m).convert(root/'alf',label=label,ampfactor=[1,2.5][n%2])
    except Exception as e:
        agg['exc']+=1; ex.setdefault('exc',(n,raw,feat,cur,traceback.format_exc()[-500:])); continue
    h1=hashes(td)
    new=set(h1)-set(h0); deleted=set(h0)-set(h1); changed=[k for k in h0 if k in h1 and h0[k]!=h1[k]]
    expnew={'_phy_spikes_subset.waveforms.npy','_phy_spikes_subset.spikes.npy','_phy_spikes_subset.channels.npy'} if raw else set()
    if changed or new!=expnew or deleted!=({'temp_wh.dat'} if twh else set()): agg['src']+=1; ex.setdefault('src',(n,new,deleted,changed))
    curated=not np.array_equal(m.spike_clusters,m.spike_templates)
    ncl=(int(m.spike_clusters.max())+1) if curated else m.n_templates
    dims={'spikes':m.n_spikes,'clusters':ncl,'templates':m.n_templates,'channels':m.n_channels}
    seen=collections.Counter()
    for f in (root/'alf').iterdir():
        pre=f.name.split('.')[0]
        if pre in dims:
            seen[pre]+=1
            parts=f.name.split('.')
            if label and parts[-2]!=label: agg['label']+=1; ex.setdefault('label',(n,f.name))
            if not label and len(parts)!=3: agg['label_unexpected']+=1; ex.setdefault('label_unexpected',(n,f.name))
            n0=np.load(f).shape[0] if f.suffix=='.npy' else len(f.read_text().splitlines())-1
            if n0!=dims[pre]: agg['dim_'+pre]+=1; ex.setdefault('dim_'+pre,(n,f.name,n0,dims[pre],curated))
            if f.name.startswith('clusters.uuids'):
                u=f.read_text().splitlines()[1:]
                if len(set(u))!=len(u): agg['uuid_dup']+=1
    for need in ['spikes','clusters','templates','channels']:
        if seen[need]==0: agg['missing_'+need]+=1
    for nm in ['spike_times','spike_samples','spike_clusters','spike_templates','channel_mapping','channel_positions']:
        a=getattr(out,nm); b=getattr(m,nm)
        if not (a.shape==b.shape and np.array_equal(a,b)): agg['reload_'+nm]+=1; ex.setdefault('reload_'+nm,(n,a[:5],b[:5]))
    m.close(); out.close()
print(n,agg)
for k,v in ex.items(): print(k,str(v)[:700])
