from gen import *
from phylib.io.model import load_model
from phylib.io.alf import EphysAlfCreator
from c08 import curate
import collections, traceback
agg=collections.Counter(); ex={}
for seed in range(60):
    rng=np.random.RandomState(seed)
    root=Path(tempfile.mkdtemp()); td=root/'d'
    cur=curate if seed%3==0 else None if seed%3==1 else (lambda st,r: st)
    nc=rng.choice([4,6,14])
    g=make(td,rng,nc=nc,nt=4,ns=15,raw=False,curated=cur,wm='perm',sparse_feat=bool(seed%4))
    m=load_model(td/'params.py')
    af=[1,2.5][seed%2]
    try:
        out=EphysAlfCreator(m).convert(root/'alf',ampfactor=af)
    except Exception as e:
        agg['exc']+=1; ex.setdefault('exc',(seed,traceback.format_exc()[-700:])); continue
    L=lambda n: np.load(root/'alf'/n)
    curated=not np.array_equal(m.spike_clusters,m.spike_templates)
    for kind,sp,ids,n in [('templates',m.sparse_templates,m.spike_templates,m.n_templates),('clusters',m.sparse_clusters,m.spike_clusters,m.n_clusters)]:
        W=np.stack([sp.data[i]@m.wmi for i in range(n)])
        ptp=(W.max(1)-W.min(1)); amp_au=ptp.max(1); peak=np.argmax(sp.data.max(1)-sp.data.min(1),axis=1)
        sa=m.amplitudes*amp_au[ids]
        wf=L(kind+'.waveforms.npy'); wc=L(kind+'.waveformsChannels.npy'); am=L(kind+'.amps.npy')
        ncw=min(12,nc)
        for i in range(n):
            mem=sa[ids==i]
            if len(mem)==0:
                if not np.isnan(am[i]): agg[kind+'_amp_nan']+=1
                continue
            if not np.isclose(am[i],mem.mean()*af): agg[kind+'_amp']+=1; ex.setdefault(kind+'_amp',(seed,i,am[i],mem.mean()*af))
            e=W[i]*(mem.mean()/amp_au[i])*af if amp_au[i]>0 else None
            if e is not None and not np.allclose(wf[i],e[:,wc[i]],rtol=1e-5): agg[kind+'_wf']+=1; ex.setdefault(kind+'_wf',(seed,i))
            # channels: nearest (L1) same probe, peak first
            d=np.abs(m.channel_positions-m.channel_positions[peak[i]]).sum(1)
            if wc[i][0]!=peak[i]: agg[kind+'_peakfirst']+=1; ex.setdefault(kind+'_peakfirst',(seed,i,wc[i],peak[i]))
            if len(set(wc[i]))!=ncw: agg[kind+'_chdistinct']+=1
            ins=set(wc[i]); 
            if not all(d[a]<=d[b] for a in ins for b in range(nc) if b not in ins): agg[kind+'_nearest']+=1
    # clusters depth/channels
    cch=L('clusters.channels.npy'); cd=L('clusters.depths.npy'); pk=L('clusters.peakToTrough.npy')
    ncl=m.n_clusters
    for c in range(ncl):
        has=np.any(m.spike_clusters==c)
        if not has:
            if curated and not (np.isnan(cd[c]) and np.isnan(pk[c])): agg['nan_depth']+=1; ex.setdefault('nan_depth',(seed,c,cd[c],pk[c],curated))
        else:
            if cd[c]!=m.channel_positions[cch[c],1]: agg['cdepth']+=1
            D=m.sparse_clusters.data[c]; p=np.argmax(D.max(0)-D.min(0))
            if cch[c]!=p: agg['cch']+=1
            if not np.isclose(pk[c],(D[:,p].argmax()-D[:,p].argmin())/m.sample_rate*1e3): agg['pk']+=1
    sd=L('spikes.depths.npy')
    if m.sparse_features is None:
        if not np.allclose(sd,cd[m.spike_clusters],equal_nan=True): agg['sdepth_nofeat']+=1
    else:
        e=m.get_depths()
        if not np.allclose(sd,e.astype(np.float32),equal_nan=True): agg['sdepth']+=1
    if not np.allclose(L('spikes.amps.npy'),(m.amplitudes*((np.stack([m.sparse_templates.data[i]@m.wmi for i in range(m.n_templates)]).max(1)-np.stack([m.sparse_templates.data[i]@m.wmi for i in range(m.n_templates)]).min(1)).max(1))[m.spike_templates]*af).astype(np.float32)): agg['spike_amps']+=1
    if not np.array_equal(L('channels.rawInd.npy'),g['cm']): agg['rawInd']+=1
    m.close(); out.close()
print(agg)
for k,v in ex.items(): print(k,str(v)[:900])
