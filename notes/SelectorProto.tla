---- MODULE SelectorProto ----
(* Round-0 prototype for C17: array.SpikeSelector. The random n-subset is a nondeterministic choice;
   every outcome must satisfy the statement.                                                      *)
EXTENDS Naturals, Integers, Sequences, FiniteSets, TLC
CONSTANTS MaxSpikes, MaxT
VARIABLES times, clu, bounds, nkept, nreq, req, useChunks, subset, result, pc
vars == <<times, clu, bounds, nkept, nreq, req, useChunks, subset, result, pc>>
CluIds == {0, 1, 4}
NONE == -1
RECURSIVE NonDecr(_, _)
NonDecr(len, lo) == IF len = 0 THEN {<<>>} ELSE UNION {{<<x>> \o r : r \in NonDecr(len - 1, x)} : x \in lo..MaxT}
SetToSeq(S) == LET RECURSIVE f(_)
                   f(T) == IF T = {} THEN <<>> ELSE LET m == CHOOSE x \in T : \A y \in T : x <= y IN <<m>> \o f(T \ {m})
               IN f(S)
Grids == {SetToSeq(g) : g \in {g \in SUBSET (0..(MaxT + 1)) : 0 \in g /\ (MaxT + 1) \in g}}
Init == /\ \E len \in 1..MaxSpikes : times \in NonDecr(len, 0) /\ clu \in [1..len -> CluIds]
        /\ bounds \in Grids /\ nkept \in 1..3
        /\ nreq \in {NONE, 0, 1} /\ req \in {<<1, 4>>, <<4, 0, 1>>, <<>>, <<0, 7>>}
        /\ useChunks \in BOOLEAN
        /\ subset \in {{NONE}, {i \in 0..(MaxSpikes - 1) : i % 2 = 0}}      \* {NONE} = no subset given
        /\ result = <<>> /\ pc = "call"
n == Len(times)
\* ---- I-layer
NChunks == Len(bounds) - 1
CeilDiv(a, b) == (a + b - 1) \div b
Stride == IF CeilDiv(NChunks, nkept) > 1 THEN CeilDiv(NChunks, nkept) ELSE 1
KeptIdx == {i \in 0..(NChunks - 1) : i % Stride = 0}
RECURSIVE Flat(_)
Flat(i) == IF i >= NChunks THEN <<>> ELSE <<bounds[i + 1], bounds[i + 2]>> \o Flat(i + Stride)
ChunksKept == Flat(0)                                   \* flattened [b0,b1, b_s,b_{s+1}, ...] possibly with repeats
SearchRight(seq, x) == Cardinality({k \in 1..Len(seq) : seq[k] <= x})
InChunksI(t) == SearchRight(ChunksKept, t) % 2 = 1
Elig(c) == {i \in 0..(n - 1) : /\ clu[i + 1] = c
                                /\ (useChunks => InChunksI(times[i + 1]))
                                /\ (subset # {NONE} => i \in subset)}
ReqSet == {req[k] : k \in 1..Len(req)}
Call == /\ pc = "call"
        /\ \E choice \in [ReqSet -> SUBSET (0..(n - 1))] :
              /\ \A c \in ReqSet : IF nreq > 0 /\ Cardinality(Elig(c)) > nreq
                                   THEN choice[c] \subseteq Elig(c) /\ Cardinality(choice[c]) = nreq
                                   ELSE choice[c] = Elig(c)
              /\ result' = SetToSeq(UNION {choice[c] : c \in ReqSet})
        /\ pc' = "done" /\ UNCHANGED <<times, clu, bounds, nkept, nreq, req, useChunks, subset>>
Spec == Init /\ [][Call]_vars
\* ---- P-layer (the statement)
KeptIntervals == {<<bounds[i + 1], bounds[i + 2]>> : i \in KeptIdx}
InKeptP(t) == \E iv \in KeptIntervals : iv[1] <= t /\ t < iv[2]
KeptOk == /\ Cardinality(KeptIdx) <= nkept /\ 0 \in KeptIdx
          /\ Len(ChunksKept) = 2 * Cardinality(KeptIdx)
ParityIsMembership == \A t \in 0..MaxT : InChunksI(t) = InKeptP(t)
ResultOk == pc = "done" =>
   /\ \A k \in 1..(Len(result) - 1) : result[k] < result[k + 1]
   /\ \A k \in 1..Len(result) : LET i == result[k] IN
        /\ clu[i + 1] \in ReqSet
        /\ (useChunks => InKeptP(times[i + 1]))
        /\ (subset # {NONE} => i \in subset)
   /\ \A c \in ReqSet : LET eligP == {i \in 0..(n - 1) : clu[i + 1] = c /\ (useChunks => InKeptP(times[i + 1])) /\ (subset # {NONE} => i \in subset)}
                            sel == {result[k] : k \in 1..Len(result)} \cap {i \in 0..(n - 1) : clu[i + 1] = c}
                        IN IF nreq > 0 /\ Cardinality(eligP) > nreq THEN Cardinality(sel) = nreq ELSE sel = eligP
====
