#!/bin/sh
# Offline setup: nothing is downloaded or built; verify the tools the checks need.
set -e
cd "$(dirname "$0")"
command -v java >/dev/null
test -f /opt/veriftools/tla/tla2tools.jar
test -f /opt/veriftools/tla/CommunityModules-deps.jar
/venv/bin/python -c "import numpy, scipy, mtscomp, responses, requests"
for f in spec/*.tla; do
  case "$f" in *Trace_*) ;; *) ;; esac
done
java -cp /opt/veriftools/tla/tla2tools.jar:/opt/veriftools/tla/CommunityModules-deps.jar tla2sany.SANY spec/VIO.tla >/dev/null
/venv/bin/python -m compileall -q harness >/dev/null
chmod +x check selftest tools_manifest.py
echo "setup ok"
